"""C11 - nothing passes to or from the application outside an established session.

The quantifier is a finite product (state x role x message class x integrity defect x send
kind): exactly the E9 abstract domain.  Each clause is a reachability query on the abstract
interpretation of ``_process_message`` / ``send_msg`` / ``disconnect``, plus CFG rules for the
suspension window of ``disconnect``, the read loop and the two subclass entry points.
"""
from __future__ import annotations

import ast
import re

from sa import absint
from sa.cfg import CFG
from sa.core import AnalysisError, loc, short, unparse, walk_no_nested
from sa.guards import facts
from sa.resolve import Resolver

PRE = ("NETWORK_CONN_ESTABLISHED", "LOGON_INITIAL_SENT", "LOGON_INITIAL_RECV", "LOGON_RESPONSE", "WAITING_FOR_LOGON")
DOWN = ("UNKNOWN", "DISCONNECTED_NOCONN_TODAY", "DISCONNECTED_WCONN_TODAY", "DISCONNECTED_BROKEN_CONN")
NOT_UP = DOWN + ("AWAITING_CONNECTION", "INITIATE_CONNECTION")


def wit(e):
    return [f"witness: {absint.fmt(e.s)}"] + list(e.trail)


def run(ctx):
    repo = ctx.repo
    res = Resolver(repo)
    R1, R2, R3, R4, R5 = "C11.inbound-gating", "C11.outbound-gating", "C11.integrity-terminal", "C11.disconnect-final", "C11.entry-points-agree"
    ctx.rule(R1, "with the Logon exchange not completed, an inbound message other than Logon (Logout: only on_logout) reaches no application hook, no encoder, "
                 "no counter write, no journal write and no ACTIVE state - only disconnect; a first message other than Logon drops the connection without Logout")
    ctx.rule(R2, "Codec.encode inside send_msg is unreachable in a down or pre-Logon state for anything but Logon/Logout; the refusal raises before the allocation")
    ctx.rule(R3, "a message with a wrong BeginString, missing/wrong CompIDs, a missing or too-low MsgSeqNum reaches neither on_message/on_logon nor a counter or "
                 "journal write, the connection ends disconnected, and a Logout is sent exactly when the counterparty is identifiable")
    ctx.rule(R4, "disconnect ends in a down state, its guard is closed before the first suspension point, a down connection refuses sends and the read loop "
                 "re-checks the state before every decode")
    ctx.rule(R5, "the client and server entry points both install reader/writer, set NETWORK_CONN_ESTABLISHED and call on_connect; a live connection is never overwritten")
    # E9 reads the identity check of _validate_integrity as ONE atom, the call of FIXSession.validate_comp_ids: when the comparison is
    # spelled out some other way the classes 'CompIDs match / do not match' are not visible to it
    _vi = repo.func("AsyncFIXConnection._validate_integrity")
    if not any(isinstance(c, ast.Call) and unparse(c.func).endswith("validate_comp_ids") for c in walk_no_nested(_vi)):
        raise AnalysisError("_validate_integrity no longer compares the CompIDs through FIXSession.validate_comp_ids: the identity atom of the session model is not visible")
    ctx.assumptions += ["E9 base mode: hooks may suspend, raise and send, but do not disconnect/reset from inside the callback",
                        "encode/persist are assumed not to raise in the integrity clause (a failing Logout send aborts disconnect: reported as a note, see DESIGN)"]

    it, outs = absint.inbound(repo, sink_raises=False)
    ctx.extra["e9_inbound"] = {"steps": it.steps, "events": len(it.events), "final_configurations": len(outs),
                               "nondeterministic_conditions": sorted(it.unknown_conds)[:40]}
    ctx.evaluations += it.steps

    # ------------------------------------------------------------------ rule 1
    allowed_hooks = {"hook:on_disconnect", "hook:on_state_change"}
    seen = set()
    n1 = 0
    for e in it.events:
        s = e.s
        if s.state0 not in PRE or s.integ not in ("ok", "?") or s.ord in ("ABSENT", "LT"):
            # a missing / too-low number is an integrity defect: rule 3 decides it (drop after a Logout stating the reason)
            continue
        if s.kind in ("LOGON", "?"):
            continue
        bad = None
        if e.site.startswith("hook:"):
            if e.site == "hook:on_logout" and s.kind == "LOGOUT" and s.state0 != "NETWORK_CONN_ESTABLISHED":
                pass
            elif e.site == "hook:on_state_change":
                arg = e.info[2][0] if e.info[2] else None
                if not (isinstance(arg, tuple) and arg[0] == "state" and arg[1] in DOWN):
                    bad = f"on_state_change({arg[1] if isinstance(arg, tuple) else arg})"
            elif e.site not in allowed_hooks:
                bad = e.site[5:]
        elif e.site == "encode":
            if s.state0 == "NETWORK_CONN_ESTABLISHED" or e.info[1] != "LOGOUT":
                bad = f"encode({e.info[1]})"
        elif e.site == "nin_write":
            # the peer's Logout is part of its sequence: counting and journaling it (and nothing else) is not 'acting upon' it
            if not (s.kind == "LOGOUT" and e.info[1] == "ACCEPT" and s.state0 != "NETWORK_CONN_ESTABLISHED" and s.state in DOWN):
                bad = f"next_num_in := {e.info[1]}"
        elif e.site == "persist":
            if e.info[1] == "INBOUND" and not (s.kind == "LOGOUT" and s.state0 != "NETWORK_CONN_ESTABLISHED" and s.state in DOWN):
                bad = "persist_msg(INBOUND)"
        elif e.site == "state_set" and e.info[1] not in DOWN:
            bad = f"state := {e.info[1]}"
        if bad is None:
            continue
        key = (s.state0, s.kind, bad)
        if key in seen:
            continue
        seen.add(key)
        n1 += 1
        ctx.instance(R1, f"{bad}[{s.state0},{s.kind}]", False,
                     f"before the Logon exchange is completed (state {s.state0}) an inbound {s.kind} reaches {bad}: it is acted upon instead of dropping the connection",
                     loc(e.node), wit(e))
    # positive obligations: one per PRE state x non-Logon kind
    for st in PRE:
        for k in absint.KINDS:
            if k == "LOGON":
                continue
            if not any(key[0] == st and key[1] == k for key in seen):
                ctx.instance(R1, f"gated[{st},{k}]", True, sample={"rule": R1, "state": st, "kind": k, "holds": True})
    # a first non-Logon message really drops the connection
    for k in absint.KINDS:
        if k == "LOGON":
            continue
        finals = [o for o in outs if o[1].state0 == "NETWORK_CONN_ESTABLISHED" and o[1].kind in (k, "?") and o[1].integ in ("ok",) and o[1].ord not in ("ABSENT", "LT")
                  and o[0] == "return"]
        ok = bool(finals) and all(o[1].state in DOWN for o in finals)
        ctx.instance(R1, f"first message {k} drops the connection", ok,
                     f"a first inbound {k} on a just established connection does not leave the connection disconnected", loc(repo.func("AsyncFIXConnection._process_message")))
        # ... and so does the first message an initiator gets after its own Logon went out, when it is not the Logon reply
        fin2 = [o for o in outs if o[1].state0 == "LOGON_INITIAL_SENT" and o[1].kind in (k, "?") and o[1].integ in ("ok",) and o[1].ord not in ("ABSENT", "LT")
                and o[0] == "return"]
        if fin2 and k != "LOGOUT":  # (a Logout is taken by its own handler, whose exits the disconnect rules decide)
            ctx.instance(R1, f"first message {k} instead of the Logon reply drops the connection", all(o[1].state in DOWN for o in fin2),
                         f"an inbound {k} that arrives where the Logon reply is due (state LOGON_INITIAL_SENT) does not leave the connection disconnected",
                         loc(repo.func("AsyncFIXConnection._process_message")))

    # ------------------------------------------------------------------ rule 2
    ito, outs_o = absint.outbound(repo)
    ctx.evaluations += ito.steps
    enc = [e for e in ito.events if e.site == "encode"]
    if not enc:
        raise AnalysisError("E9: Codec.encode is not reachable from send_msg")
    seen2 = set()
    for e in enc:
        s = e.s
        states = [s.state0] if s.state0 != "?" else list(ito.states)
        kinds = [s.okind] if s.okind != "?" else list(absint.KINDS)
        for st in states:
            for k in kinds:
                if (st in NOT_UP or st in PRE) and k not in ("LOGON", "LOGOUT"):
                    key = (st, s.role0, k)
                    if key in seen2:
                        continue
                    seen2.add(key)
                    ctx.instance(R2, f"send_msg[{st},{s.role0},{k}]", False,
                                 f"send_msg reaches the encoder (allocates a MsgSeqNum and writes a frame) for a {k} message in state {st} (role {s.role0}): "
                                 "a business message goes out before the Logon exchange is completed / on a connection that is down", loc(e.node), wit(e))
    for st in list(NOT_UP) + list(PRE):
        for k in absint.KINDS:
            if k in ("LOGON", "LOGOUT"):
                continue
            if not any(key[0] == st and key[2] == k for key in seen2):
                ctx.instance(R2, f"refused[{st},{k}]", True, sample={"rule": R2, "state": st, "kind": k, "holds": True})
    # a down connection refuses everything
    for e in enc:
        if e.s.state0 in NOT_UP:
            ctx.instance(R2, f"send_msg[{e.s.state0},any]", False, f"send_msg reaches the encoder in state {e.s.state0}: a frame is emitted after a disconnect", loc(e.node), wit(e))
    # refusals raise FIXConnectionError
    refusals = {e.info[1] for e in ito.events if e.site == "raise" and e.info[0].endswith(".send_msg")}
    ctx.instance(R2, "send_msg[refusal error type]", "FIXConnectionError" in refusals and refusals <= {"FIXConnectionError", "EncodingError"},
                 f"send_msg refuses with {sorted(refusals)}", loc(repo.func("AsyncFIXConnection.send_msg")))

    # ------------------------------------------------------------------ rule 3
    defects = [("bad_begin", None, True), ("miss_comp", None, False), ("wrong_comp", None, True), ("ok", "ABSENT", True), ("ok", "LT", True)]
    for integ, ordv, want_logout in defects:
        name = integ if ordv is None else ("missing-seqnum" if ordv == "ABSENT" else "too-low-seqnum")

        def match(s):
            if s.state0 in NOT_UP or s.state0 == "?":
                return False
            if integ != "ok":
                return s.integ == integ
            if s.integ != "ok":
                return False
            if ordv == "ABSENT":
                return s.ord == "ABSENT"
            # too low outside the documented exemptions (SequenceReset ignores it in reset mode; while a resend is awaited duplicates are skipped)
            return s.ord == "LT" and s.kind not in ("SEQRESET_GF", "SEQRESET_RS", "?") and s.state0 != "RESENDREQ_AWAITING"
        evs = [e for e in it.events if match(e.s)]
        bad = None
        for e in evs:
            if e.site in ("hook:on_message", "hook:on_logon", "nin_write") or (e.site == "persist" and e.info[1] == "INBOUND") \
                    or (e.site == "state_set" and e.info[1] == "ACTIVE"):
                bad = e
                break
        ctx.instance(R3, f"{name}[silent to the application]", bad is None,
                     f"a message with defect {name} reaches {bad.site if bad else ''} {bad.info if bad else ''}", loc(bad.node) if bad else "", wit(bad) if bad else [])
        finals = [o for o in outs if match(o[1]) and o[0] == "return"]
        ok = bool(finals) and all(o[1].state in DOWN for o in finals)
        leak = next((o for o in finals if o[1].state not in DOWN), None)
        ctx.instance(R3, f"{name}[connection ends disconnected]", ok,
                     f"after a message with defect {name} the connection is left in state {leak[1].state if leak else '?'} (pre-state {leak[1].state0 if leak else '?'})",
                     loc(repo.func("AsyncFIXConnection._process_message")), list(leak[3][-10:]) if leak else [])
        logout = any(e.site == "encode" and e.info[1] == "LOGOUT" for e in evs)
        ctx.instance(R3, f"{name}[Logout {'sent' if want_logout else 'not sent'}]", logout == want_logout,
                     (f"no Logout stating the reason is sent for defect {name} although the counterparty is identifiable" if want_logout else
                      f"a Logout is sent for defect {name} although the counterparty is not identifiable"), loc(repo.func("AsyncFIXConnection._validate_integrity")))

    # E9 treats validate_comp_ids as the atom 'CompIDs match': its body must be that conjunction, and the call site must bind 49 -> target side, 56 -> sender side
    vc = repo.func("FIXSession.validate_comp_ids")
    params = [a.arg for a in vc.args.args][1:]
    # semantic form: on every path to a return whose value can be truthy, both equalities are established (by the branch
    # tests passed and by the returned expression itself)
    from sa.guards import facts as _facts, edge_facts as _edge_facts, resolved as _resolved
    vg = CFG(vc)
    want = {frozenset(("self.sender_comp_id", "sender_comp_id")), frozenset(("self.target_comp_id", "target_comp_id"))}

    def _eq_pairs(fs):
        out = set()
        for a, tv in fs:
            if tv and " == " in a:
                l_, r_ = a.split(" == ", 1)
                out.add(frozenset((l_.strip("()"), r_.strip("()"))))
        return out

    def _res_facts(e, truth):
        return _facts(_resolved(vc, e), truth) | _facts(e, truth)
    ret_nodes = [n for n in vg.nodes if n.kind == "stmt" and isinstance(n.ast, ast.Return)]
    bad_path = None
    n_paths = 0
    pairs = set()
    for rn in ret_nodes:
        v = rn.ast.value
        if v is None or (isinstance(v, ast.Constant) and not v.value):
            continue
        for path in vg.paths(vg.entry, [rn.id], exc=False):
            n_paths += 1
            fs = set()
            for a_, b_ in zip(path, path[1:]):
                for d, lab in vg.succs(a_, False):
                    if d == b_ and vg.nodes[a_].kind == "test":
                        fs |= _res_facts(vg.nodes[a_].ast, lab == "true") if lab in ("true", "false") else set()
            if not (isinstance(v, ast.Constant) and v.value):
                fs |= _res_facts(v, True)
            if any((a, not tv) in fs for a, tv in fs):
                continue  # the value cannot be truthy on this path
            got = _eq_pairs(fs)
            pairs |= got
            if not want <= got and bad_path is None:
                bad_path = (rn, sorted(map(sorted, got)))
    conj = bool(ret_nodes) and n_paths > 0 and bad_path is None
    ctx.instance(R3, "FIXSession.validate_comp_ids[both CompIDs must match]", conj and set(params) == {"target_comp_id", "sender_comp_id"},
                 f"validate_comp_ids can return a true value without both `sender == sender` and `target == target` being established (on the path to "
                 f"{loc(bad_path[0].ast) if bad_path else '?'} only {bad_path[1] if bad_path else sorted(map(sorted, pairs))}): a message for / from another party passes the identity check",
                 loc(vc))
    vi = repo.func("AsyncFIXConnection._validate_integrity")
    for c in walk_no_nested(vi):
        if isinstance(c, ast.Call) and unparse(c.func).endswith("validate_comp_ids"):
            bound = {}
            for p_, a in zip(params, c.args):
                bound[p_] = unparse(a)
            for k in c.keywords:
                bound[k.arg] = unparse(k.value)
            ok = re.fullmatch(r"\w+\[FTag\.SenderCompID\]", bound.get("target_comp_id", "")) and re.fullmatch(r"\w+\[FTag\.TargetCompID\]", bound.get("sender_comp_id", ""))
            ctx.instance(R3, "_validate_integrity[49 vs our target, 56 vs our sender]", bool(ok),
                         f"the inbound SenderCompID(49)/TargetCompID(56) are bound as {bound}: the peer's sender must be compared with our target and vice versa", loc(c))

    # frames with a wrong BeginString are discarded by the decoder itself: exact comparison of the first field's value with the protocol's BeginString
    from sa.cfg import CFG as _CFG
    dec = repo.func("Codec.decode")
    dg = _CFG(dec)
    exact = False
    for n in dg.nodes:
        if n.kind != "test":
            continue
        for x in ast.walk(n.ast):
            if isinstance(x, ast.Compare) and len(x.ops) == 1 and isinstance(x.ops[0], (ast.NotEq, ast.Eq)):
                sides = [unparse(x.left), unparse(x.comparators[0])]
                if "self.protocol.beginstring" in sides:
                    other = sides[1 - sides.index("self.protocol.beginstring")]
                    # the other side is the value part of the first field (tag, value = msg[0].split('=', 1))
                    src_ok = any(isinstance(a, ast.Assign) and isinstance(a.targets[0], ast.Tuple) and len(a.targets[0].elts) == 2 and unparse(a.targets[0].elts[1]) == other
                                 and re.fullmatch(r"\w+\[0\]\.split\('=', 1\)", unparse(a.value)) for a in walk_no_nested(dec))
                    lab = "true" if isinstance(x.ops[0], ast.NotEq) else "false"
                    rejects = any(dg.nodes[d].kind == "stmt" or True for d, l in dg.succs(n.id, exc=False) if l == lab)
                    rets = [r for r in dg.nodes if r.kind == "stmt" and isinstance(r.ast, ast.Return) and dg.dominated_by(r.id, n.id, lab, exc=False)]
                    none_ret = any(isinstance(r.ast.value, ast.Tuple) and isinstance(r.ast.value.elts[0], ast.Constant) and r.ast.value.elts[0].value is None for r in rets)
                    exact = exact or (src_ok and none_ret)
    ctx.instance(R3, "Codec.decode[wrong BeginString discarded]", exact,
                 "the decoder does not reject a frame by comparing the whole value of its first field with the protocol's BeginString (a prefix / partial test lets "
                 "'FIX.4.40' or 'FIX.4.4SP2' through): such frames are no longer discarded but answered", loc(dec))

    # a too-low SequenceReset-GapFill / a too-low message while a resend is awaited is tolerated (no disconnect) but must stay without effect
    for label, pred in (("too-low GapFill", lambda s: s.kind == "SEQRESET_GF" and s.ord == "LT"),
                        ("too-low message while a resend is awaited", lambda s: s.state0 == "RESENDREQ_AWAITING" and s.ord == "LT" and s.kind not in ("SEQRESET_RS", "?"))):
        bad = next((e for e in it.events if pred(e.s) and e.s.integ == "ok" and e.s.state0 not in NOT_UP and e.s.state0 != "?"
                    and (e.site in ("hook:on_message", "hook:on_logon", "nin_write") or (e.site == "persist" and e.info[1] == "INBOUND"))), None)
        ctx.instance(R3, f"{label}[no effect]", bad is None,
                     f"a {label} reaches {bad.site if bad else ''} {bad.info if bad else ''}: an already processed number moves the inbound counter or is delivered again",
                     loc(bad.node) if bad else "", wit(bad) if bad else [])

    # ------------------------------------------------------------------ rule 4
    disconnect_rules(ctx, R4, repo, res)
    # ------------------------------------------------------------------ rule 5
    entry_points(ctx, R5, repo, res)


def disconnect_rules(ctx, R4, repo, res):
    fn = repo.func("AsyncFIXConnection.disconnect")
    g = CFG(fn)
    # (a) E9: from every up state disconnect(down state) ends down on every normal path
    it = absint.Interp(repo, sink_raises=False)
    bad = None
    n = 0
    for d in ("DISCONNECTED_BROKEN_CONN", "DISCONNECTED_WCONN_TODAY"):
        outs = it.run("AsyncFIXConnection.disconnect", it.initial(), {"disconn_state": ("state", d), "logout_message": absint.UNK, "self": absint.UNK})
        for k, s, v, tr in outs:
            n += 1
            if k == "return" and s.state not in DOWN and s.state0 not in DOWN:
                bad = (s, tr)
    ctx.instance(R4, "disconnect[ends in a down state]", bad is None and n > 0,
                 f"disconnect() returns normally with state {bad[0].state if bad else '?'} (from {bad[0].state0 if bad else '?'})", loc(fn), list(bad[1][-8:]) if bad else [])
    # hooks reported once: on_disconnect call count on any path = 1 (syntactic: one call site, not in a loop)
    calls = [c for c in walk_no_nested(fn) if isinstance(c, ast.Call) and unparse(c.func) == "self.on_disconnect"]
    in_loop = any(isinstance(p, (ast.For, ast.While)) for c in calls for p in _parents(c, fn))
    ctx.instance(R4, "disconnect[on_disconnect once]", len(calls) == 1 and not in_loop, f"{len(calls)} on_disconnect call site(s) in disconnect()", loc(fn))
    # (b) the guard is closed before the first suspension point
    tests = [t for t in g.nodes if t.kind == "test" and "_connection_state" in unparse(t.ast) and "DISCONNECTED_BROKEN_CONN" in unparse(t.ast)]
    if not tests:
        raise AnalysisError("disconnect: the 'still connected' guard was not found")
    t = tests[0]
    guard_attrs = {unparse(x) for x in ast.walk(t.ast) if isinstance(x, ast.Attribute) and unparse(x).startswith("self._")}
    closers = []
    for nd in g.nodes:
        if nd.kind == "stmt" and isinstance(nd.ast, ast.Assign) and unparse(nd.ast.targets[0]) in guard_attrs:
            closers.append(nd.id)
    susp = [nd.id for nd in g.nodes if nd.kind in ("stmt", "test") and nd.ast is not None and res.node_suspends(nd.ast, fn)]
    # the branch on which the caller goes on disconnecting: the one where the state is (still) above the down states
    def _passes(lab):
        fs = facts(t.ast, lab == "true")
        return any((tv and re.fullmatch(r"self\._connection_state > .*DISCONNECTED_BROKEN_CONN", a)) or
                   (not tv and re.fullmatch(r"self\._connection_state <= .*DISCONNECTED_BROKEN_CONN", a)) for a, tv in fs)
    start = [d for d, lab in g.succs(t.id, exc=False) if lab in ("true", "false") and _passes(lab)]
    if not start:
        raise AnalysisError("disconnect: neither branch of the 'still connected' guard is the connected one")
    w = None
    for sp in susp:
        for st in start:
            if st == sp:
                w = [t.id, sp]
            w = w or g.witness_path(st, [sp], avoid=set(closers), exc=False)
    ctx.instance(R4, "disconnect[guard closed before the first await]", w is None and bool(closers),
                 "a suspension point is reachable after disconnect()'s guard before anything the guard tests is changed: a second caller (heartbeat task vs reader task) "
                 "passes the same guard - Logout sent twice, on_disconnect reported twice", loc(t.ast), g.describe(w or [])[-6:])
    # (b2) whatever the guard closes is reopened on every exit - normal and exceptional - or a raising hook leaves every later disconnect() a no-op
    flag_attrs = {a for a in guard_attrs if a != "self._connection_state"}
    for fa in sorted(flag_attrs):
        sets_ = [nd.id for nd in g.nodes if nd.kind == "stmt" and isinstance(nd.ast, ast.Assign) and unparse(nd.ast.targets[0]) == fa and unparse(nd.ast.value) == "True"]
        clears_ = [nd.id for nd in g.nodes if nd.kind == "stmt" and isinstance(nd.ast, ast.Assign) and unparse(nd.ast.targets[0]) == fa and unparse(nd.ast.value) == "False"]
        leak = None
        for s_ in sets_:
            for ex_ in (g.exit, g.raise_exit):
                leak = leak or g.witness_path(s_, [ex_], avoid=set(clears_), exc=True)
        ctx.instance(R4, f"disconnect[{fa} cleared on every exit]", bool(sets_) and bool(clears_) and leak is None,
                     f"a path (e.g. an application hook raising inside disconnect) leaves disconnect() with {fa} still set: every later disconnect() - the watchdog's, "
                     "the mismatch Logout - silently does nothing", loc(t.ast), g.describe(leak or [])[-6:])
    # (c) read loop re-checks the state before every decode
    from sa.decoder import ReaderView
    rv = ReaderView(repo)
    rg = rv.cfg
    st_tests = [nd for nd in rg.nodes if nd.kind == "test" and "_connection_state" in unparse(nd.ast) and "DISCONNECTED_BROKEN_CONN" in unparse(nd.ast)]
    ok = False
    if st_tests:
        for tt in st_tests:
            # whatever the spelling (`if down: break`, `while not down:`): the decode is reached from this test only on the edge where the
            # connection is known to be up, and from a dispatch / a read only through this test
            down_labels = set()
            for lab_ in ("true", "false"):
                fs_t = facts(tt.ast, lab_ == "true")
                if any((tv and re.fullmatch(r"self\._connection_state <= .*DISCONNECTED_BROKEN_CONN", a)) or
                       (not tv and re.fullmatch(r"self\._connection_state > .*DISCONNECTED_BROKEN_CONN", a)) for a, tv in fs_t):
                    down_labels.add(lab_)
            if len(down_labels) != 1:
                continue
            down_stops = all(not rg.reaches(d, rv.decode_nodes[0], avoid={tt.id}, exc=False) and d != rv.decode_nodes[0]
                             for d, lab in rg.succs(tt.id, exc=False) if lab in down_labels)
            procs = [nd.id for nd in rg.nodes if nd.kind == "stmt" and "_process_message" in unparse(nd.ast)]
            reads = [nd.id for nd in rg.nodes if nd.kind == "stmt" and ".read(" in unparse(nd.ast)]
            srcs = procs + reads
            covered = all(not rg.reaches(p, rv.decode_nodes[0], avoid={tt.id}, exc=False) for p in srcs)
            ok = ok or (down_stops and covered)
    ctx.instance(R4, "socket_read_task[state re-checked before every decode]", ok,
                 "after _process_message (which may have disconnected) the read loop can decode and dispatch the next buffered frame without testing "
                 "`state <= DISCONNECTED_BROKEN_CONN`: message callbacks after the disconnect", loc(rv.fn))


def _parents(node, stop):
    p = getattr(node, "_parent", None)
    while p is not None and p is not stop:
        yield p
        p = getattr(p, "_parent", None)


def entry_points(ctx, R5, repo, res):
    eps = [("AsyncFIXClient.connect", "INITIATOR"), ("AsyncFIXDummyServer._handle_accept", "ACCEPTOR")]
    for q, role in eps:
        fn = repo.func(q)
        g = CFG(fn)
        src = unparse(fn)
        sets_state = [n for n in g.nodes if n.kind == "stmt" and isinstance(n.ast, ast.Assign) and unparse(n.ast.targets[0]) == "self._connection_state"
                      and unparse(n.ast.value) == "ConnectionState.NETWORK_CONN_ESTABLISHED"]
        on_conn = [n for n in g.nodes if n.kind == "stmt" and "self.on_connect()" in unparse(n.ast)]
        install = [n for n in g.nodes if n.kind == "stmt" and isinstance(n.ast, ast.Assign) and "_socket_writer" in unparse(n.ast.targets[0])]
        ok = bool(sets_state) and bool(on_conn) and bool(install)
        if ok:
            # on_connect only after the state and the transport are in place
            dom = g.dominators(exc=False)
            ok = all(any(s.id in dom.get(c.id, ()) for s in sets_state) and any(i.id in dom.get(c.id, ()) for i in install) for c in on_conn)
        ctx.instance(R5, f"{q}[transport, state, on_connect]", ok,
                     f"{q} does not install the transport, set NETWORK_CONN_ESTABLISHED and then call on_connect on every connecting path", loc(fn))
        # role set by the constructor
        init = repo.func(q.split(".")[0] + ".__init__")
        ctx.instance(R5, f"{q.split('.')[0]}.__init__[role {role}]", f"self._connection_role = ConnectionRole.{role}" in unparse(init),
                     f"{q.split('.')[0]} does not start with role {role}", loc(init))
        # a live connection is never overwritten: the install is unreachable once a live writer/reader was detected
        live_tests = [n for n in g.nodes if n.kind == "test" and ("self._socket_writer" in unparse(n.ast) or "self._socket_reader" in unparse(n.ast))]
        ok2 = bool(live_tests)
        w = None
        for t in live_tests:
            for d, lab in g.succs(t.id, exc=False):
                if lab == "true":
                    for i in install:
                        w = w or (g.witness_path(d, [i.id], exc=False) if d != i.id else [d])
        ctx.instance(R5, f"{q}[live connection not overwritten]", ok2 and w is None,
                     f"{q} installs a new reader/writer although a live connection was detected (the surplus connection is closed and then still installed)",
                     loc(fn), g.describe(w or [])[-6:])
