"""C13 - the journal is a faithful per-session, per-direction store: schema / query /
placeholder-binding / counter-encoding clauses over the journaler's SQL text (E7)."""
from __future__ import annotations

import ast
import re

from sa import journal
from sa.core import AnalysisError, loc, positions, short, unparse, walk_no_nested
from sa.fold import EnumVal, Folder

EXEMPT_DUMP = {"get_all_msgs"}  # documented unfiltered dump (dynamic, read-only SQL)


def expr_roles(e, fold):
    """Role tags of an argument expression bound to a placeholder."""
    tags = set()
    u = unparse(e)
    v = fold.fold(e)
    if isinstance(e, ast.Attribute) and e.attr == "key":
        tags.add("session_key")
    if isinstance(e, ast.Attribute) and e.attr == "value":
        inner = fold.fold(e.value)
        if isinstance(inner, EnumVal) and inner.cls == "MessageDirection":
            tags |= {"direction", inner.name}
        elif isinstance(e.value, ast.Name) and "direction" in e.value.id:
            tags.add("direction")
    names = {n.id for n in ast.walk(e) if isinstance(n, ast.Name)} | {n.attr for n in ast.walk(e) if isinstance(n, ast.Attribute)}
    for nm in names:
        l = nm.lower()
        if "seq" in l or "next_num" in l:
            tags.add("seq")
        if "next_num_in" in l or l.startswith("inbound"):
            tags.add("in")
        if "next_num_out" in l or l.startswith("outbound"):
            tags.add("out")
        if l.startswith("start") or l.startswith("begin"):
            tags.add("start")
        if l.startswith("end"):
            tags.add("end")
        if l == "target_comp_id":
            tags.add("target")
        if l == "sender_comp_id":
            tags.add("sender")
        if l in ("msg", "message", "raw_msg", "encoded_msg"):
            tags.add("msg")
    if isinstance(e, ast.BinOp) and isinstance(e.op, ast.Sub) and isinstance(e.right, ast.Constant) and e.right.value == 1:
        tags.add("minus1")
    elif isinstance(e, ast.BinOp):
        tags.add("arith")
    return tags


COL_ROLE = {"session": "session_key", "sessionId": "session_key", "direction": "direction", "seqNo": "seq",
            "msg": "msg", "targetCompId": "target", "senderCompId": "sender",
            "inboundSeqNo": "seq", "outboundSeqNo": "seq"}


def run(ctx):
    repo = ctx.repo
    fold = Folder(repo)
    views = journal.journaler_methods(repo)
    tables = journal.schema(views)
    ctx.rule("C13.key-declared", "message PRIMARY KEY = {seqNo, session, direction}; session UNIQUE = {targetCompId, senderCompId}")
    ctx.rule("C13.isolation", "every SELECT/UPDATE/DELETE on message constrains session AND direction with '='; statements on session constrain sessionId or the CompID pair")
    ctx.rule("C13.placeholder-binding", "the i-th '?' and the i-th argument agree in role (session key, direction, sequence number, CompID of the same side, message)")
    ctx.rule("C13.counter-encoding", "writers store 'last number' (row number / next-1), every loader yields stored+1 for both columns; create branch agrees with DEFAULT 0")
    ctx.rule("C13.range-semantics", "recover_messages: seqNo >= start AND seqNo <= end ORDER BY seqNo ascending, no LIMIT; recover_msg delegates with start=end")
    ctx.rule("C13.truncation-pairing", "set_seq_num: DELETE for INBOUND bound to the inbound value with '>=', likewise OUTBOUND; UPDATE stores both minus 1")
    ctx.rule("C13.duplicate-store", "persist_msg: plain INSERT (no OR REPLACE/IGNORE) precedes the counter UPDATE; only IntegrityError is caught and becomes DuplicateSeqNoError")
    ctx.assumptions += ["SQLite evaluates the parsed statements as written (trusted)", "parameter names carry the role of CompIDs (checked against FIXSession's constructor order)"]

    # ---- rule 1
    msg_t, ses_t = tables.get("message"), tables.get("session")
    if msg_t is None or ses_t is None:
        raise AnalysisError("CREATE TABLE message/session not found in the journaler")
    ctx.instance("C13.key-declared", "message.PRIMARY KEY", msg_t.primary_key == frozenset({"seqNo", "session", "direction"}),
                 f"message primary key is {sorted(msg_t.primary_key or [])}: a (session, direction, number) triple no longer identifies one row", loc(views["__init__"].fn))
    ctx.instance("C13.key-declared", "session.UNIQUE", frozenset({"targetCompId", "senderCompId"}) in ses_t.unique,
                 f"session uniqueness is {[sorted(u) for u in ses_t.unique]}: create_or_load relies on UNIQUE(targetCompId, senderCompId) to load instead of create", loc(views["__init__"].fn))
    ctx.instance("C13.key-declared", "session.sessionId", ses_t.primary_key == frozenset({"sessionId"}), "sessionId is no longer the session primary key", loc(views["__init__"].fn))

    # key columns compare byte-wise: no collation / affinity that identifies different CompIDs or numbers
    for tname, t in (("message", msg_t), ("session", ses_t)):
        for col, words in t.coldefs.items():
            up = [w.upper() for w in words]
            bad = "COLLATE" in up and not (up.index("COLLATE") + 1 < len(up) and up[up.index("COLLATE") + 1] == "BINARY")
            ctx.instance("C13.key-declared", f"{tname}.{col}[binary comparison]", not bad,
                         f"column {tname}.{col} is declared `{' '.join(words)}`: a non-binary collation makes keys that differ (e.g. CompIDs differing by letter case) "
                         "compare equal, so two sessions share one row, their messages and counters", loc(views["__init__"].fn))

    # ---- rules 2, 3 over every static statement
    for name, v in views.items():
        for s in v.sites:
            st = s.stmt
            cons = f"Journaler.{name}[{st.kind} {st.table}#{v.sites.index(s)}]"
            if st.kind in ("CREATE", "PRAGMA", "CREATE-INDEX"):
                continue
            if s.dynamic:
                ok = name in EXEMPT_DUMP and st.kind == "SELECT"
                ctx.instance("C13.isolation", cons, ok, f"dynamic SQL in {name}() is not the documented read-only dump", loc(s.call))
                continue
            # isolation
            if st.table == "message" and st.kind in ("SELECT", "UPDATE", "DELETE"):
                eq_cols = {c for c, op, _ in st.where if op == "="}
                ok = {"session", "direction"} <= eq_cols and all(c == "AND" for c in st.where_connectives)
                ctx.instance("C13.isolation", cons, ok,
                             f"{st.kind} on message is not constrained by both session and direction (WHERE {st.where}, {st.where_connectives}): "
                             "it reads or removes rows of another session / direction", loc(s.call))
            if st.table == "session" and st.kind in ("UPDATE", "DELETE") or (st.table == "session" and st.kind == "SELECT" and name != "sessions"):
                eq_cols = {c for c, op, _ in st.where if op == "="}
                ok = ("sessionId" in eq_cols or {"targetCompId", "senderCompId"} <= eq_cols) and all(c == "AND" for c in st.where_connectives)
                ctx.instance("C13.isolation", cons, ok, f"{st.kind} on session does not address one session (WHERE {st.where})", loc(s.call))
            # placeholder binding
            if s.args is None:
                if st.placeholders:
                    raise AnalysisError(f"{cons}: argument tuple of execute() is not a literal tuple")
                continue
            if len(s.args) != len(st.placeholders):
                ctx.instance("C13.placeholder-binding", cons, False, f"{len(st.placeholders)} placeholders but {len(s.args)} arguments", loc(s.call))
                continue
            for i, (ph, arg) in enumerate(zip(st.placeholders, s.args)):
                if ph[0] == "value":
                    cols = st.columns or (tables[st.table].columns if st.table in tables else [])
                    if ph[1] >= len(cols):
                        ctx.instance("C13.placeholder-binding", f"{cons}?{i}", False, "more VALUES than columns", loc(s.call))
                        continue
                    col = cols[ph[1]]
                else:
                    col = ph[1]
                want = COL_ROLE.get(col)
                roles = expr_roles(arg, fold)
                ok = want in roles if want else True
                # CompID columns must not be bound to the opposite side
                if col == "targetCompId" and "sender" in roles or col == "senderCompId" and "target" in roles:
                    ok = False
                if col in ("inboundSeqNo", "outboundSeqNo"):
                    side = "in" if col == "inboundSeqNo" else "out"
                    other = "out" if side == "in" else "in"
                    if other in roles and side not in roles:
                        ok = False
                    if side not in roles and other not in roles:
                        # neutral name (seq_no): the branch guard must select this direction
                        gd = {_dir_guard(t, lab, fold) for nid in v.site_nodes[s] for t, lab in v.cfg.guards(nid)}
                        ok = ok and (("INBOUND" if side == "in" else "OUTBOUND") in gd)
                ctx.instance("C13.placeholder-binding", f"{cons}?{i}:{col}", ok,
                             f"placeholder {i} of `{st.text[:60]}` belongs to column {col} but is bound to `{short(arg, 40)}`", loc(s.call),
                             sample={"rule": "C13.placeholder-binding", "method": name, "column": col, "arg": short(arg, 40), "holds": ok})
    ctx.floor("C13.placeholder-binding", 20)
    ctx.floor("C13.isolation", 5)

    # FIXSession(key, target, sender) constructor order vs the SELECT column list
    init = repo.func("FIXSession.__init__")
    params = [a.arg for a in init.args.args[1:]]
    if params[:3] != ["key", "target_comp_id", "sender_comp_id"]:
        pass  # roles follow names below
    for name, v in views.items():
        sel = [s for s in v.sites if s.stmt.kind == "SELECT" and s.stmt.table == "session"]
        for call in [c for c in walk_no_nested(v.fn) if isinstance(c, ast.Call) and unparse(c.func) == "FIXSession"]:
            def role_of(a):
                col = _row_col(a, sel)
                if col:
                    return COL_ROLE.get(col, col)
                r = expr_roles(a, fold)
                return "target" if "target" in r else "sender" if "sender" in r else "session_key" if isinstance(a, ast.Name) and "id" in a.id else "?"
            fparams_ = {a_.arg for a_ in v.fn.args.args}
            roles = []
            for a in call.args:
                ro = role_of(a)
                if ro == "?" and isinstance(a, ast.Name) and a.id not in fparams_:
                    # a local: the role every one of its definitions has
                    dd = [x.value for x in walk_no_nested(v.fn) if isinstance(x, ast.Assign) and len(x.targets) == 1 and unparse(x.targets[0]) == a.id]
                    rs = {role_of(d) for d in dd}
                    ro = rs.pop() if len(rs) == 1 else "?"
                roles.append(ro)
            want = [{"key": "session_key", "target_comp_id": "target", "sender_comp_id": "sender"}.get(p, p) for p in params[:len(roles)]]
            ctx.instance("C13.placeholder-binding", f"Journaler.{name}[FIXSession({unparse(call)[11:40]})]", roles == want,
                         f"FIXSession is constructed with {roles} where its parameters are {want}: mirror-image sessions get confused", loc(call))

    # ---- rule 4: counter encoding
    for name, v in views.items():
        sel = [s for s in v.sites if s.stmt.kind == "SELECT" and s.stmt.table == "session"]
        for n in walk_no_nested(v.fn):
            if isinstance(n, ast.Assign) and len(n.targets) == 1 and isinstance(n.targets[0], ast.Attribute) \
                    and n.targets[0].attr in ("next_num_in", "next_num_out"):
                side = n.targets[0].attr
                col_want = "inboundSeqNo" if side == "next_num_in" else "outboundSeqNo"
                fparams = {a_.arg for a_ in v.fn.args.args}
                vals_ = [n.value]
                if isinstance(n.value, ast.Name) and n.value.id not in fparams:
                    # a local: every value it can hold at this point (e.g. the elements of a (key, target, sender, out, in) tuple
                    # built differently for a new and for a loaded session)
                    dd = [x.value for x in walk_no_nested(v.fn) if isinstance(x, ast.Assign) and len(x.targets) == 1 and unparse(x.targets[0]) == n.value.id]
                    if dd:
                        vals_ = dd
                for val in vals_:
                    cons = f"Journaler.{name}[{side} := {short(val, 30)}]"
                    if isinstance(val, ast.Constant):
                        ok = val.value == 1 and ses_t.defaults.get(col_want) == "0"
                        ctx.instance("C13.counter-encoding", cons, ok,
                                     f"a new session starts at {val.value!r} but the column default is {ses_t.defaults.get(col_want)}: create and load disagree", loc(n))
                    elif isinstance(val, ast.Name):
                        # set_seq_num: the live counter takes the parameter; the durable twin must be param - 1
                        upd = [s for s in v.sites if s.stmt.kind == "UPDATE" and s.stmt.table == "session"]
                        ok = False
                        for s in upd:
                            for ph, arg in zip(s.stmt.placeholders, s.args or []):
                                if ph[0] == "set" and ph[1] == col_want:
                                    # the parameter, or the attribute it was just stored into (the same number on every path:
                                    # when the parameter is None the attribute keeps the live value, which is what is stored then)
                                    ok = unparse(arg) == f"{val.id} - 1" or (unparse(arg) == f"{unparse(n.targets[0])} - 1" and positions(v.fn)[id(n)] < positions(v.fn)[id(s.call)])
                        ctx.instance("C13.counter-encoding", cons, ok,
                                     f"{name}() sets {side} from `{val.id}` but does not store `{val.id} - 1` into {col_want}", loc(n))
                    else:
                        col = None
                        plus1 = False
                        if isinstance(val, ast.BinOp) and isinstance(val.op, ast.Add) and isinstance(val.right, ast.Constant) and val.right.value == 1:
                            col = _row_col(val.left, sel)
                            plus1 = True
                        elif isinstance(val, ast.BinOp) and isinstance(val.op, ast.Add) and isinstance(val.left, ast.Constant) and val.left.value == 1:
                            col = _row_col(val.right, sel)
                            plus1 = True
                        else:
                            col = _row_col(val, sel)
                        ok = plus1 and col == col_want
                        ctx.instance("C13.counter-encoding", cons, ok,
                                     f"loader {name}() computes {side} as `{short(val, 40)}` (column {col}); the stored value is the last number, "
                                     f"so every loader must yield {col_want} + 1", loc(n))
    ctx.floor("C13.counter-encoding", 8)
    # writers in persist_msg: the counter takes the row's own number
    pv = views.get("persist_msg")
    if pv is None:
        raise AnalysisError("Journaler.persist_msg vanished")
    ins = [s for s in pv.sites if s.stmt.kind == "INSERT" and s.stmt.table == "message"]
    upd = [s for s in pv.sites if s.stmt.kind == "UPDATE" and s.stmt.table == "session"]
    if len(ins) != 1 or not upd:
        raise AnalysisError("persist_msg: INSERT message / UPDATE session sites not found")
    cols = ins[0].stmt.columns or msg_t.columns
    seq_arg = None
    for ph, arg in zip(ins[0].stmt.placeholders, ins[0].args or []):
        if ph[0] == "value" and cols[ph[1]] == "seqNo":
            seq_arg = unparse(arg)
    for s in upd:
        for ph, arg in zip(s.stmt.placeholders, s.args or []):
            if ph[0] == "set":
                ctx.instance("C13.counter-encoding", f"Journaler.persist_msg[{ph[1]} := {short(arg, 20)}]",
                             unparse(arg) == seq_arg and ph[2].strip() == "?",
                             f"persist_msg stores `{ph[1]}={ph[2]}` bound to `{short(arg, 30)}`, not the number of the row it inserted (`{seq_arg}`): "
                             "storing n no longer makes n+1 the next number", loc(s.call))
    # the row number is the frame's own tag 34
    defs = [n for n in walk_no_nested(pv.fn) if isinstance(n, ast.Assign) and isinstance(n.targets[0], ast.Name) and n.targets[0].id == seq_arg]
    ok = len(defs) == 1 and isinstance(defs[0].value, ast.Call) and unparse(defs[0].value.func).endswith("find_seq_no") \
        and [unparse(a) for a in defs[0].value.args] == [pv.fn.args.args[1].arg]
    ctx.instance("C13.counter-encoding", "Journaler.persist_msg[row number]", ok,
                 "the row number is no longer find_seq_no(<the stored bytes>)", loc(pv.fn))

    # ---- rule 5: range semantics
    rv = views.get("recover_messages")
    if rv is None:
        raise AnalysisError("Journaler.recover_messages vanished")
    sel = [s for s in rv.sites if s.stmt.kind == "SELECT"]
    if len(sel) != 1:
        raise AnalysisError("recover_messages: expected one SELECT")
    st = sel[0].stmt
    binds = {}
    for ph, arg in zip(st.placeholders, sel[0].args or []):
        if ph[0] == "where" and ph[1] == "seqNo":
            binds[ph[2]] = expr_roles(arg, fold)
    p = [a.arg for a in rv.fn.args.args]
    ok_lo = ">=" in binds and "start" in binds[">="] and "end" not in binds[">="]
    ok_hi = "<=" in binds and "end" in binds["<="] and "start" not in binds["<="]
    ctx.instance("C13.range-semantics", "recover_messages.lower", ok_lo and set(binds) == {">=", "<="},
                 f"range query bounds are {sorted(binds)} with roles {binds}: expected seqNo >= start (inclusive)", loc(sel[0].call))
    ctx.instance("C13.range-semantics", "recover_messages.upper", ok_hi, f"upper bound is not `seqNo <= end` (inclusive): {binds}", loc(sel[0].call))
    ctx.instance("C13.range-semantics", "recover_messages.order", st.order_by == [("seqNo", "ASC")] and st.limit is None,
                 f"ORDER BY {st.order_by} LIMIT {st.limit}: messages must come back in ascending number order, all of them", loc(sel[0].call))
    ctx.instance("C13.range-semantics", "recover_messages.columns", st.columns == ["msg"], f"SELECT list is {st.columns}, the loop reads column 0 as the message bytes", loc(sel[0].call))
    # result list preserves cursor order
    appends = [c for c in walk_no_nested(rv.fn) if isinstance(c, ast.Call) and isinstance(c.func, ast.Attribute) and c.func.attr in ("append", "insert", "sort", "reverse")]
    ok = all(c.func.attr == "append" for c in appends) and not any(
        isinstance(c, ast.Call) and unparse(c.func) in ("sorted", "reversed", "set") for c in walk_no_nested(rv.fn))
    # the result is built by appending in cursor order, or is a list comprehension over the cursor / its fetched rows
    comp = [r_ for r_ in walk_no_nested(rv.fn) if isinstance(r_, ast.Return) and isinstance(r_.value, ast.ListComp) and len(r_.value.generators) == 1
            and not r_.value.generators[0].ifs and re.fullmatch(r"self\.cursor(\.fetchall\(\))?|\w+", unparse(r_.value.generators[0].iter))]
    ctx.instance("C13.range-semantics", "recover_messages.result-order", ok and (bool(appends) or bool(comp)), "result list is reordered after the query", loc(rv.fn))
    one = repo.func("Journaler.recover_msg")
    calls = [c for c in walk_no_nested(one) if isinstance(c, ast.Call) and unparse(c.func) == "self.recover_messages"]
    pp = [a.arg for a in one.args.args]
    ok = len(calls) == 1 and [unparse(a) for a in calls[0].args] == [pp[1], pp[2], pp[3], pp[3]]
    ctx.instance("C13.range-semantics", "recover_msg.delegates", ok,
                 f"recover_msg no longer delegates with start=end=seq_no: {short(calls[0]) if calls else 'no call'}", loc(one))

    # the bounds reach the query as given (no rewriting of 0 / None into something else) ...
    params = [a.arg for a in rv.fn.args.args][1:]
    rebinds = [n for n in walk_no_nested(rv.fn) if isinstance(n, (ast.Assign, ast.AugAssign, ast.AnnAssign)) and any(
        isinstance(t, ast.Name) and t.id in params for t in (n.targets if isinstance(n, ast.Assign) else [n.target]))]
    plain = all(isinstance(a, ast.Name) and a.id in params or isinstance(a, ast.Attribute) for a in (sel[0].args or []))
    ctx.instance("C13.range-semantics", "recover_messages.bounds-as-given", not rebinds and plain,
                 f"recover_messages rewrites its arguments before the query (`{short(rebinds[0]) if rebinds else 'computed bound'}`): an empty / inverted range "
                 "such as [5, 0] no longer returns nothing", loc(rebinds[0]) if rebinds else loc(sel[0].call))
    # ... and the bytes come back as stored: no transcoding on the way in or out
    pv = views.get("persist_msg")
    ins = [x for x in pv.sites if x.stmt.kind == "INSERT" and x.stmt.table == "message"]
    msg_param = [a.arg for a in pv.fn.args.args][1]
    if len(ins) != 1 or not ins[0].args:
        raise AnalysisError("persist_msg: the INSERT into message was not found")
    stored = ins[0].args[-1]
    ctx.instance("C13.placeholder-binding", "persist_msg[message stored as given]", isinstance(stored, ast.Name) and stored.id == msg_param,
                 f"the message column receives `{short(stored)}`, not the bytes that were handed in: what is read back is a transcoded copy", loc(ins[0].call))
    for mname in ("recover_messages", "get_all_msgs"):
        mv = views.get(mname)
        if mv is None:
            continue
        row_loops = [lp for lp in walk_no_nested(mv.fn) if isinstance(lp, ast.For) and ("cursor" in unparse(lp.iter) or "fetch" in unparse(lp.iter))]
        for lp in row_loops:
            rowvars = {x.id for x in ast.walk(lp.target) if isinstance(x, ast.Name)}
            for c in walk_no_nested(lp):
                if not (isinstance(c, ast.Call) and isinstance(c.func, ast.Attribute) and c.func.attr in ("append",) and c.args):
                    continue
                if not any(isinstance(x, ast.Name) and x.id in rowvars for x in ast.walk(c.args[0])):
                    continue
                # (re-packing the row itself - tuple(row) / list(row) - leaves its elements as they are)
                calls_in = [x for x in ast.walk(c.args[0]) if isinstance(x, ast.Call)
                            and not (isinstance(x.func, ast.Name) and x.func.id in ("tuple", "list") and len(x.args) == 1 and not x.keywords
                                     and isinstance(x.args[0], ast.Name) and x.args[0].id in rowvars)]
                ctx.instance("C13.placeholder-binding", f"{mname}[row returned as stored]", not calls_in,
                                 f"`{short(c)}` transforms the stored value on the way out (`{short(calls_in[0]) if calls_in else ''}`): the message is not returned unchanged "
                             "(e.g. bytes >= 0x80 re-encoded)", loc(c))

    # ---- rule 6: truncation pairing
    sv = views.get("set_seq_num")
    if sv is None:
        raise AnalysisError("Journaler.set_seq_num vanished")
    dels = [s for s in sv.sites if s.stmt.kind == "DELETE" and s.stmt.table == "message"]
    seen_dirs = set()
    for s in dels:
        d = None
        seq_roles = set()
        op = None
        for ph, arg in zip(s.stmt.placeholders, s.args or []):
            r = expr_roles(arg, fold)
            if ph[1] == "direction":
                d = "INBOUND" if "INBOUND" in r else "OUTBOUND" if "OUTBOUND" in r else None
            if ph[1] == "seqNo":
                seq_roles, op = r, ph[2]
        want = "in" if d == "INBOUND" else "out"
        other = "out" if want == "in" else "in"
        ok = d is not None and want in seq_roles and other not in seq_roles and op == ">=" and "minus1" not in seq_roles and "arith" not in seq_roles
        seen_dirs.add(d)
        ctx.instance("C13.truncation-pairing", f"set_seq_num[DELETE {d}]", ok,
                     f"truncation of {d} messages uses `seqNo {op} <{sorted(seq_roles)}>`: setting the counters must remove exactly the messages numbered at or above the new value of that direction", loc(s.call))
    ctx.instance("C13.truncation-pairing", "set_seq_num[both directions]", seen_dirs == {"INBOUND", "OUTBOUND"},
                 f"set_seq_num truncates only {sorted(map(str, seen_dirs))}", loc(sv.fn))
    # truncation and counter store happen on every completed call (not only on some branch)
    for s in [x for x in sv.sites if x.stmt.is_dml]:
        g2 = sv.cfg
        ok = g2.must_pass(g2.entry, sv.site_nodes[s], [g2.exit], exc=False)
        p2 = None if ok else g2.witness_path(g2.entry, [g2.exit], avoid=sv.site_nodes[s], exc=False)
        ctx.instance("C13.truncation-pairing", f"set_seq_num[{s.stmt.kind} {s.stmt.table}#{sv.sites.index(s)} unconditional]", ok,
                     f"set_seq_num() can complete without executing `{s.sql[:50]}`: setting the counters must always store them and "
                     "remove the messages at or above the new values", loc(s.call), g2.describe(p2) if p2 else None)
    supd = [s for s in sv.sites if s.stmt.kind == "UPDATE" and s.stmt.table == "session"]
    stored = {}
    for s in supd:
        for ph, arg in zip(s.stmt.placeholders, s.args or []):
            if ph[0] == "set":
                stored[ph[1]] = expr_roles(arg, fold)
    ok = {"in", "minus1"} <= stored.get("inboundSeqNo", set()) and {"out", "minus1"} <= stored.get("outboundSeqNo", set())
    ctx.instance("C13.truncation-pairing", "set_seq_num[UPDATE stores next-1]", ok, f"stored counters are {stored}", loc(sv.fn))

    # ---- rule 7: duplicate store
    ok_plain = ins[0].stmt.or_clause is None
    ctx.instance("C13.duplicate-store", "persist_msg[INSERT is plain]", ok_plain,
                 f"INSERT {ins[0].stmt.or_clause} silently overwrites or ignores a duplicate number instead of failing", loc(ins[0].call))
    g = pv.cfg
    before = all(g.reaches(a, b, exc=False) for a in pv.site_nodes[ins[0]] for s in upd for b in pv.site_nodes[s])
    ctx.instance("C13.duplicate-store", "persist_msg[INSERT before UPDATE]", before,
                 "the counter UPDATE is not preceded by the INSERT: a duplicate number moves the counter before failing", loc(ins[0].call))
    # every message handed to persist_msg is inserted: no content-dependent skip in front of the INSERT
    ins_nodes = set(pv.site_nodes[ins[0]])
    skip = g.witness_path(g.entry, [g.exit], avoid=ins_nodes, exc=False)
    ctx.instance("C13.duplicate-store", "persist_msg[INSERT on every path]", skip is None,
                 "a normal path through persist_msg returns without inserting the message: frames of some kind (e.g. PossDup copies) are silently not journaled, "
                 "so a later resend of their range finds nothing to replay", loc(pv.fn), g.describe(skip or [])[-6:])
    handlers = [h for n in walk_no_nested(pv.fn) if isinstance(n, ast.Try) for h in n.handlers]
    ok = bool(handlers)
    for h in handlers:
        t = unparse(h.type) if h.type is not None else "<bare>"
        raises = [r for r in walk_no_nested(h) if isinstance(r, ast.Raise)]
        conv = any(r.exc is not None and "DuplicateSeqNoError" in unparse(r.exc) for r in raises)
        if not (t.endswith("IntegrityError") and conv):
            ok = False
    ctx.instance("C13.duplicate-store", "persist_msg[handler]", ok,
                 "persist_msg no longer converts exactly sqlite3.IntegrityError into DuplicateSeqNoError (an error is swallowed or over-caught)", loc(pv.fn))


def _dir_guard(test, lab, fold):
    if isinstance(test, ast.Compare) and len(test.ops) == 1 and isinstance(test.ops[0], (ast.Eq, ast.Is)) and lab == "true":
        for b in (test.comparators[0], test.left):
            v = fold.fold(b)
            if isinstance(v, EnumVal) and v.cls == "MessageDirection":
                return v.name
    return None


def _row_col(e, select_sites):
    """``row[i]`` -> name of the i-th column of the function's SELECT on session."""
    if isinstance(e, ast.Subscript) and isinstance(e.slice, ast.Constant) and isinstance(e.slice.value, int) and select_sites:
        cols = select_sites[-1].stmt.columns
        if e.slice.value < len(cols):
            return cols[e.slice.value]
    return None
