"""C04 - inbound application messages are delivered in order, once, never past a gap.

Reachability queries on the E9 abstract interpretation of ``_process_message`` over every
(pre-state, role, message class, MsgSeqNum order, integrity) tuple, plus CFG / who-writes rules.
"""
from __future__ import annotations

import ast

from sa import absint
from sa.cfg import CFG
from sa.core import AnalysisError, loc, short, unparse, walk_no_nested
from sa.guards import facts
from sa.resolve import Resolver

EXCLUDED = {"asyncfix/fix_tester.py"}


def wit(e):
    return [f"witness: {absint.fmt(e.s)}"] + list(e.trail)


def run(ctx):
    repo = ctx.repo
    res = Resolver(repo)
    R1, R2, R2F, R3, R4 = ("C04.delivery-needs-EQ", "C04.counter-write-needs-accept", "C04.reset-must-be-forward",
                           "C04.single-resend-request", "C04.accept-implies-journal")
    ctx.rule(R1, "the application callback on_message is reachable only with the inbound MsgSeqNum equal to the expected number (and before any counter write)")
    ctx.rule(R2, "next_num_in is written on the inbound path only as MsgSeqNum+1 of a message at the expected number, or as the NewSeqNo of a SequenceReset "
                 "(a GapFill only at the expected number); nobody else writes it")
    ctx.rule(R2F, "a SequenceReset moves the expected number only forward (a dominating comparison of NewSeqNo with the expected number)")
    ctx.rule(R3, "a ResendRequest is built only for a number above the expected one while no resend is awaited, starts at the expected number, and leaves the "
                 "connection in RESENDREQ_AWAITING, which is left only when the watermark is reached or on disconnect")
    ctx.rule(R4, "_finalize_message is the only caller of set_next_num_in and journals every accepted message")
    ctx.assumptions += ["E9 base mode: application hooks may suspend, raise and send, but do not call disconnect/reset_seq_num from inside the callback",
                        "no disconnect() of another task is in flight when a message is dispatched",
                        "per-message reachability from every abstract pre-state (the pre-state set is all states): multi-message arithmetic is not decided"]
    it, outs = absint.inbound(repo)
    ctx.extra["e9"] = {"steps": it.steps, "events": len(it.events), "final_configurations": len(outs),
                       "nondeterministic_conditions": sorted(it.unknown_conds)[:40]}
    ctx.evaluations += it.steps

    # ---- rule 1
    deliveries = [e for e in it.events if e.site == "hook:on_message"]
    # nothing is silently skipped: the message at the expected number does reach the application on an established session
    for st0 in ("ACTIVE", "RESENDREQ_AWAITING"):
        got = any(e.s.state0 in (st0, "?") and e.s.kind in ("APP", "?") and e.s.ord in ("EQ", "?") for e in deliveries)
        ctx.instance(R1, f"on_message reachable[{st0},APP,EQ]", got,
                     f"an application message carrying exactly the expected MsgSeqNum in state {st0} no longer reaches on_message: it is silently skipped", 
                     loc(repo.func("AsyncFIXConnection._process_message")))
    seen = set()
    for e in deliveries:
        key = (e.s.state0, e.s.kind, e.s.ord, e.s.nin)
        if key in seen:
            continue
        seen.add(key)
        ok = e.s.ord == "EQ" and e.s.nin == "SAME" and e.s.integ == "ok"
        ctx.instance(R1, f"on_message[{e.s.state0},{e.s.kind},{e.s.ord}]", ok,
                     f"on_message is reachable with MsgSeqNum {e.s.ord} the expected number (pre-state {e.s.state0}, message class {e.s.kind}, integrity {e.s.integ}, "
                     f"counter {e.s.nin}): a message is delivered twice / out of order / past a gap", loc(e.node), wit(e),
                     sample={"rule": R1, "state": e.s.state0, "kind": e.s.kind, "ord": e.s.ord})

    # ---- rule 2
    seen = set()
    for e in it.events:
        if e.site != "nin_write":
            continue
        qual, cls = e.info
        key = (qual, cls, e.s.kind, e.s.ord)
        if key in seen:
            continue
        seen.add(key)
        if cls == "ACCEPT":
            ok = e.s.ord == "EQ"
            why = "the counter advances by one for a message that is not at the expected number"
        elif cls in ("NEWSEQ", "MSGSEQ"):
            ok = e.s.kind in ("SEQRESET_GF", "SEQRESET_RS") and (e.s.kind == "SEQRESET_RS" or e.s.ord == "EQ")
            why = ("a SequenceReset-GapFill that is not at the expected number moves the counter over the missing messages" if e.s.kind == "SEQRESET_GF"
                   else "the counter is set from NewSeqNo/MsgSeqNum for a message that is not a SequenceReset")
        else:
            ok = False
            why = f"the counter is written with a value of class {cls} while a message is processed"
        ctx.instance(R2, f"{qual.split('.')[-1]}[{cls},{e.s.kind},{e.s.ord}]", ok, why + f" (pre-state {e.s.state0})", loc(e.node), wit(e))
    ctx.floor(R2, 6)
    # set_next_num_in's own equality guard (second line of defence behind the dispatcher)
    sn = repo.func("FIXSession.set_next_num_in")
    sg = CFG(sn)
    for n in sg.nodes:
        if n.kind == "stmt" and isinstance(n.ast, ast.Assign) and unparse(n.ast.targets[0]).endswith("next_num_in"):
            # paths to the write that come through the non-SequenceReset branch must pass `seq_no == next_num_in`
            base = n.ast.value.left if isinstance(n.ast.value, ast.BinOp) and isinstance(n.ast.value.op, ast.Add) else n.ast.value
            acc_name = unparse(base)
            reset_edges, eq_edges = set(), set()
            for t in sg.nodes:
                if t.kind == "test":
                    for lab in ("true", "false"):
                        fs = facts(t.ast, lab == "true")
                        if any(tv and a.endswith("== FMsg.SEQUENCERESET") for a, tv in fs):
                            reset_edges.add((t.id, lab))
                        if any(tv and a in (f"{acc_name} == self.next_num_in", f"self.next_num_in == {acc_name}") for a, tv in fs):
                            eq_edges.add((t.id, lab))
            from sa.guards import unprotected_path
            w = unprotected_path(sg, n.id, [], reset_edges | eq_edges, exc=False)
            # a write only reachable through the SequenceReset branch needs no equality test of its own
            needs_eq = unprotected_path(sg, n.id, [], reset_edges, exc=False) is not None
            ctx.instance(R2, "set_next_num_in[advance only at the expected number]", w is None and (bool(eq_edges) or not needs_eq),
                         "FIXSession.set_next_num_in advances the counter for a non-SequenceReset message without its `<number> == next_num_in` test: a number above "
                         "the expected one would move the counter past the gap", loc(n.ast), sg.describe(w or [])[-6:])
    # who writes next_num_in at all
    writers = res.writers_of("next_num_in")
    for q, nodes in sorted(writers.items()):
        mod = getattr(nodes[0], "_module").rel
        if mod in EXCLUDED:
            continue
        ok = q.startswith("FIXSession.") or q.startswith("Journaler.")
        ctx.instance(R2, f"writer[{q}]", ok, f"{q} writes next_num_in directly: the expected inbound number changes outside the session/journal layer", loc(nodes[0]))
    callers = []
    for q, call in res.call_sites("Journaler.set_seq_num"):
        if getattr(call, "_module").rel in EXCLUDED:
            continue
        if any(k.arg == "next_num_in" for k in call.keywords) or len(call.args) > 1:
            callers.append((q, call))
    for q, call in callers:
        ok = q in ("AsyncFIXConnection._process_seqreset", "AsyncFIXConnection.reset_seq_num")
        ctx.instance(R2, f"set_seq_num(next_num_in) caller[{q}]", ok, f"{q} renumbers the inbound side: only an honoured SequenceReset and the explicit reset may", loc(call))

    # ---- rule 2 forward clause (CFG of _process_seqreset)
    sr = repo.func("AsyncFIXConnection._process_seqreset")
    g = CFG(sr)
    for n in g.nodes:
        if n.kind != "stmt":
            continue
        for c in walk_no_nested(n.ast):
            if isinstance(c, ast.Call) and unparse(c.func).endswith("set_seq_num"):
                for kw in c.keywords:
                    if kw.arg == "next_num_in" and "NewSeqNo" in unparse(kw.value):
                        fs = set()
                        for t, lab in g.guards(n.id, exc=False):
                            fs |= facts(t, lab == "true")
                        fwd = any(tv and "NewSeqNo" in a and "next_num_in" in a and (" > " in a or " >= " in a) for a, tv in fs)
                        ctx.instance(R2F, "_process_seqreset", fwd,
                                     "NewSeqNo is stored without comparing it with the expected number: a SequenceReset to a lower number rewinds the counter "
                                     "(already delivered numbers are accepted again) and truncates the inbound journal", loc(c))
    ctx.floor(R2F, 1)

    # ---- rule 3
    sites = []
    for q, f in repo.functions.items():
        if getattr(f, "_module").rel in EXCLUDED:
            continue
        for c in walk_no_nested(f):
            if isinstance(c, ast.Call) and unparse(c.func) == "FIXMessage" and c.args and unparse(c.args[0]) == "FMsg.RESENDREQUEST":
                sites.append((q, c))
    if not sites:
        raise AnalysisError("no ResendRequest construction site found")
    for q, c in sites:
        evs = [e for e in it.events if e.site == "construct" and e.node is c]

        def fine(e):
            # with the counter untouched the entry order must be GT; after a SequenceReset moved it the dominating
            # comparison below is what guarantees 'above the expected number'
            return (e.s.nin != "SAME" or e.s.ord == "GT") and e.s.state != "RESENDREQ_AWAITING"
        bad = next((e for e in evs if not fine(e)), None)
        ctx.instance(R3, f"{q.split('.')[-1]}[ResendRequest only for GT outside AWAITING]", bool(evs) and bad is None,
                     ("the construction site is not reached by the dispatcher analysis" if not evs else
                      f"a ResendRequest is built with MsgSeqNum {bad.s.ord if bad else '?'} the expected number in state {bad.s.state if bad else '?'}: a second request "
                      "while one is pending, or one without a gap"), loc(c), wit(bad) if bad else [])
        fn0 = repo.func(q)
        g0 = CFG(fn0)
        fs = set()
        for cn0 in g0.ids_of(c):
            for t, lab in g0.guards(cn0, exc=False):
                fs |= facts(t, lab == "true")
        dom = any(tv and a.endswith("> self._session.next_num_in") for a, tv in fs) and \
            any(tv and a == "self._connection_state != ConnectionState.RESENDREQ_AWAITING" for a, tv in fs)
        ctx.instance(R3, f"{q.split('.')[-1]}[guarded by number > expected and state != AWAITING]", dom,
                     "the ResendRequest is not dominated by `MsgSeqNum > next_num_in` and `state != RESENDREQ_AWAITING`", loc(c))
        # BeginSeqNo operand
        begin = None
        if len(c.args) > 1 and isinstance(c.args[1], ast.Dict):
            for k, v in zip(c.args[1].keys, c.args[1].values):
                if unparse(k) == "FTag.BeginSeqNo":
                    begin = v
        ctx.instance(R3, f"{q.split('.')[-1]}[BeginSeqNo = expected number]", begin is not None and unparse(begin).endswith("next_num_in"),
                     f"BeginSeqNo is `{short(begin) if begin is not None else '?'}`, not the expected inbound number: messages are skipped or requested twice", loc(c))
        # open-ended: while the resend is awaited every too-high message is dropped, so the request must ask for everything from the expected number on
        endv = None
        if len(c.args) > 1 and isinstance(c.args[1], ast.Dict):
            for k, v in zip(c.args[1].keys, c.args[1].values):
                if unparse(k) == "FTag.EndSeqNo":
                    endv = v
        ctx.instance(R3, f"{q.split('.')[-1]}[EndSeqNo = 0 (open-ended)]", isinstance(endv, ast.Constant) and str(endv.value) == "0",
                     f"the ResendRequest is bounded (EndSeqNo = `{short(endv) if endv is not None else '?'}`): messages the peer sends above that bound before it sees the request are "
                     "dropped as too high here and then gap-filled away by the peer - lost without a second request", loc(c))
        # AWAITING entered on every normal path after the request
        fn = repo.func(q)
        fg = CFG(fn)
        cn = fg.ids_of(c)
        sets = [n.id for n in fg.nodes if n.kind == "stmt" and "_state_set(ConnectionState.RESENDREQ_AWAITING)" in unparse(n.ast)]
        leak = fg.witness_path(cn[0], [fg.exit], avoid=set(sets), exc=False) if cn else [0]
        ctx.instance(R3, f"{q.split('.')[-1]}[request => RESENDREQ_AWAITING]", leak is None,
                     "after a ResendRequest control can return without the state RESENDREQ_AWAITING: the next out-of-order message triggers another request", loc(c),
                     fg.describe(leak or [])[-5:])
    # exits from AWAITING
    seen = set()
    for e in it.events:
        if e.site == "state_set" and e.info[0] == "RESENDREQ_AWAITING" and e.info[1] != "RESENDREQ_AWAITING":
            old, new, q = e.info
            key = (q, new)
            if key in seen:
                continue
            seen.add(key)
            down = new in ("DISCONNECTED_BROKEN_CONN", "DISCONNECTED_WCONN_TODAY", "DISCONNECTED_NOCONN_TODAY") or new == "?"
            if e.s.kind in ("LOGON", "LOGOUT"):
                continue  # a Logon/Logout in mid-session is outside the property's histories (C11 decides those)
            ok = (q.endswith("._finalize_message") and new == "ACTIVE") or (q.endswith(".disconnect") and down)
            ctx.instance(R3, f"leave RESENDREQ_AWAITING -> {new} [{q.split('.')[-1]}]", ok,
                         f"RESENDREQ_AWAITING is left for {new} in {q} - outside _finalize_message's watermark test / disconnect: the gap is declared closed early",
                         loc(e.node), wit(e))
    # the watermark test itself
    fin = repo.func("AsyncFIXConnection._finalize_message")
    fg = CFG(fin)
    for n in fg.nodes:
        if n.kind == "stmt" and "_state_set(ConnectionState.ACTIVE)" in unparse(n.ast):
            fs = set()
            from sa.guards import resolved as _resolved
            for t, lab in fg.guards(n.id, exc=False):
                fs |= facts(t, lab == "true") | facts(_resolved(fin, t), lab == "true")
            acc = None
            for x in walk_no_nested(fin):
                if isinstance(x, ast.Assign) and isinstance(x.value, ast.Call) and unparse(x.value.func).endswith("set_next_num_in") and isinstance(x.targets[0], ast.Name):
                    acc = x.targets[0].id
            wm = any(tv and a == f"{acc} >= self._max_seq_num_resend" for a, tv in fs)
            # the same test on the counter: set_next_num_in has just stored <accepted number> + 1 (its result is > 0 here), so
            # `next_num_in > watermark` is `accepted >= watermark`
            accepted = any((a, tv) in ((f"{acc} > 0", True), (f"{acc} <= 0", False), (f"{acc} >= 1", True), (f"{acc} < 1", False)) for a, tv in fs)
            wm = wm or (accepted and any(tv and a in ("self._session.next_num_in > self._max_seq_num_resend", "self._max_seq_num_resend < self._session.next_num_in")
                                         for a, tv in fs))
            ok = acc is not None and wm and any(tv and "RESENDREQ_AWAITING" in a and "==" in a for a, tv in fs)
            ctx.instance(R3, "_finalize_message[ACTIVE only at the watermark]", ok,
                         "_finalize_message returns to ACTIVE without comparing the number it has just accepted with the requested watermark (>=) in RESENDREQ_AWAITING: the gap is declared closed one message early / late", loc(n.ast))

    # ---- rule 4
    cs = [(q, c) for q, c in res.call_sites("FIXSession.set_next_num_in") if getattr(c, "_module").rel not in EXCLUDED]
    ctx.instance(R4, "set_next_num_in[sole caller]", [q for q, _ in cs] == ["AsyncFIXConnection._finalize_message"],
                 f"set_next_num_in is called from {[q for q, _ in cs]}: the counter can advance without the journaling epilogue", loc(fin))
    call_nodes = [i for _, c in cs for i in fg.ids_of(c)] if cs and cs[0][0].endswith("_finalize_message") else []
    pers = [n.id for n in fg.nodes if n.kind == "stmt" and "persist_msg" in unparse(n.ast) and "INBOUND" in unparse(n.ast)]
    rej = set()
    for n in fg.nodes:
        if n.kind == "test":
            for lab in ("true", "false"):
                fs = facts(n.ast, lab == "true")
                if any(tv and a.endswith("<= 0") for a, tv in fs):
                    rej.add((n.id, lab))
    leak = None
    for cn in call_nodes:
        from rules.c03 import path_avoiding
        leak = leak or path_avoiding(fg, cn, fg.exit, set(pers), rej)
    ctx.instance(R4, "_finalize_message[accepted => persist_msg(INBOUND)]", bool(call_nodes) and bool(pers) and leak is None,
                 "a normal path leaves _finalize_message after the counter advanced without journaling the message: after a restart it is requested and delivered again",
                 loc(fin), fg.describe(leak or [])[-6:])
