"""C08 - the journal survives a crash at any point: transaction-shape clauses.

Crash points are "before/after every SQL statement and every commit"; what survives is
decided by how DML statements are bracketed by commits - visible on every path of the
journaler's methods.  SQLite's atomic commit is trusted.
"""
from __future__ import annotations

import ast
import re

from sa import journal
from sa.core import attr_chain, loc, short, unparse, walk_no_nested
from sa.fold import Folder

PRAGMA_BAD = re.compile(
    r"pragma\s+(?:\w+\.)?(?:synchronous\s*=\s*(?:off|0)\b|journal_mode\s*=\s*(?:off|memory)\b|"
    r"locking_mode\s*=\s*exclusive\b|writable_schema\s*=\s*(?:on|1)\b|ignore_check_constraints|"
    r"defer_foreign_keys)", re.I)


def run(ctx):
    repo = ctx.repo
    views = journal.journaler_methods(repo)
    tables = journal.schema(views)
    fold = Folder(repo)
    ctx.rule("C08.commit-postdominates-dml", "every non-raising path from a DML execute to the method's normal exit passes conn.commit()")
    ctx.rule("C08.one-transaction", "no commit between two DML statements of one operation; connection in implicit-transaction mode")
    ctx.rule("C08.nothing-pending-on-failure", "a DML that can fail its key constraint is the first DML of its transaction, or rollback precedes the re-raise")
    ctx.rule("C08.row-with-counter", "in the store operation every path INSERT message -> commit passes the UPDATE of the session counter (branches over the direction enum are exhaustive)")
    ctx.rule("C08.no-durability-downgrade", "no PRAGMA synchronous=OFF / journal_mode=OFF|MEMORY etc. anywhere in the package (positive control keeps the matcher alive)")
    ctx.rule("C08.sole-owner", "sqlite3, .conn and .cursor are touched only inside journaler.py")
    ctx.assumptions += ["SQLite's atomic commit and the sqlite3 module's implicit BEGIN before INSERT/UPDATE/DELETE (trusted)",
                        "exception edges out of a DML statement mean the statement changed nothing"]

    n_dml = 0
    for name, v in views.items():
        g = v.cfg
        dml = v.dml_sites()
        # ---- rule 1
        for s in dml:
            n_dml += 1
            ok = True
            path = None
            if not v.in_conn_with(s):
                for nid in v.site_nodes[s]:
                    if not g.must_pass(nid, v.commit_nodes, [g.exit], exc=False):
                        ok = False
                        p = g.witness_path(nid, [g.exit], avoid=v.commit_nodes, exc=False)
                        path = g.describe(p) if p else None
                        break
            ctx.instance("C08.commit-postdominates-dml", f"Journaler.{name}[{s.stmt.kind} {s.stmt.table}@{_ord(v, s)}]", ok,
                         f"{s.stmt.kind} on {s.stmt.table} can reach the normal exit of {name}() without conn.commit(): "
                         "the completed operation stays in an open implicit transaction and is lost on crash and on normal close",
                         loc(s.call), path, sample={"rule": "C08.commit-postdominates-dml", "method": name, "sql": s.sql[:70], "holds": ok})
        # ---- rule 2: commit between two DML
        for c in set(v.commit_nodes):
            before = [s for s in dml if any(g.reaches(n, c, exc=False) for n in v.site_nodes[s])]
            after = [s for s in dml if any(g.reaches(c, n, exc=False) for n in v.site_nodes[s])]
            # a loop-carried path is not "one operation" unless the commit sits inside the same loop body
            ok = not (before and after)
            ctx.instance("C08.one-transaction", f"Journaler.{name}[commit@L{g.nodes[c].line - v.fn.lineno}]", ok,
                         f"conn.commit() in {name}() splits the operation: {before[0].stmt.kind if before else ''} before and "
                         f"{after[0].stmt.kind if after else ''} after it become visible separately", loc(g.nodes[c].ast))
        # ---- rule 3
        for s in dml:
            can_fail = _can_violate_key(s.stmt, tables)
            tr = _enclosing_try_with_integrity_handler(s.call, v.fn)
            if not (can_fail and tr):
                continue
            earlier = [a for a in dml if a is not s and any(
                g.reaches(x, y, avoid=v.commit_nodes, exc=False) for x in v.site_nodes[a] for y in v.site_nodes[s])]
            ok = True
            if earlier:
                for h in tr.handlers:
                    has_rb = any(isinstance(c, ast.Call) and isinstance(c.func, ast.Attribute) and c.func.attr == "rollback"
                                 for st in h.body for c in walk_no_nested(st))
                    if not has_rb:
                        ok = False
            ctx.instance("C08.nothing-pending-on-failure", f"Journaler.{name}[{s.stmt.kind} {s.stmt.table}]", ok,
                         f"{s.stmt.kind} into {s.stmt.table} can fail its key constraint after {earlier[0].stmt.kind if earlier else ''} "
                         f"{earlier[0].stmt.table if earlier else ''} of the same transaction; the handler re-raises without rollback, "
                         "so the earlier change is committed by the next operation", loc(s.call))
    ctx.floor("C08.commit-postdominates-dml", 5)

    # ---- rule 4b: row with counter (persist operation)
    for name, v in views.items():
        g = v.cfg
        ins = [s for s in v.dml_sites() if s.stmt.kind == "INSERT" and s.stmt.table == "message"]
        upd = [s for s in v.dml_sites() if s.stmt.kind == "UPDATE" and s.stmt.table == "session"]
        if not ins:
            continue
        upd_nodes = [n for s in upd for n in v.site_nodes[s]]
        members = set(fold.enum_members("MessageDirection"))
        for s in ins:
            bad = None
            for nid in v.site_nodes[s]:
                targets = v.commit_nodes + [g.exit]
                for p in _paths_avoiding(g, nid, targets, upd_nodes):
                    excluded = set()
                    for a, b in zip(p, p[1:]):
                        node = g.nodes[a]
                        if node.kind == "test":
                            lab = [l for d, l in g.succs(a, exc=False) if d == b]
                            m = _direction_eq(node.ast, fold)
                            if m and "false" in lab:
                                excluded.add(m)
                    if not members <= excluded:
                        bad = g.describe(p)
                        break
            ctx.instance("C08.row-with-counter", f"Journaler.{name}[INSERT message]", bad is None,
                         "a message row can be committed without the session counter update of its direction", loc(s.call), bad)
    ctx.floor("C08.row-with-counter", 1)

    # ---- rule 2b: connect() mode
    n_conn = 0
    for mod in repo.modules.values():
        for c in ast.walk(mod.tree):
            if isinstance(c, ast.Call) and (attr_chain(c.func) or "").endswith("sqlite3.connect"):
                n_conn += 1
                bad = [kw.arg for kw in c.keywords if (kw.arg == "isolation_level" and isinstance(kw.value, ast.Constant) and kw.value.value is None)
                       or (kw.arg == "autocommit" and not (isinstance(kw.value, ast.Constant) and kw.value.value is False))]
                ctx.instance("C08.one-transaction", f"connect@{mod.rel}:{_fnname(c)}#{n_conn}", not bad,
                             f"sqlite3.connect(... {bad}) switches the connection to autocommit: row and counter are no longer one transaction", loc(c))
            if isinstance(c, ast.Assign) and any(isinstance(t, ast.Attribute) and t.attr in ("isolation_level", "autocommit") for t in c.targets):
                ctx.instance("C08.one-transaction", f"isolation-assign@{mod.rel}", False,
                             f"connection transaction mode is reassigned: {short(c)}", loc(c))
            if isinstance(c, ast.Call) and isinstance(c.func, ast.Attribute) and c.func.attr == "executescript":
                ctx.instance("C08.one-transaction", f"executescript@{mod.rel}:{_fnname(c)}", False,
                             "executescript() commits the pending transaction first", loc(c))
    if n_conn == 0:
        from sa.core import AnalysisError
        raise AnalysisError("no sqlite3.connect call found")

    # ---- rule 4: durability downgrade
    control = "PRAGMA synchronous = OFF"
    assert PRAGMA_BAD.search(control), "matcher self-test"
    n_str = 0
    hits = []
    for mod in repo.modules.values():
        for c in ast.walk(mod.tree):
            if isinstance(c, ast.Constant) and isinstance(c.value, str):
                n_str += 1
                if PRAGMA_BAD.search(c.value):
                    hits.append((mod.rel, c))
    ctx.instance("C08.no-durability-downgrade", "package-string-constants", not hits,
                 f"durability-lowering PRAGMA found: {[short(c) for _, c in hits][:3]}", loc(hits[0][1]) if hits else "",
                 evals=n_str, sample={"rule": "C08.no-durability-downgrade", "strings_scanned": n_str, "positive_control": control})
    uri_hits = []
    for mod in repo.modules.values():
        for c in ast.walk(mod.tree):
            if isinstance(c, ast.Constant) and isinstance(c.value, str) and re.search(r"(nolock|immutable)=1|vfs=unix-none", c.value):
                uri_hits.append(c)
    ctx.instance("C08.no-durability-downgrade", "connect-uri", not uri_hits, "journal opened with locking/immutability disabled",
                 loc(uri_hits[0]) if uri_hits else "")

    # ---- rule 5: sole owner
    for rel, mod in repo.modules.items():
        if rel == journal.OWNER:
            continue
        bad = []
        for n in ast.walk(mod.tree):
            if isinstance(n, (ast.Import, ast.ImportFrom)):
                names = [a.name for a in n.names] + ([n.module] if isinstance(n, ast.ImportFrom) and n.module else [])
                if any(x and x.split(".")[0] == "sqlite3" for x in names):
                    bad.append(n)
            if isinstance(n, ast.Attribute) and n.attr in ("conn", "cursor"):
                bad.append(n)
        ctx.instance("C08.sole-owner", rel, not bad,
                     f"{rel} touches the journal's database handle directly: {short(bad[0]) if bad else ''}", loc(bad[0]) if bad else "")


def _ord(v, s):
    return v.dml_sites().index(s)


def _fnname(node):
    from sa.core import enclosing_func, qualname
    f = enclosing_func(node)
    return qualname(f) if f else "<module>"


def _can_violate_key(stmt, tables):
    t = tables.get(stmt.table)
    if t is None:
        return stmt.kind == "INSERT"
    keys = set()
    if t.primary_key:
        keys |= set(t.primary_key)
    for u in t.unique:
        keys |= set(u)
    if stmt.kind == "INSERT":
        return bool(keys)
    if stmt.kind == "UPDATE":
        return bool(keys & {c for c, _ in stmt.set_cols})
    return False


def _enclosing_try_with_integrity_handler(node, fn):
    p = getattr(node, "_parent", None)
    child = node
    while p is not None and p is not fn:
        if isinstance(p, ast.Try) and child in p.body:
            for h in p.handlers:
                t = unparse(h.type) if h.type is not None else ""
                if "IntegrityError" in t or "sqlite3.Error" in t or "DatabaseError" in t:
                    return p
        child = p
        p = getattr(p, "_parent", None)
    return None


def _direction_eq(test, fold):
    """``direction == MessageDirection.X`` -> 'X'"""
    if isinstance(test, ast.Compare) and len(test.ops) == 1 and isinstance(test.ops[0], (ast.Eq, ast.Is)):
        for a, b in ((test.left, test.comparators[0]), (test.comparators[0], test.left)):
            v = fold.fold(b)
            if getattr(v, "cls", None) == "MessageDirection" and isinstance(a, ast.Name):
                return v.name
    return None


def _paths_avoiding(g, src, targets, avoid):
    avoid = set(avoid)
    targets = set(targets)
    out = []
    stack = [(src, [src], frozenset())]
    while stack:
        n, path, used = stack.pop()
        if n in targets and len(path) > 1:
            out.append(path)
            continue
        for d, lab in g.succs(n, exc=False):
            if d in avoid or (n, d) in used:
                continue
            stack.append((d, path + [d], used | {(n, d)}))
        if len(out) > 2000:
            break
    return out
