"""C01 - encode/decode round trip preserves every well-formed message (structural clauses).

Decides the necessary conditions that are visible in the shape of the codec: frame extent,
field split, delimiter agreement, sequence-number selection, header operands, decodability
of the repeating-group table, recursive order-preserving serialisation and the context-stack
discipline of the group parser.  Value-level equality for arbitrary messages is not decided.
"""
from __future__ import annotations

import ast
import re

from sa.cfg import CFG
from sa.core import AnalysisError, loc, short, unparse, walk_no_nested
from sa.decoder import DecoderView, extent_findings
from sa.fold import EnumVal, Folder, Sym
from sa.guards import derivation, facts, reaching_defs
from sa.resolve import Resolver

ENC = "Codec.encode"
ADD = "Codec._addTag"
TOTAL_CODECS = {"latin-1", "latin1", "iso-8859-1", "iso8859-1", "l1"}


def run(ctx):
    repo = ctx.repo
    res = Resolver(repo)
    fo = Folder(repo)
    dv = DecoderView(repo)
    R = {k: f"C01.{k}" for k in ("frame-extent", "split-keeps-equals", "delimiter-agreement", "seqnum-selection", "header-operands",
                                 "group-table", "group-serialisation", "parser-stack")}
    ctx.rule(R["frame-extent"], "the frame extent is delimited only by SOH-anchored searches (next marker, CheckSum trailer), never by a bare marker "
                                "search or by the buffer end when a trailer is present; the returned bytes are exactly that slice")
    ctx.rule(R["split-keeps-equals"], "every split of frame text on '=' keeps '=' inside the value (maxsplit=1 / partition)")
    ctx.rule(R["delimiter-agreement"], "encoder join and decoder split use the same separator constant; bytes are decoded with a total single-byte codec")
    ctx.rule(R["seqnum-selection"], "exactly one value reaches the emitted 34= field: allocate_next_num_out() exactly when raw_seq_num is false, the type is "
                                    "not SequenceReset and PossDupFlag is not Y, otherwise the number the message carries; the allocator returns the pre-increment value")
    ctx.rule(R["header-operands"], "49/56 come from session.sender/target (mirror image of validate_comp_ids), and the encoder skips exactly the body tags it emits itself")
    ctx.rule(R["group-table"], "every group row is duplicate-free, nests acyclically, member sets along a nesting chain are disjoint, no framing tag is a key or member")
    ctx.rule(R["group-serialisation"], "_addTag emits len(groups) and then recurses over each item's tags in container order")
    ctx.rule(R["parser-stack"], "push / pop / item-split blocks of the group parser keep stack, current context and parent attachment paired; the field is stored exactly once")
    ctx.assumptions += ["field values contain no SOH (the property's quantifier)", "dict / OrderedDict iteration order is insertion order (trusted)"]

    # ---- rule 1 (shared with C03)
    n, bad = extent_findings(dv)
    for construct, what, node in bad:
        ctx.instance(R["frame-extent"], f"Codec.decode[{construct}]", False, what, loc(node))
    for _ in range(max(0, n - len(bad))):
        ctx.instance(R["frame-extent"], "Codec.decode[extent clause]", True)
    ctx.floor(R["frame-extent"], 4)

    split_rule(ctx, R["split-keeps-equals"], dv)
    delimiter_rule(ctx, R["delimiter-agreement"], repo, dv)
    seq_rule(ctx, R["seqnum-selection"], repo, res, fo)
    header_rule(ctx, R["header-operands"], repo, res, fo)
    table_rule(ctx, R["group-table"], repo, fo)
    addtag_rule(ctx, R["group-serialisation"], repo, res)
    from rules.c01_stack import stack_rule
    stack_rule(ctx, R["parser-stack"], repo, dv, fo)


# ------------------------------------------------------------------------------ rule 2
def split_rule(ctx, rule, dv):
    n = 0
    for c in walk_no_nested(dv.fn):
        if isinstance(c, ast.Call) and isinstance(c.func, ast.Attribute) and c.func.attr in ("split", "rsplit") and c.args:
            sep = dv.fold_str(c.args[0])
            if sep != "=":
                continue
            n += 1
            ms = None
            if len(c.args) > 1 and isinstance(c.args[1], ast.Constant):
                ms = c.args[1].value
            for k in c.keywords:
                if k.arg == "maxsplit" and isinstance(k.value, ast.Constant):
                    ms = k.value.value
            ok = ms == 1 and c.func.attr == "split"
            ctx.instance(rule, f"Codec.decode[{short(c, 40)}]", ok,
                         f"`{short(c)}` does not stop at the first '=': a value containing '=' is cut or the unpack fails", loc(c))
    if n == 0:
        # partition-based parsing is fine as well
        parts = [c for c in walk_no_nested(dv.fn) if isinstance(c, ast.Call) and isinstance(c.func, ast.Attribute) and c.func.attr == "partition"
                 and c.args and dv.fold_str(c.args[0]) == "="]
        for c in parts:
            ctx.instance(rule, f"Codec.decode[{short(c, 40)}]", True)
    ctx.floor(rule, 2)


# ------------------------------------------------------------------------------ rule 3
def delimiter_rule(ctx, rule, repo, dv):
    enc = repo.func(ENC)
    joins = [c for c in walk_no_nested(enc) if isinstance(c, ast.Call) and isinstance(c.func, ast.Attribute) and c.func.attr == "join"]
    if not joins:
        raise AnalysisError("encode: no join() found")
    for c in joins:
        if dv.fold_str(c.func.value) == "":
            continue  # concatenation: nothing is put between the parts (whether each part carries its own separator is C02's frame-shape clause)
        ok = dv.fold_str(c.func.value) == dv.soh
        ctx.instance(rule, f"Codec.encode[{short(c, 40)}]", ok, f"the encoder joins fields with `{unparse(c.func.value)}`, not with the separator the decoder splits on", loc(c))
    splits = [c for c in walk_no_nested(dv.fn) if isinstance(c, ast.Call) and isinstance(c.func, ast.Attribute) and c.func.attr == "split" and c.args
              and dv.fold_str(c.args[0]) != "="]
    for c in splits:
        ok = dv.fold_str(c.args[0]) == dv.soh and len(c.args) == 1 and not c.keywords
        ctx.instance(rule, f"Codec.decode[{short(c, 40)}]", ok, f"the decoder splits the frame with `{short(c)}`, not on the encoder's separator without a limit", loc(c))
    ctx.instance(rule, "Codec.__init__[SOH]", dv.soh == "\x01", f"the separator constant is {dv.soh!r}, not SOH", loc(repo.func("Codec.__init__")))
    decs = [c for c in walk_no_nested(dv.fn) if isinstance(c, ast.Call) and isinstance(c.func, ast.Attribute) and c.func.attr == "decode"
            and unparse(c.func.value).startswith(dv.buf)]
    if not decs:
        raise AnalysisError("decode: the bytes -> text decoding call was not found")
    for c in decs:
        codec = c.args[0].value if c.args and isinstance(c.args[0], ast.Constant) else None
        ok = isinstance(codec, str) and codec.lower() in TOTAL_CODECS and not c.keywords
        ctx.instance(rule, f"Codec.decode[bytes.decode({codec!r})]", ok,
                     f"bytes are decoded with {codec!r}: not a total one-byte-one-character codec, so offsets in the text are not offsets in the bytes", loc(c))
    ctx.floor(rule, 4)


# ------------------------------------------------------------------------------ rule 4
def encoder_skip_set(enc, fo):
    """The set of message tags for which the per-tag emitter is NOT called in the encoder's loop over the message's tags: read from
    the guards of that call (`if t in S: continue` in front of it, or `if t not in S:` around it).  None when not found."""
    skip = None
    eg = CFG(enc)
    for nd in eg.nodes:
        if nd.kind != "stmt" or nd.ast is None or not any(isinstance(c, ast.Call) and unparse(c.func).endswith("_addTag") for c in walk_no_nested(nd.ast)):
            continue
        for t_, lab in eg.guards(nd.id, exc=False):
            for cmp_ in ast.walk(t_):
                if isinstance(cmp_, ast.Compare) and len(cmp_.ops) == 1 and isinstance(cmp_.ops[0], (ast.In, ast.NotIn)):
                    coll = cmp_.comparators[0]
                    if isinstance(coll, ast.Call) and coll.args and unparse(coll.func) in ("frozenset", "set", "tuple"):
                        coll = coll.args[0]
                    if not isinstance(coll, (ast.Set, ast.Tuple, ast.List)):
                        continue
                    excluded_when_true = isinstance(cmp_.ops[0], ast.In)
                    if (excluded_when_true and lab == "false" and cmp_ is t_) or (not excluded_when_true and lab == "true" and cmp_ is t_):
                        skip = {fo.tag(e) for e in coll.elts}
    return skip


def emitted_fields(enc, fo):
    """`X.append('%s=%s' % (FTag.T, expr))` statements of the encoder: [(tag str, expr, call)]"""
    out = []
    for c in walk_no_nested(enc):
        if isinstance(c, ast.Call) and isinstance(c.func, ast.Attribute) and c.func.attr == "append" and len(c.args) == 1:
            a = c.args[0]
            if isinstance(a, ast.BinOp) and isinstance(a.op, ast.Mod) and isinstance(a.right, ast.Tuple) and len(a.right.elts) == 2 \
                    and isinstance(a.left, ast.Constant) and re.fullmatch(r"%s=%[\w.]+", str(a.left.value)):
                t = fo.tag(a.right.elts[0])
                if t is not None:
                    out.append((t, a.right.elts[1], c, unparse(c.func.value)))
    # the same fields written as elements of a list display `X = ['%s=%s' % (FTag.T, expr), ...]` (in display order)
    for st in walk_no_nested(enc):
        if isinstance(st, ast.Assign) and len(st.targets) == 1 and isinstance(st.targets[0], ast.Name) and isinstance(st.value, ast.List):
            for a in st.value.elts:
                if isinstance(a, ast.BinOp) and isinstance(a.op, ast.Mod) and isinstance(a.right, ast.Tuple) and len(a.right.elts) == 2 \
                        and isinstance(a.left, ast.Constant) and re.fullmatch(r"%s=%[\w.]+", str(a.left.value)):
                    t = fo.tag(a.right.elts[0])
                    if t is not None:
                        out.append((t, a.right.elts[1], a, st.targets[0].id))
    # an operand first put into a local that is assigned exactly once (`v = session.sender_comp_id` ... `'%s=%s' % (T, v)`) is that value
    from sa.guards import single_defs
    sd = single_defs(enc)
    out = [(t, (sd[e.id] if isinstance(e, ast.Name) and e.id in sd and not isinstance(sd[e.id], ast.Name) else e), c, l) for t, e, c, l in out]
    return out


def seq_rule(ctx, rule, repo, res, fo):
    enc = repo.func(ENC)
    g = CFG(enc)
    rd = reaching_defs(g, exc=False)
    em = [e for e in emitted_fields(enc, fo) if e[0] == "34"]
    if len(em) != 1:
        raise AnalysisError(f"encode: expected one emission of tag 34, found {len(em)}")
    _t, expr, call, _lst = em[0]
    if not isinstance(expr, ast.Name):
        raise AnalysisError("encode: the emitted 34= operand is not a local name")
    var = expr.id
    at = g.ids_of(call)[0]
    args = [a.arg for a in enc.args.args]
    raw = next((a for a in args if "raw" in a), None)
    if raw is None:
        raise AnalysisError("encode: raw_seq_num parameter not found")
    allocs = [c for c in walk_no_nested(enc) if isinstance(c, ast.Call) and res.resolve(c, enc) == ("func", "FIXSession.allocate_next_num_out")]
    # never two allocations for one frame: no allocation call is reachable from another one (several sites in exclusive branches are one choice)
    alloc_nodes = sorted({i for c in allocs for i in g.ids_of(c)})
    twice = [(a, b) for a in alloc_nodes for b in alloc_nodes if g.reaches(a, b, exc=False)]
    ctx.instance(rule, "Codec.encode[one allocation site]", bool(allocs) and not twice,
                 f"{len(allocs)} calls of allocate_next_num_out in the encoder" + (", one reachable from another: a frame can consume two numbers" if twice else ""), loc(enc))
    defs = rd[at].get(var, set())
    n_alloc = n_carry = 0
    for d in sorted(defs):
        node = g.nodes[d]
        v = node.ast.value
        fs = set()
        for t, lab in g.guards(d, exc=False):
            fs |= facts(t, lab == "true")
        is_raw = (raw, True) in fs
        not_raw = (raw, False) in fs
        seqreset_t = any(tv and re.fullmatch(r".+ == FMsg\.SEQUENCERESET", a) for a, tv in fs)
        seqreset_f = any((not tv) and re.fullmatch(r".+ == FMsg\.SEQUENCERESET", a) for a, tv in fs)
        poss_t = any(tv and "PossDupFlag" in a and re.search(r"== 'Y'$", a) for a, tv in fs)
        poss_f = any((not tv) and "PossDupFlag" in a and re.search(r"== 'Y'$", a) for a, tv in fs)
        txt = unparse(v)
        if any(c in list(ast.walk(v)) for c in allocs):
            n_alloc += 1
            ok = not_raw and seqreset_f and poss_f
            ctx.instance(rule, "Codec.encode[allocate only for fresh non-reset messages]", ok,
                         f"`{short(node.ast)}` allocates a new number on a path where raw_seq_num / SequenceReset / PossDupFlag=Y is not excluded: "
                         "a retransmission or SequenceReset gets a fresh number instead of the one it carries", loc(node.ast))
        elif re.search(r"msg\[FTag\.MsgSeqNum\]", txt):
            n_carry += 1
            ok = is_raw or seqreset_t or poss_t
            either = False
            if not ok:
                # `if <SequenceReset> or <PossDupFlag=Y> [or raw]:` - a disjunction of nothing but the admissible reasons
                for t, lab in g.guards(d, exc=False):
                    if lab == "true" and isinstance(t, ast.BoolOp) and isinstance(t.op, ast.Or):
                        def admissible(x):
                            u = unparse(x)
                            return u == raw or re.fullmatch(r".+ == FMsg\.SEQUENCERESET", u) or ("PossDupFlag" in u and re.search(r"== 'Y'$", u))
                        if all(admissible(x) for x in t.values):
                            ok = either = True
            ctx.instance(rule, f"Codec.encode[carry on {'raw' if is_raw else 'SequenceReset' if seqreset_t else 'PossDup' if poss_t else 'SequenceReset-or-PossDup' if either else '?'} path]", ok,
                         f"`{short(node.ast)}` re-uses the message's own number on a path that is none of raw_seq_num / SequenceReset / PossDupFlag=Y", loc(node.ast))
        else:
            ctx.instance(rule, f"Codec.encode[{short(node.ast, 40)} reaches 34=]", False,
                         f"`{short(node.ast)}` can reach the emitted 34= field: the sequence number is neither allocated nor the one the message carried", loc(node.ast))
    ctx.instance(rule, "Codec.encode[both sources present]", n_alloc >= 1 and n_carry >= 1, f"{n_alloc} allocating and {n_carry} carrying definitions reach 34=", loc(call))
    # allocator shape
    al = repo.func("FIXSession.allocate_next_num_out")
    ag = CFG(al)
    augs = [n for n in ag.nodes if n.kind == "stmt" and isinstance(n.ast, ast.AugAssign) and unparse(n.ast.target) == "self.next_num_out"]
    rets = [n for n in ag.nodes if n.kind == "stmt" and isinstance(n.ast, ast.Return)]
    ok = len(augs) == 1 and isinstance(augs[0].ast.op, ast.Add) and isinstance(augs[0].ast.value, ast.Constant) and augs[0].ast.value.value == 1 and len(rets) == 1
    if ok:
        rv = rets[0].ast.value
        ok = False
        if isinstance(rv, ast.Name):
            dn = [n for n in ag.nodes if n.kind == "stmt" and isinstance(n.ast, ast.Assign) and unparse(n.ast.targets[0]) == rv.id]
            dom = ag.dominators(exc=False)
            ok = len(dn) == 1 and "self.next_num_out" in unparse(dn[0].ast.value) and dn[0].id in dom.get(augs[0].id, ()) \
                and not re.search(r"next_num_out\s*[-+*]", unparse(dn[0].ast.value))
    ctx.instance(rule, "FIXSession.allocate_next_num_out[pre-increment value, +1]", ok,
                 "the allocator does not return the value read before its single `+= 1`", loc(al))


# ------------------------------------------------------------------------------ rule 5
def header_rule(ctx, rule, repo, res, fo):
    enc = repo.func(ENC)
    em = emitted_fields(enc, fo)
    by_tag = {}
    for t, e, c, lst in em:
        by_tag.setdefault(t, []).append((e, c, lst))
    want = {"49": "session.sender_comp_id", "56": "session.target_comp_id"}
    for t, w in want.items():
        got = [unparse(e) for e, _c, _l in by_tag.get(t, [])]
        ctx.instance(rule, f"Codec.encode[{t}=]", got == [w], f"tag {t} is emitted from {got}, expected exactly [{w}]", loc(enc))
    # mirror image in validate_comp_ids
    val = repo.func("FIXSession.validate_comp_ids")
    params = [a.arg for a in val.args.args][1:]
    cmp_map = {}
    for n in walk_no_nested(val):
        if isinstance(n, ast.Compare) and len(n.ops) == 1 and isinstance(n.ops[0], ast.Eq):
            l, r = unparse(n.left), unparse(n.comparators[0])
            for a, b in ((l, r), (r, l)):
                if a.startswith("self.") and b in params:
                    cmp_map[a[5:]] = b
    sites = res.call_sites("FIXSession.validate_comp_ids")
    n_sites = 0
    for q, call in sites:
        if q.startswith("FIXTester") or "fix_tester" in getattr(call, "_module").rel:
            continue
        n_sites += 1
        argmap = {}
        for i, a in enumerate(call.args):
            if i < len(params):
                argmap[params[i]] = a
        for k in call.keywords:
            argmap[k.arg] = k.value
        tag_of = {}
        for p, a in argmap.items():
            m = re.fullmatch(r"\w+\[(.+)\]", unparse(a))
            tag_of[p] = fo.tag(ast.parse(m.group(1), mode="eval").body) if m else None
        ok = tag_of.get(cmp_map.get("sender_comp_id")) == "56" and tag_of.get(cmp_map.get("target_comp_id")) == "49"
        ctx.instance(rule, f"{q}[validate_comp_ids mirror]", ok,
                     "the inbound CompID validation is not the mirror image of the encoder (our sender must equal their 56, our target their 49): "
                     f"compares {cmp_map} with tags {tag_of}", loc(call))
    if n_sites == 0:
        raise AnalysisError("no call site of validate_comp_ids found")
    # skipped set == tags emitted in the body prefix
    skip = encoder_skip_set(enc, fo)
    body_list = None
    for t, e, c, lst in em:
        if t == "34":
            body_list = lst
    emitted_body = {t for t, e, c, lst in em if lst == body_list}
    ctx.instance(rule, "Codec.encode[skip set == emitted body prefix]", skip is not None and skip == emitted_body,
                 f"the encoder skips message tags {sorted(skip or [])} but emits {sorted(emitted_body)} itself: a tag is written twice or silently dropped", loc(enc))
    # header: 8, 9, 35 each emitted once in this order into the header list
    from sa.core import positions
    _pos = positions(enc)
    hdr = [(t, _pos.get(id(c), c.lineno)) for t, e, c, lst in em if lst != body_list]
    hdr_tags = [t for t, _ in sorted(hdr, key=lambda x: x[1])]
    ctx.instance(rule, "Codec.encode[header 8,9]", hdr_tags[:2] == ["8", "9"], f"header fields are emitted as {hdr_tags}", loc(enc))


# ------------------------------------------------------------------------------ rule 6
def group_table(repo, fo):
    for cname, c in repo.classes.items():
        for st in c.body:
            if isinstance(st, ast.Assign) and len(st.targets) == 1 and unparse(st.targets[0]) == "repeating_groups" and isinstance(st.value, ast.Dict) and st.value.keys:
                return cname, st, fo.fold(st.value)
    raise AnalysisError("no class-level repeating_groups table found")


def tagval(v):
    if isinstance(v, EnumVal):
        return str(v.value) if v.cls == "FTag" else None
    if isinstance(v, (str, int)) and not isinstance(v, bool):
        return str(v)
    return None


def table_rule(ctx, rule, repo, fo):
    cname, st, tab = group_table(repo, fo)
    rows = {}
    for k, members in tab.items():
        if isinstance(k, tuple) and k and k[0] == "DUP":
            ctx.instance(rule, f"{cname}.repeating_groups[duplicate key {k[1]}]", False, f"group key {k[1]} appears twice: the later row silently replaces the earlier", loc(st))
            continue
        kt = tagval(k)
        if kt is None or not isinstance(members, list):
            ctx.instance(rule, f"{cname}.repeating_groups[{k}]", False, f"row {k} does not fold to FTag members", loc(st))
            continue
        ms = [tagval(m) for m in members]
        ok = all(m is not None for m in ms) and len(set(ms)) == len(ms) and len(ms) > 0 and kt not in ms
        ctx.instance(rule, f"{cname}.repeating_groups[{k}]", ok,
                     f"row {k}: members {members} are not a non-empty duplicate-free list of tags (or the group lists its own count tag)", loc(st), evals=len(ms))
        rows[kt] = ms
    names = {tagval(k): repr(k) for k in tab if not isinstance(k, tuple)}
    # nesting edges, cycles, chain disjointness
    children = {k: [m for m in ms if m in rows] for k, ms in rows.items()}

    def chains(k, seen):
        out = [[k]]
        for c in children[k]:
            if c in seen:
                out.append([k, c, "CYCLE"])
                continue
            for ch in chains(c, seen | {c}):
                out.append([k] + ch)
        return out

    edges = 0
    for k in rows:
        for ch in chains(k, {k}):
            if ch[-1] == "CYCLE":
                ctx.instance(rule, f"{cname}.repeating_groups[cycle {names.get(k)}]", False, f"group nesting cycle through {ch[:-1]}", loc(st))
                continue
            if len(ch) < 2:
                continue
            edges += 1
            top, bottom = ch[0], ch[-1]
            # every ancestor/descendant pair along the chain must have disjoint member sets
            overlap = set(rows[top]) & set(rows[bottom])
            ctx.instance(rule, f"{cname}.repeating_groups[{names.get(top)} > {names.get(bottom)}]", not overlap,
                         f"nested group {names.get(bottom)} shares member tag(s) {sorted(overlap)} with its ancestor {names.get(top)}: the parser's "
                         "'pop until a context lists this tag' rule attaches the ancestor's field to the nested item", loc(st))
    # a nested group must be reachable: a key that is listed as member of another group opens inside it - nothing to check;
    # framing tags never take part in groups (flush relies on CheckSum closing every open context)
    framing = {"8", "9", "10", "35", "34", "49", "56", "52"}
    used = set(rows) | {m for ms in rows.values() for m in ms}
    ctx.instance(rule, f"{cname}.repeating_groups[no framing tag]", not (framing & used),
                 f"framing/header tag(s) {sorted(framing & used)} occur in the group table: open group contexts are no longer closed by the trailer "
                 "or header fields are swallowed into a group", loc(st))
    # FTag compares and hashes by value (str tags from the wire must hit enum keys)
    eq = repo.functions.get("FTag.__eq__")
    hs = repo.functions.get("FTag.__hash__")
    ok = eq is not None and hs is not None and "self.value" in unparse(eq) and "str(" in unparse(eq) and "hash(self.value)" in unparse(hs)
    ctx.instance(rule, "FTag[__eq__/__hash__ by value]", ok, "FTag no longer compares/hashes by its string value: wire tags (str) miss the enum-keyed group table", loc(eq or st))
    # enum plumbing the codec relies on: tag / message-type members are distinct decimal / short strings (a duplicate value silently aliases two members)
    for cls, pat in (("FTag", r"[0-9]+"), ("FMsg", r"[A-Za-z0-9]{1,2}")):
        mem = fo.enum_members(cls)
        vals = list(mem.values())
        dup = sorted({v for v in vals if vals.count(v) > 1})
        bad = sorted(k for k, v in mem.items() if not (isinstance(v, str) and re.fullmatch(pat, v)))
        ctx.instance(rule, f"{cls}[distinct well-formed values]", not dup and not bad and len(mem) > 50,
                     f"{cls} has duplicate values {dup[:5]} / malformed values for {bad[:5]}: two tags alias or a tag cannot be put on the wire", loc(repo.cls(cls)), evals=len(mem))
    for name, want in (("BeginString", "8"), ("BodyLength", "9"), ("MsgType", "35"), ("CheckSum", "10"), ("MsgSeqNum", "34"), ("SenderCompID", "49"),
                       ("TargetCompID", "56"), ("SendingTime", "52"), ("PossDupFlag", "43"), ("OrigSendingTime", "122"), ("GapFillFlag", "123"), ("NewSeqNo", "36")):
        ctx.instance(rule, f"FTag.{name} == {want}", fo.enum_members("FTag").get(name) == want,
                     f"FTag.{name} is {fo.enum_members('FTag').get(name)!r}, the FIX tag number is {want}: frames are built / parsed with the wrong framing tag", loc(repo.cls("FTag")))
    # value -> member conversion used by the decoder is the enum's exact lookup: no `_missing_` hook, no metaclass call override
    for cls in ("FMsg", "FTag"):
        c = repo.cls(cls)
        hooks = [n.name for n in c.body if isinstance(n, (ast.FunctionDef, ast.AsyncFunctionDef)) and n.name in ("_missing_", "__new__", "_generate_next_value_")]
        meta = next((unparse(k.value) for k in c.keywords if k.arg == "metaclass"), None)
        if meta and meta in repo.classes:
            hooks += [f"{meta}.{n.name}" for n in repo.classes[meta].body if isinstance(n, ast.FunctionDef) and n.name in ("__call__", "__getitem__", "__new__")]
        ctx.instance(rule, f"{cls}[exact value lookup]", not hooks,
                     f"{cls} customises the value -> member lookup ({hooks}): the decoder's {cls}(value) no longer maps exactly the FIX value to its member, so e.g. a custom "
                     "message type that differs from a standard one only by case is decoded as the standard type", loc(c))
    fm = fo.enum_members("FMsg")
    want = {"HEARTBEAT": "0", "TESTREQUEST": "1", "RESENDREQUEST": "2", "REJECT": "3", "SEQUENCERESET": "4", "LOGOUT": "5", "LOGON": "A",
            "EXECUTIONREPORT": "8", "ORDERCANCELREJECT": "9", "NEWORDERSINGLE": "D", "ORDERCANCELREQUEST": "F", "ORDERCANCELREPLACEREQUEST": "G"}
    wrong = {k: (fm.get(k), v) for k, v in want.items() if fm.get(k) != v}
    ctx.instance(rule, "FMsg[FIX 4.4 wire values of the types the library acts on]", not wrong, f"FMsg members carry the wrong MsgType characters: {wrong}", loc(repo.cls("FMsg")))
    ctx.extra["group_table"] = {"rows": len(rows), "nesting_chains": edges}
    if len(rows) < 20:
        raise AnalysisError(f"group table folded to only {len(rows)} rows")


# ------------------------------------------------------------------------------ rule 7
def addtag_rule(ctx, rule, repo, res):
    fn = repo.func(ADD)
    args = [a.arg for a in fn.args.args]
    if len(args) != 4:
        raise AnalysisError("_addTag signature changed")
    _self, body, t, msg = args
    ifs = [n for n in fn.body if isinstance(n, ast.If)]
    if len(ifs) == 1 and re.fullmatch(rf"not {msg}\.is_group\({t}\)", unparse(ifs[0].test)):
        # the dispatch written as a guard clause (`if not group: <plain>; return` followed by the group arm) or with the arms
        # swapped: read as `if group: <group arm> else: <plain arm>`
        from sa.normalize import _void_returns
        from sa.guards import _detach
        nested = _void_returns(_detach(fn))
        if nested is not None:
            n_ifs = [n for n in nested.body if isinstance(n, ast.If)]
            if len(n_ifs) == 1 and isinstance(n_ifs[0].test, ast.UnaryOp):
                g_if = n_ifs[0]
                swapped = ast.If(g_if.test.operand, [x for x in g_if.orelse if not isinstance(x, ast.Pass)], [x for x in g_if.body if not isinstance(x, ast.Pass)])
                ast.copy_location(swapped, ifs[0])
                ast.fix_missing_locations(swapped)
                mod_ = getattr(fn, "_module", None)
                for parent_ in ast.walk(swapped):
                    for child_ in ast.iter_child_nodes(parent_):
                        child_._parent = parent_
                    parent_._module = mod_
                swapped._parent = fn
                ifs = [swapped]
    if len(ifs) != 1 or not re.fullmatch(rf"{msg}\.is_group\({t}\)", unparse(ifs[0].test)):
        raise AnalysisError("_addTag: the is_group dispatch was not found")
    br = ifs[0]
    # group branch
    glist = None
    for s in br.body:
        if isinstance(s, ast.Assign) and isinstance(s.value, ast.Call) and unparse(s.value.func) == f"{msg}.get_group_list":
            glist = unparse(s.targets[0])
    loops = [s for s in br.body if isinstance(s, ast.For)]
    count_ok = order_ok = rec_ok = False
    if glist and len(loops) == 1:
        lp = loops[0]
        idx_loop = br.body.index(lp)
        for s in br.body[:idx_loop]:
            if isinstance(s, ast.Expr) and isinstance(s.value, ast.Call) and unparse(s.value.func) == f"{body}.append":
                a = s.value.args[0]
                if isinstance(a, ast.BinOp) and isinstance(a.right, ast.Tuple) and len(a.right.elts) == 2 and unparse(a.right.elts[0]) == t \
                        and unparse(a.right.elts[1]) == f"len({glist})" and isinstance(a.left, ast.Constant) and a.left.value == "%s=%s":
                    count_ok = True
        gi = unparse(lp.target)
        inner = [s for s in lp.body if isinstance(s, ast.For)]
        if unparse(lp.iter) == glist and len(inner) == 1 and len(lp.body) == 1:
            il = inner[0]
            ti = unparse(il.target)
            order_ok = unparse(il.iter) == f"{gi}.tags"
            if len(il.body) == 1 and isinstance(il.body[0], ast.Expr) and isinstance(il.body[0].value, ast.Call):
                c = il.body[0].value
                rec_ok = res.resolve(c, fn) == ("func", ADD) and [unparse(a) for a in c.args] == [body, ti, gi]
    ctx.instance(rule, "_addTag[count = len(items)]", count_ok, "the group count field is not `tag=len(items)` emitted before the items", loc(br))
    ctx.instance(rule, "_addTag[items and tags in container order]", order_ok,
                 "the items / their tags are not iterated directly in container order (sorted/reversed/filtered): item or field order changes on the wire", loc(br))
    ctx.instance(rule, "_addTag[recursion into the item]", rec_ok, "the item's tags are not serialised by the recursive call _addTag(body, tag, item): nested groups are lost", loc(br))
    # plain branch
    plain_ok = False
    if len(br.orelse) == 1 and isinstance(br.orelse[0], ast.Expr) and isinstance(br.orelse[0].value, ast.Call):
        a = br.orelse[0].value.args[0] if br.orelse[0].value.args else None
        if isinstance(a, ast.BinOp) and isinstance(a.right, ast.Tuple) and [unparse(e) for e in a.right.elts] == [t, f"{msg}[{t}]"] \
                and isinstance(a.left, ast.Constant) and a.left.value == "%s=%s":
            plain_ok = True
    ctx.instance(rule, "_addTag[plain field tag=value]", plain_ok, "a plain field is not emitted as `tag=value` from the container", loc(br))
    # encode: iterates msg.tags in order and calls _addTag for everything not skipped
    enc = repo.func(ENC)
    loops = [n for n in walk_no_nested(enc) if isinstance(n, ast.For) and re.fullmatch(r"\w+\.tags", unparse(n.iter))]
    ok = len(loops) == 1 and any(isinstance(c, ast.Call) and res.resolve(c, enc) == ("func", ADD) for c in walk_no_nested(loops[0]))
    ctx.instance(rule, "Codec.encode[body loop over msg.tags]", ok, "the encoder does not serialise the message's tags in container order through _addTag", loc(enc))
