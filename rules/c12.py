"""C12 - heartbeat watchdog: the reply / single-outstanding / mismatch clauses and threshold sanity.

The timing bounds of the property ("never disconnects a responsive peer", "always disconnects a
dead one within ~3 intervals" for every arrival pattern and tick phase) are timed-trace
behaviour and are NOT decided here; see DESIGN.  Decided: the structural clauses.
"""
from __future__ import annotations

import ast

from sa import absint
from sa.cfg import CFG
from sa.core import AnalysisError, loc, short, unparse, walk_no_nested
from sa.fold import Folder
from sa.guards import facts, unprotected_path, fact_edges
from sa.resolve import Resolver

EXCLUDED = {"asyncfix/fix_tester.py"}
DOWN = ("UNKNOWN", "DISCONNECTED_NOCONN_TODAY", "DISCONNECTED_WCONN_TODAY", "DISCONNECTED_BROKEN_CONN")


def wit(e):
    return [f"witness: {absint.fmt(e.s)}"] + list(e.trail)


def run(ctx):
    repo = ctx.repo
    res = Resolver(repo)
    fo = Folder(repo)
    R1, R2, R3, R4, R5 = ("C12.testrequest-answered", "C12.single-outstanding", "C12.mismatch-ends-session", "C12.threshold-forms",
                          "C12.liveness-bookkeeping")
    ctx.rule(R1, "every inbound TestRequest at or above the expected number on an established session reaches a Heartbeat send whose TestReqID operand is read from the request")
    ctx.rule(R2, "TestRequests are built only in send_test_req, behind an `outstanding is None` guard with no await before the assignment; send_msg refuses others; "
                 "the outstanding id is cleared only on a matching Heartbeat or in disconnect")
    ctx.rule(R3, "a Heartbeat echoing a wrong TestReqID ends the session with a Logout; a matching one clears the outstanding id; one comparison selects the branch")
    ctx.rule(R4, "the three timer comparisons fold to linear forms in the heartbeat period P: TestRequest after at most P, cut-offs strictly later, dead peer cut within 3P")
    ctx.rule(R5, "every accepted inbound message refreshes the last-message time; the watchdog acts only on an ACTIVE session and sends a TestRequest only when none is outstanding")
    ctx.assumptions += ["timing behaviour (wall clock, sleep granularity, tick phase) is not decided", "E9 base mode for hooks"]

    it, outs = absint.inbound(repo, sink_raises=False)
    ctx.evaluations += it.steps
    ctx.extra["e9"] = {"steps": it.steps, "events": len(it.events), "nondeterministic_conditions": sorted(it.unknown_conds)[:40]}

    # ---- rule 1
    for st in ("ACTIVE", "RESENDREQ_AWAITING"):
        for o in ("EQ", "GT"):
            evs = [e for e in it.events if e.site == "encode" and e.info[1] == "HEARTBEAT" and e.s.state0 in (st, "?") and e.s.kind in ("TESTREQ", "?")
                   and e.s.ord in (o, "?") and e.s.integ in ("ok", "?")]
            ctx.instance(R1, f"heartbeat reply[{st},TESTREQ,{o}]", bool(evs),
                         f"an inbound TestRequest numbered {o} the expected number in state {st} does not reach a Heartbeat send", loc(repo.func("AsyncFIXConnection._process_message")))
    tr = repo.func("AsyncFIXConnection._process_testrequest")
    param = tr.args.args[1].arg
    ctors = [c for c in walk_no_nested(tr) if isinstance(c, ast.Call) and unparse(c.func) == "FIXMessage" and c.args and unparse(c.args[0]) == "FMsg.HEARTBEAT"]
    ok = False
    what = "no Heartbeat is constructed in _process_testrequest"
    if len(ctors) == 1 and len(ctors[0].args) > 1 and isinstance(ctors[0].args[1], ast.Dict):
        for k, v in zip(ctors[0].args[1].keys, ctors[0].args[1].values):
            if fo.tag(k) == "112":
                t = unparse(v)
                ok = t.startswith(f"{param}.get(FTag.TestReqID") or t == f"{param}[FTag.TestReqID]"
                what = f"the Heartbeat's TestReqID is `{short(v)}`, not the TestReqID of the request being answered"
    ctx.instance(R1, "_process_testrequest[TestReqID echoed]", ok, what, loc(tr))
    g = CFG(tr)
    sends = [n.id for n in g.nodes if n.kind == "stmt" and "self.send_msg(" in unparse(n.ast)]
    leak = g.witness_path(g.entry, [g.exit], avoid=set(sends), exc=False)
    ctx.instance(R1, "_process_testrequest[send on every path]", bool(sends) and leak is None, "a normal path through _process_testrequest sends no Heartbeat", loc(tr))

    # ---- rule 2
    sites = []
    for q, f in repo.functions.items():
        if getattr(f, "_module").rel in EXCLUDED:
            continue
        for c in walk_no_nested(f):
            if isinstance(c, ast.Call) and unparse(c.func) == "FIXMessage" and c.args and unparse(c.args[0]) == "FMsg.TESTREQUEST":
                sites.append((q, c))
    ctx.instance(R2, "TestRequest construction sites", [q for q, _ in sites] == ["AsyncFIXConnection.send_test_req"],
                 f"TestRequest messages are built in {[q for q, _ in sites]}: only send_test_req tracks the outstanding id", loc(sites[0][1]) if sites else "")
    st = repo.func("AsyncFIXConnection.send_test_req")
    sg = CFG(st)
    assigns = [n for n in sg.nodes if n.kind == "stmt" and isinstance(n.ast, ast.Assign) and unparse(n.ast.targets[0]) == "self._test_req_id"]
    if len(assigns) != 1:
        raise AnalysisError("send_test_req: the assignment of the outstanding id was not found")
    a = assigns[0]
    guard_edges = fact_edges(sg, {("self._test_req_id is None", True), ("self._test_req_id is not None", False)})
    w = unprotected_path(sg, a.id, [], guard_edges, exc=False)
    ctx.instance(R2, "send_test_req[guarded by 'none outstanding']", w is None,
                 "send_test_req sets a new outstanding id without the `_test_req_id is None` guard: a second TestRequest replaces the first", loc(a.ast))
    # no suspension between the guard and the assignment
    susp = [n.id for n in sg.nodes if n.kind in ("stmt", "test") and n.ast is not None and res.node_suspends(n.ast, st)]
    tests = {n for n, lab in guard_edges}
    bad = [s for s in susp if any(sg.reaches(t, s, exc=False) for t in tests) and sg.reaches(s, a.id, exc=False)]
    ctx.instance(R2, "send_test_req[no await between guard and assignment]", not bad,
                 "an await lies between the 'none outstanding' test and the assignment: two tasks can both pass the test and two TestRequests are outstanding",
                 loc(sg.nodes[bad[0]].ast) if bad else loc(st))
    # the id sent is the id recorded
    c = sites[0][1] if sites else None
    ok = False
    if c is not None and len(c.args) > 1 and isinstance(c.args[1], ast.Dict):
        for k, v in zip(c.args[1].keys, c.args[1].values):
            if fo.tag(k) == "112":
                ok = unparse(v) == "self._test_req_id"
    ctx.instance(R2, "send_test_req[sent id == recorded id]", ok, "the TestReqID put on the wire is not the recorded outstanding id", loc(c) if c is not None else "")
    # send_msg refuses a TestRequest built elsewhere
    ito, _ = absint.outbound(repo)
    enc = [e for e in ito.events if e.site == "encode" and e.s.okind == "TESTREQ" and e.s.treq is False]
    ctx.instance(R2, "send_msg[TestRequest only with a recorded id]", not enc,
                 "send_msg encodes a TestRequest although no outstanding id is recorded (built outside send_test_req)", loc(enc[0].node) if enc else "", wit(enc[0]) if enc else [])
    # writers of the outstanding id
    writers = res.writers_of("_test_req_id")
    allowed = {"AsyncFIXConnection.__init__", "AsyncFIXConnection.send_test_req", "AsyncFIXConnection._process_heartbeat", "AsyncFIXConnection.disconnect"}
    for q, nodes in sorted(writers.items()):
        if getattr(nodes[0], "_module").rel in EXCLUDED:
            continue
        ctx.instance(R2, f"writer[{q}]", q in allowed, f"{q} writes the outstanding TestReqID", loc(nodes[0]))
    hb = repo.func("AsyncFIXConnection._process_heartbeat")
    hg = CFG(hb)
    # the local that holds the Heartbeat's parsed TestReqID
    echo = next((unparse(n.targets[0]) for n in walk_no_nested(hb) if isinstance(n, ast.Assign) and isinstance(n.targets[0], ast.Name)
                 and "FTag.TestReqID" in unparse(n.value) and "int(" in unparse(n.value)), None)
    if echo is None:
        raise AnalysisError("_process_heartbeat: the parsed TestReqID local was not found")
    for n in hg.nodes:
        if n.kind == "stmt" and isinstance(n.ast, ast.Assign) and unparse(n.ast.targets[0]) == "self._test_req_id":
            fs = set()
            for t, lab in hg.guards(n.id, exc=False):
                fs |= facts(t, lab == "true")
            ok = any(tv and a in (f"self._test_req_id == {echo}", f"{echo} == self._test_req_id") for a, tv in fs) and unparse(n.ast.value) == "None"
            ctx.instance(R2, "_process_heartbeat[cleared only on a matching id]", ok,
                         "the outstanding id is cleared without the equality test against the Heartbeat's TestReqID: any Heartbeat silences the watchdog", loc(n.ast))

    # ---- rule 3 (E9)
    def evs_for(hbt):
        return [e for e in it.events if e.s.kind == "HEARTBEAT" and e.s.hbt == hbt and e.s.state0 == "ACTIVE" and e.s.ord == "EQ" and e.s.integ == "ok"]
    mism = evs_for("mismatch")
    treq_true = [e for e in mism if e.site == "encode" and e.info[1] == "LOGOUT"]
    ctx.instance(R3, "Heartbeat[wrong TestReqID => Logout]", bool(treq_true),
                 "a Heartbeat echoing a wrong TestReqID while a TestRequest is outstanding does not lead to a Logout", loc(hb))
    finals = [o for o in outs if o[1].kind == "HEARTBEAT" and o[1].hbt == "mismatch" and o[1].state0 == "ACTIVE" and o[1].ord == "EQ" and o[1].integ == "ok"
              and o[0] == "return" and any(f"_test_req_id != {echo}: true" in t or f"_test_req_id == {echo}: false" in t
                                           or f"{echo} != self._test_req_id: true" in t or f"{echo} == self._test_req_id: false" in t for t in o[3])]
    ok = bool(finals) and all(o[1].state in DOWN for o in finals)
    ctx.instance(R3, "Heartbeat[wrong TestReqID => disconnected]", ok, "after a Heartbeat with a wrong TestReqID the session is not disconnected", loc(hb))
    match = [e for e in evs_for("match") if e.site == "treq_write" and e.info[1] == "clear" and e.info[0].endswith("_process_heartbeat")]
    ctx.instance(R3, "Heartbeat[matching TestReqID clears the outstanding id]", bool(match), "a matching Heartbeat does not clear the outstanding id", loc(hb))
    # the echo is honoured when it arrives - also ahead of a gap (Heartbeats are never retransmitted, only gap-filled) and while a resend is awaited
    for st0, o in (("ACTIVE", "GT"), ("RESENDREQ_AWAITING", "GT"), ("RESENDREQ_AWAITING", "EQ")):
        got = [e for e in it.events if e.s.kind == "HEARTBEAT" and e.s.hbt == "match" and e.s.state0 == st0 and e.s.ord == o and e.s.integ == "ok"
               and e.site == "treq_write" and e.info[1] == "clear" and e.info[0].endswith("_process_heartbeat")]
        ctx.instance(R3, f"Heartbeat[matching TestReqID honoured in {st0} at {o}]", bool(got),
                     f"a Heartbeat echoing the outstanding TestReqID that arrives in state {st0} numbered {o} the expected number does not clear the outstanding id: "
                     "Heartbeats are never retransmitted, so the answering peer is cut by the TestRequest time-out", loc(hb))
    absent = [e for e in evs_for("absent") if e.site in ("treq_write",) or (e.site == "encode" and e.info[1] == "LOGOUT")]
    ctx.instance(R3, "Heartbeat[no TestReqID => ignored by the watchdog]", not absent,
                 "an interval Heartbeat without TestReqID clears the outstanding id or ends the session", loc(hb), wit(absent[0]) if absent else [])
    # mismatch branch passes a reason
    for c in walk_no_nested(hb):
        if isinstance(c, ast.Call) and unparse(c.func) == "self.disconnect":
            lm = next((k.value for k in c.keywords if k.arg == "logout_message"), c.args[1] if len(c.args) > 1 else None)
            ok = lm is not None and not (isinstance(lm, ast.Constant) and lm.value is None)
            ctx.instance(R3, "_process_heartbeat[disconnect with a Logout text]", ok, "the mismatch branch disconnects without a Logout message", loc(c))

    # ---- rule 4 thresholds
    hbt = repo.func("AsyncFIXConnection.heartbeat_timer_task")
    forms = {}
    for n in walk_no_nested(hbt):
        if isinstance(n, ast.Compare) and len(n.ops) == 1 and isinstance(n.ops[0], (ast.Gt, ast.GtE)) and isinstance(n.left, ast.BinOp) and isinstance(n.left.op, ast.Sub):
            since = unparse(n.left.right)
            lf = linear(n.comparators[0])
            if lf is None:
                ctx.instance(R4, f"threshold[{since}]", False, f"`{short(n)}`: the threshold does not fold to a linear form in the heartbeat period", loc(n))
                continue
            forms.setdefault(since, []).append((lf, n))
    last = forms.get("self._message_last_time", [])
    treq = forms.get("self._test_req_id", [])
    if len(last) != 2 or len(treq) != 1:
        raise AnalysisError(f"heartbeat_timer_task: expected 2 silence comparisons and 1 TestRequest timeout, found {len(last)} / {len(treq)}")
    last.sort(key=lambda x: (x[0][0], x[0][1]))
    (t_req, n1), (t_cut, n2) = last
    (t_to, n3) = treq[0]
    ctx.instance(R4, "TestRequest threshold <= P", t_req[0] <= 1 and (t_req[0] < 1 or t_req[1] <= 0) and t_req[0] > 0,
                 f"the TestRequest is sent after {fmt_lin(t_req)} of silence: later than one heartbeat interval (or never)", loc(n1),
                 sample={"rule": R4, "testrequest_after": fmt_lin(t_req), "silence_cutoff": fmt_lin(t_cut), "testrequest_timeout": fmt_lin(t_to)})
    for name, cut, nn in (("silence cut-off", t_cut, n2), ("TestRequest time-out", t_to, n3)):
        later = cut[0] - t_req[0] >= 0 and (cut[0] - t_req[0]) + (cut[1] - t_req[1]) > 0
        ctx.instance(R4, f"{name} later than the TestRequest threshold", later,
                     f"the {name} {fmt_lin(cut)} is not strictly later than the TestRequest threshold {fmt_lin(t_req)} for every P >= 1: a responsive peer is cut before it is probed", loc(nn))
        ctx.instance(R4, f"{name} >= one interval", cut[0] >= 1 and cut[0] + cut[1] >= 1,
                     f"the {name} {fmt_lin(cut)} is shorter than one heartbeat interval: a peer sending at the agreed rate is disconnected", loc(nn))
    # the property lets a live peer answer up to two intervals late: neither cut-off may fire before 2P
    for name, cut, nn in (("silence cut-off", t_cut, n2), ("TestRequest time-out", t_to, n3)):
        ctx.instance(R4, f"{name} >= 2P", cut[0] >= 2 and (cut[0] - 2) + cut[1] >= 0,
                     f"the {name} {fmt_lin(cut)} is shorter than two heartbeat intervals: a live peer whose Heartbeat echo arrives between one and two intervals "
                     "after the TestRequest is disconnected before its answer lands", loc(nn))
    total = (t_req[0] + t_to[0], t_req[1] + t_to[1])
    ctx.instance(R4, "dead peer cut within 3P", total[0] <= 3 and (total[0] < 3 or total[1] <= 0),
                 f"a silent peer is disconnected after {fmt_lin(total)} at the earliest: more than three heartbeat intervals", loc(n3))

    # the outstanding id doubles as the send time of the TestRequest: it must be on the watchdog's clock (seconds of time.time(), unscaled)
    tval = unparse(a.ast.value)
    clock = {unparse(c.left.left) for c in walk_no_nested(hbt) if isinstance(c, ast.Compare) and isinstance(c.left, ast.BinOp) and isinstance(c.left.op, ast.Sub)
             and unparse(c.left.right) == "self._test_req_id"}
    tm_defs = sorted({unparse(n.value) for n in walk_no_nested(hbt) if isinstance(n, ast.Assign) and isinstance(n.targets[0], ast.Name) and n.targets[0].id in clock})
    ctx.instance(R4, "send_test_req[outstanding id = int(time.time())]", tval in ("int(time.time())", "time.time()") and tm_defs == ["time.time()"],
                 f"the outstanding TestReqID is `{tval}` while the watchdog subtracts it from `{tm_defs}` and compares with multiples of the heartbeat period in seconds: "
                 "with another unit the TestRequest time-out never (or at once) expires", loc(a.ast))

    # ---- rule 5 bookkeeping
    fin = repo.func("AsyncFIXConnection._finalize_message")
    fg = CFG(fin)
    upd = [n.id for n in fg.nodes if n.kind == "stmt" and isinstance(n.ast, ast.Assign) and unparse(n.ast.targets[0]) == "self._message_last_time"
           and unparse(n.ast.value) == "time.time()"]
    rej = set()
    for n in fg.nodes:
        if n.kind == "test":
            for lab in ("true", "false"):
                if any(tv and a.endswith("<= 0") for a, tv in facts(n.ast, lab == "true")):
                    rej.add((n.id, lab))
    from rules.c03 import path_avoiding
    leak = path_avoiding(fg, fg.entry, fg.exit, set(upd), rej)
    ctx.instance(R5, "_finalize_message[accepted message refreshes the last-message time]", bool(upd) and leak is None,
                 "an accepted inbound message does not refresh _message_last_time: a peer that keeps sending valid traffic is cut by the silence watchdog", loc(fin))
    hg2 = CFG(hbt)
    probes = [n for n in hg2.nodes if n.kind == "stmt" and "self.send_test_req()" in unparse(n.ast)]
    for n in probes:
        fs = set()
        for t, lab in hg2.guards(n.id, exc=False):
            fs |= facts(t, lab == "true")
        ok = ("self._connection_state == ConnectionState.ACTIVE", True) in fs and (("self._test_req_id", False) in fs or ("self._test_req_id is None", True) in fs)
        ctx.instance(R5, "heartbeat_timer_task[probe only when ACTIVE and none outstanding]", ok,
                     "the watchdog sends a TestRequest outside ACTIVE or while one is outstanding (send_test_req then raises and the timer iteration is lost)", loc(n.ast))
    if not probes:
        raise AnalysisError("heartbeat_timer_task: the TestRequest probe was not found")
    # both cut-offs disconnect as a broken connection
    cuts = [n for n in hg2.nodes if n.kind == "stmt" and "self.disconnect(" in unparse(n.ast)]
    ctx.instance(R5, "heartbeat_timer_task[two cut-offs disconnect]", len(cuts) >= 2 and all("DISCONNECTED_BROKEN_CONN" in unparse(n.ast) for n in cuts),
                 f"{len(cuts)} watchdog disconnect site(s) found", loc(hbt))


def linear(e):
    """Fold a threshold expression into (a, b) meaning a*P + b, P = self._heartbeat_period."""
    if isinstance(e, ast.Constant) and isinstance(e.value, (int, float)):
        return (0.0, float(e.value))
    if unparse(e) in ("self._heartbeat_period", "self.heartbeat_period"):
        return (1.0, 0.0)
    if isinstance(e, ast.BinOp):
        l, r = linear(e.left), linear(e.right)
        if l is None or r is None:
            return None
        if isinstance(e.op, ast.Add):
            return (l[0] + r[0], l[1] + r[1])
        if isinstance(e.op, ast.Sub):
            return (l[0] - r[0], l[1] - r[1])
        if isinstance(e.op, ast.Mult):
            if l[0] == 0:
                return (l[1] * r[0], l[1] * r[1])
            if r[0] == 0:
                return (l[0] * r[1], l[1] * r[1])
            return None
        if isinstance(e.op, ast.Div) and r[0] == 0 and r[1] != 0:
            return (l[0] / r[1], l[1] / r[1])
    return None


def fmt_lin(f):
    a, b = f
    return f"{a:g}*P{b:+g}" if b else f"{a:g}*P"
