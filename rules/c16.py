"""C16 - order status transition function: total, closed, lifecycle-safe.

The function is a lookup in literal tables followed by a small resolver.  The tables
are folded from the AST (E5), the resolver's lookup shape and its verdict->outcome
mapping are checked structurally (def-use + a 3-valued walk of its CFG), and then the
*folded table* - not the function - is evaluated over the full finite domain.
"""
from __future__ import annotations

import ast

from sa.cfg import CFG
from sa.core import AnalysisError, loc, short, unparse, walk_no_nested
from sa.fold import EnumVal, Folder, Sym
from sa.guards import resolved, symbolic_block

FN = "FIXNewOrderSingle.change_status"
REPORT_KINDS = ("EXECUTIONREPORT", "ORDERCANCELREJECT")
REQUEST_KINDS = ("ORDERCANCELREQUEST", "ORDERCANCELREPLACEREQUEST")
FINISHED = ("FILLED", "CANCELED", "REJECTED", "EXPIRED")
T, I, E = "transit", "ignore", "error"


def _verdict(v):
    if v is True:
        return T
    if v is None:
        return I
    if isinstance(v, Sym) and v.text == "FIXError":
        return E
    return None


def _kinds_of_test(test, fold, param):
    """``fix_msg_type == FMsg.X [or fix_msg_type == FMsg.Y]`` -> [X, Y]"""
    parts = test.values if isinstance(test, ast.BoolOp) and isinstance(test.op, ast.Or) else [test]
    out = []
    # `x in (A, B)` is the same disjunction
    flat = []
    for p in parts:
        if isinstance(p, ast.Compare) and len(p.ops) == 1 and isinstance(p.ops[0], ast.In) and isinstance(p.comparators[0], (ast.Tuple, ast.List, ast.Set)):
            flat += [ast.Compare(p.left, [ast.Eq()], [e]) for e in p.comparators[0].elts]
        else:
            flat.append(p)
    for p in flat:
        if not (isinstance(p, ast.Compare) and len(p.ops) == 1 and isinstance(p.ops[0], ast.Eq)):
            return None
        a, b = p.left, p.comparators[0]
        if isinstance(b, ast.Name) and b.id == param:
            a, b = b, a
        if not (isinstance(a, ast.Name) and a.id == param):
            return None
        v = fold.fold(b)
        if isinstance(v, EnumVal) and v.cls == "FMsg":
            out.append(v.name)
        elif isinstance(v, str):
            names = [k for k, val in fold.enum_members("FMsg").items() if val == v]
            if not names:
                return None
            out.append(names[0])
        else:
            return None
    return out


def fold_tables(ctx, fn, fold):
    """kind name -> folded table, from the if/elif chain assigning the table variable."""
    params = [a.arg for a in fn.args.args]
    if len(params) < 5:
        raise AnalysisError(f"{FN}: parameter list changed: {params}")
    p_status, p_kind, p_exec, p_msgstatus, p_raise = params[:5]
    tables = {}
    table_var = None
    chain = None
    for st in fn.body:
        if isinstance(st, ast.If) and _kinds_of_test(st.test, fold, p_kind):
            chain = st
            break
    if chain is None:
        raise AnalysisError(f"{FN}: message-kind dispatch chain not found")
    node = chain
    while True:
        kinds = _kinds_of_test(node.test, fold, p_kind)
        if not kinds:
            raise AnalysisError(f"{FN}: unrecognised kind test {short(node.test)}")
        assigns = [s for s in node.body if isinstance(s, ast.Assign)]
        if not assigns or not isinstance(assigns[0].targets[0], ast.Name):
            raise AnalysisError(f"{FN}: branch for {kinds} does not start with an assignment of the table")
        tgt = assigns[0].targets[0]
        if table_var not in (None, tgt.id):
            raise AnalysisError(f"{FN}: two table variables")
        table_var = tgt.id
        folded = _build_table(node.body, tgt.id, fold, kinds)
        for k in kinds:
            if k in tables:
                ctx.instance("C16.totality", f"kind[{k}]", False, "message kind handled by two branches", loc(node))
            tables[k] = (folded, assigns[0].value)
        if len(node.orelse) == 1 and isinstance(node.orelse[0], ast.If):
            node = node.orelse[0]
        elif not node.orelse:
            break
        elif len(node.orelse) == 1 and isinstance(node.orelse[0], ast.Raise) and node.orelse[0].exc is not None and "FIXError" in unparse(node.orelse[0].exc):
            break  # `else: raise FIXError(...)`: the unsupported-kind exit written as the chain's last arm
        else:
            raise AnalysisError(f"{FN}: dispatch chain has an else branch that is not a table")
    return tables, table_var, (p_status, p_kind, p_exec, p_msgstatus, p_raise), chain


def _build_table(body, var, fold, kinds):
    """The table a branch builds: a dict literal, or `dict.fromkeys(keys, row)`, then `var[k] = row` / `var.update({...})`."""
    table = None
    for st in body:
        if isinstance(st, ast.Expr) and isinstance(st.value, ast.Constant):
            continue
        if isinstance(st, ast.Assign) and len(st.targets) == 1 and isinstance(st.targets[0], ast.Name) and st.targets[0].id == var:
            v = st.value
            if isinstance(v, ast.Dict):
                table = dict(fold.fold(v))
            elif isinstance(v, ast.Call) and unparse(v.func) == "dict.fromkeys" and len(v.args) == 2 and isinstance(v.args[0], (ast.Tuple, ast.List, ast.Set)):
                row = fold.fold(v.args[1])
                table = {fold.fold(k): row for k in v.args[0].elts}
            else:
                raise AnalysisError(f"{FN}: branch for {kinds}: table value `{short(v)}` is not a literal table")
        elif isinstance(st, ast.Assign) and len(st.targets) == 1 and isinstance(st.targets[0], ast.Subscript) and unparse(st.targets[0].value) == var and table is not None:
            table[fold.fold(st.targets[0].slice)] = fold.fold(st.value)
        elif isinstance(st, ast.Expr) and isinstance(st.value, ast.Call) and unparse(st.value.func) == f"{var}.update" and len(st.value.args) == 1 \
                and isinstance(st.value.args[0], ast.Dict) and table is not None:
            table.update(fold.fold(st.value.args[0]))
        else:
            raise AnalysisError(f"{FN}: branch for {kinds} contains `{short(st)}`: not a literal-table construction")
    if table is None:
        raise AnalysisError(f"{FN}: branch for {kinds} builds no table")
    return table


def check_resolver(ctx, fn, table_var, params, chain):
    """Lookup shape (def-use) and verdict -> outcome mapping (3-valued CFG walk)."""
    p_status, p_kind, p_exec, p_msgstatus, p_raise = params
    rule = "C16.resolver-shape"
    after = fn.body[fn.body.index(chain) + 1:]
    # symbolic value of the looked-up verdict: whatever locals the function uses on the way
    env, rest = symbolic_block([st for st in after if not (isinstance(st, ast.If) and not st.orelse and len(st.body) == 1 and isinstance(st.body[0], ast.Raise))])
    row_var = default_var = result_var = None
    exec_level_ok = False
    q = lambda e: unparse(e).replace('"', "'")  # noqa: E731
    r0 = f"{table_var}.get({p_status}, {table_var}[None])"
    lvl = f"{r0}['exec_type'].get({p_exec}, {r0}['exec_type'][None])"
    for st in rest[:1]:
        if isinstance(st, ast.If):
            for n in ast.walk(st.test):
                if isinstance(n, ast.Compare) and len(n.ops) == 1 and isinstance(n.ops[0], (ast.Is, ast.IsNot)) and isinstance(n.left, ast.Name) \
                        and unparse(n.comparators[0]) == "FIXError":
                    result_var = n.left.id
    val = env.get(result_var)
    if isinstance(val, ast.Call) and isinstance(val.func, ast.Attribute) and val.func.attr == "get" and len(val.args) == 2 and not val.keywords \
            and q(val.args[0]) == p_msgstatus and isinstance(val.args[1], ast.Subscript) and q(val.args[1].slice) == "None" \
            and q(val.args[1].value) == q(val.func.value):
        default_var = "row[None]"
        row = val.func.value
        if isinstance(row, ast.IfExp) and q(row.body) == lvl and q(row.orelse) == r0:
            row_var = "row"
            conj = row.test.values if isinstance(row.test, ast.BoolOp) and isinstance(row.test.op, ast.And) else [row.test]
            texts = {q(c) for c in conj}
            exec_level_ok = f"'exec_type' in {r0}" in texts and texts <= {f"'exec_type' in {r0}", f"isinstance({r0}, dict)"}
    ok = bool(row_var and result_var and default_var and exec_level_ok)
    if ok:
        ctx.instance(rule, "lookup", ok, "", loc(fn), sample={"rule": rule, "row_var": row_var, "default_var": default_var,
                                                            "result_var": result_var, "exec_level": exec_level_ok})
    if not ok:
        raise AnalysisError(f"{FN}: resolver lookup shape not recognised (row={row_var}, default={default_var}, "
                            f"result={result_var}, exec_level={exec_level_ok}); the folded table cannot stand for the function")

    # "no table" guard: unsupported kinds must end in raise FIXError
    g = CFG(fn)
    # locate the node that defines result_var
    res_nodes = [n.id for n in g.nodes if n.kind == "stmt" and isinstance(n.ast, ast.Assign)
                 and isinstance(n.ast.targets[0], ast.Name) and n.ast.targets[0].id == result_var]
    if len(res_nodes) != 1:
        raise AnalysisError(f"{FN}: result variable defined {len(res_nodes)} times")
    start = res_nodes[0]

    def eval_test(test, verdict, raise_on_err):
        """3-valued: True / False / None(unknown)."""
        if isinstance(test, ast.UnaryOp) and isinstance(test.op, ast.Not):
            v = eval_test(test.operand, verdict, raise_on_err)
            return None if v is None else (not v)
        if isinstance(test, ast.BoolOp):
            vals = [eval_test(v, verdict, raise_on_err) for v in test.values]
            if isinstance(test.op, ast.And):
                return False if any(v is False for v in vals) else (None if any(v is None for v in vals) else True)
            return True if any(v is True for v in vals) else (None if any(v is None for v in vals) else False)
        if isinstance(test, ast.Name):
            if test.id == p_raise:
                return raise_on_err
            if test.id == result_var:
                return {T: True, I: False, E: True}[verdict]
        if isinstance(test, ast.Compare) and len(test.ops) == 1 and isinstance(test.left, ast.Name) \
                and test.left.id == result_var:
            rhs = test.comparators[0]
            rv = None
            if isinstance(rhs, ast.Constant) and rhs.value is None:
                rv = I
            elif isinstance(rhs, ast.Constant) and rhs.value is True:
                rv = T
            elif isinstance(rhs, ast.Name) and rhs.id == "FIXError":
                rv = E
            if rv is not None:
                if isinstance(test.ops[0], (ast.Is, ast.Eq)):
                    return verdict == rv
                if isinstance(test.ops[0], (ast.IsNot, ast.NotEq)):
                    return verdict != rv
        return None

    def outcomes(verdict, raise_on_err):
        outs = set()
        seen = set()
        todo = [d for d, lab in g.succs(start, exc=False)]
        while todo:
            n = todo.pop()
            if n in seen:
                continue
            seen.add(n)
            node = g.nodes[n]
            if node.kind == "test":
                v = eval_test(node.ast, verdict, raise_on_err)
                for d, lab in g.succs(n, exc=False):
                    if v is None or (v and lab == "true") or (not v and lab == "false"):
                        todo.append(d)
                continue
            if node.kind == "stmt" and isinstance(node.ast, ast.Return):
                val = node.ast.value
                if val is None or (isinstance(val, ast.Constant) and val.value is None):
                    outs.add("return-none")
                elif isinstance(val, ast.Name) and val.id == p_msgstatus:
                    outs.add("return-msg-status")
                else:
                    outs.add("return-other:" + unparse(val))
                continue
            if node.kind == "stmt" and isinstance(node.ast, ast.Raise):
                exc = node.ast.exc
                nm = exc.func.id if isinstance(exc, ast.Call) and isinstance(exc.func, ast.Name) else unparse(exc) if exc else "?"
                outs.add("raise-" + nm)
                continue
            if node.kind in ("exit",):
                outs.add("return-none")
                continue
            for d, lab in g.succs(n, exc=False):
                todo.append(d)
        return outs

    want = {(T, True): {"return-msg-status"}, (T, False): {"return-msg-status"},
            (I, True): {"return-none"}, (I, False): {"return-none"},
            (E, True): {"raise-FIXError"}, (E, False): {"return-none"}}
    for (v, r), exp in want.items():
        got = outcomes(v, r)
        ctx.instance("C16.resolver-outcome", f"verdict={v},raise_on_err={r}", got == exp,
                     f"resolver maps table verdict {v} (raise_on_err={r}) to {sorted(got)}, expected {sorted(exp)}",
                     loc(fn), sample={"rule": "C16.resolver-outcome", "verdict": v, "raise_on_err": r,
                                      "outcomes": sorted(got)})
    # every raise in the function raises FIXError
    for n in walk_no_nested(fn):
        if isinstance(n, ast.Raise):
            exc = n.exc
            nm = exc.func.id if isinstance(exc, ast.Call) and isinstance(exc.func, ast.Name) else None
            ctx.instance("C16.totality", f"raise@{short(n, 40)}", nm == "FIXError",
                         f"raises {unparse(exc) if exc else 'bare'} instead of the library's order error", loc(n))


def lookup(table, status_val, exec_val, msg_val):
    """Evaluate the folded table exactly as the (shape-checked) resolver does. Returns verdict or raises KeyError."""
    def get(d, key_val):
        for k, v in d.items():
            if Folder.val(k) == key_val and not (isinstance(k, tuple) and k and k[0] == "DUP"):
                if k is None and key_val is None or k is not None:
                    return v, True
        return None, False

    row, found = get(table, status_val)
    if not found:
        row, found = get(table, None)
        if not found:
            raise KeyError("no default row")
    if isinstance(row, dict) and "exec_type" in row:
        lvl = row["exec_type"]
        sub, found = get(lvl, exec_val)
        if not found:
            sub, found = get(lvl, None)
            if not found:
                raise KeyError("no default exec_type row")
        row = sub
    if not isinstance(row, dict):
        raise KeyError("row is not a table")
    default, found = get(row, None)
    if not found:
        raise KeyError("row without default")
    cell, found = get(row, msg_val)
    if not found:
        cell = default
    return cell


def iter_rows(table, path=""):
    for k, v in table.items():
        name = repr(k)
        if isinstance(v, dict) and "exec_type" in v:
            for k2, v2 in v["exec_type"].items():
                yield f"{path}{name}/exec_type[{k2!r}]", v2
        else:
            yield f"{path}{name}", v


def run(ctx):
    repo = ctx.repo
    fold = Folder(repo)
    fn = repo.func(FN)
    ctx.rule("C16.totality", "every table has a None row, every row a None default, cells are transit/ignore/error, "
             "keys are enum members without value clashes, only FIXError is raised")
    ctx.rule("C16.resolver-shape", "row=table.get(status, table[None]); optional exec_type level; result=row.get(msg_status, default)")
    ctx.rule("C16.resolver-outcome", "3-valued walk: transit->return msg_status, ignore->None, error->raise FIXError iff raise_on_err else None")
    ctx.rule("C16.absorbing", "finished statuses never transit to a different status under report kinds")
    ctx.rule("C16.no-way-back", "no report transits to CREATED; none from an acknowledged status to PENDING_NEW")
    ctx.rule("C16.created", "a just-created order transits only on PENDING_NEW or REJECTED (report kinds)")
    ctx.rule("C16.request-permission", "cancel/replace: transit exactly NEW/PARTIALLY_FILLED/SUSPENDED, ignore exactly PENDING_CANCEL/PENDING_REPLACE, error otherwise; wrappers thin")
    ctx.rule("C16.enum-plumbing", "_StrEnum compares/hashes by value; members of one enum have distinct values")
    ctx.assumptions += ["the folded literal tables stand for the function because the resolver shape is checked",
                        "python dict/enum semantics (trusted)"]

    statuses = fold.enum_members("FOrdStatus")
    exectypes = fold.enum_members("FExecType")
    if len(statuses) < 15 or len(exectypes) < 17:
        raise AnalysisError("status / exec type enums shrank")
    evaluator = None
    n_before = len(ctx.findings)
    try:
        tables, table_var, params, chain = fold_tables(ctx, fn, fold)
        check_resolver(ctx, fn, table_var, params, chain)
    except AnalysisError as exc:
        # the function is not "literal tables + the canonical lookup": fold tables and lookup code together instead, by evaluating the
        # function's own statements for every argument tuple of the finite domain (E10, sa/minieval.py)
        if len(ctx.findings) != n_before:
            raise
        evaluator = _Evaluated(ctx, repo, fold, fn, statuses, exectypes, str(exc))
        return run_evaluated(ctx, repo, fold, fn, statuses, exectypes, evaluator)
    for k in REPORT_KINDS + REQUEST_KINDS:
        if k not in tables:
            ctx.instance("C16.totality", f"kind[{k}]", False, f"supported message kind {k} has no table", loc(fn))
    # unsupported kinds: the empty-table guard must raise FIXError
    guard_ok = False
    for st in fn.body:
        if isinstance(st, ast.If) and unparse(st.test) == f"not {table_var}":
            guard_ok = any(isinstance(s, ast.Raise) for s in st.body)
    init_empty = any(isinstance(st, ast.Assign) and isinstance(st.targets[0], ast.Name)
                     and st.targets[0].id == table_var and isinstance(st.value, ast.Dict) and not st.value.keys
                     for st in fn.body)
    tail_ = chain
    while len(tail_.orelse) == 1 and isinstance(tail_.orelse[0], ast.If):
        tail_ = tail_.orelse[0]
    else_raise = len(tail_.orelse) == 1 and isinstance(tail_.orelse[0], ast.Raise) and tail_.orelse[0].exc is not None and "FIXError" in unparse(tail_.orelse[0].exc)
    ctx.instance("C16.totality", "unsupported-kind", (guard_ok and init_empty) or else_raise,
                 "unsupported message kinds no longer end in the library's order error", loc(fn))

    # ---- R1 totality / closedness of every table
    for kind, (table, node) in tables.items():
        def key_ok(k, allowed_enum):
            if k is None:
                return True
            return isinstance(k, EnumVal) and k.cls == allowed_enum
        has_none = None in table
        ctx.instance("C16.totality", f"{kind}:None-row", has_none, "table has no default (None) row: KeyError for unlisted statuses", loc(node))
        for k in table:
            dup = isinstance(k, tuple) and k and k[0] == "DUP"
            ctx.instance("C16.totality", f"{kind}:key[{k!r}]", (not dup) and key_ok(k, "FOrdStatus"),
                         "row key is duplicated or not a status enum member", loc(node))
        for rname, row in iter_rows(table):
            if not isinstance(row, dict):
                ctx.instance("C16.totality", f"{kind}:{rname}", False, "row is not a table", loc(node))
                continue
            ctx.instance("C16.totality", f"{kind}:{rname}:default", None in row,
                         "row has no None default: KeyError for unlisted reported statuses", loc(node))
            for ck, cv in row.items():
                dup = isinstance(ck, tuple) and ck and ck[0] == "DUP"
                ok = _verdict(cv) is not None and not dup and key_ok(ck, "FOrdStatus")
                ctx.instance("C16.totality", f"{kind}:{rname}:{ck!r}", ok,
                             f"cell {ck!r} -> {cv!r} is not one of transit(True)/ignore(None)/error(FIXError) or key invalid", loc(node))
        for k, v in table.items():
            if isinstance(v, dict) and "exec_type" in v:
                lvl = v["exec_type"]
                ctx.instance("C16.totality", f"{kind}:{k!r}/exec_type:None-row", isinstance(lvl, dict) and None in lvl,
                             "exec_type level without default row", loc(node))
                extra = [x for x in v if x != "exec_type"]
                ctx.instance("C16.totality", f"{kind}:{k!r}/exec_type:exclusive", not extra,
                             "row mixes an exec_type level with plain cells (plain cells would be ignored by the resolver)", loc(node))
                if isinstance(lvl, dict):
                    for ek in lvl:
                        ok = ek is None or (isinstance(ek, EnumVal) and ek.cls == "FExecType")
                        ctx.instance("C16.totality", f"{kind}:{k!r}/exec_type:key[{ek!r}]", ok, "exec_type key is not an ExecType member", loc(node))

    # ---- domain evaluation
    exec_domain = [v for v in exectypes.values()] + [0]
    points = 0

    # guard clauses in front of the table dispatch (`if <test over the parameters>: return None / return msg_status / raise FIXError`)
    # are part of the function: evaluated first, in order, over the same finite domain
    p_status, p_kind, p_exec, p_msgstatus, p_raise = params
    preludes = []
    for st in fn.body[:fn.body.index(chain)]:
        if isinstance(st, ast.If) and not st.orelse and len(st.body) == 1:
            b = st.body[0]
            names = {x.id for x in ast.walk(st.test) if isinstance(x, ast.Name)}
            if not names & {p_status, p_kind, p_exec, p_msgstatus}:
                continue
            if isinstance(b, ast.Return):
                v = I if (b.value is None or (isinstance(b.value, ast.Constant) and b.value.value is None)) else (T if unparse(b.value) == p_msgstatus else None)
            elif isinstance(b, ast.Raise) and b.exc is not None and "FIXError" in unparse(b.exc):
                v = E
            else:
                v = None
            if v is None:
                raise AnalysisError(f"{FN}: guard clause `{short(st)}` in front of the dispatch is not understood")
            preludes.append((st.test, v))
    kinds_enum = fold.enum_members("FMsg")

    def _ev(e, env):
        if isinstance(e, ast.BoolOp):
            vals = [_ev(v, env) for v in e.values]
            return all(vals) if isinstance(e.op, ast.And) else any(vals)
        if isinstance(e, ast.UnaryOp) and isinstance(e.op, ast.Not):
            return not _ev(e.operand, env)
        if isinstance(e, ast.Compare) and len(e.ops) == 1:
            def val(x):
                v = env[x.id] if isinstance(x, ast.Name) and x.id in env else fold.fold(x)
                return Folder.val(v) if isinstance(v, EnumVal) else v
            a, op, b = e.left, e.ops[0], e.comparators[0]
            if isinstance(op, (ast.In, ast.NotIn)):
                coll = b.args[0] if isinstance(b, ast.Call) and unparse(b.func) in ("frozenset", "set", "tuple") and b.args else b
                if not isinstance(coll, (ast.Tuple, ast.List, ast.Set)):
                    raise AnalysisError(f"{FN}: membership test `{short(e)}` over a non-literal collection")
                r = any(val(a) == val(x) for x in coll.elts)
                return r if isinstance(op, ast.In) else not r
            if isinstance(op, (ast.Eq, ast.Is)):
                return val(a) == val(b)
            if isinstance(op, (ast.NotEq, ast.IsNot)):
                return val(a) != val(b)
        raise AnalysisError(f"{FN}: guard test `{short(e)}` is not understood")

    def verdict_at(kind, cur, ex, ms):
        nonlocal points
        points += 1
        if preludes:
            env = {p_status: statuses[cur], p_kind: kinds_enum[kind], p_exec: ex, p_msgstatus: statuses[ms]}
            for test, v in preludes:
                if _ev(test, env):
                    return v
        try:
            return _verdict(lookup(tables[kind][0], statuses[cur], ex, statuses[ms]))
        except KeyError:
            return "keyerror"

    ack = [s for s in statuses if s not in ("CREATED", "PENDING_NEW")]
    for kind in REPORT_KINDS:
        if kind not in tables:
            continue
        where = loc(tables[kind][1])
        # R2 absorbing
        for cur in FINISHED:
            bad = sorted({ms for ms in statuses for ex in exec_domain if ms != cur and verdict_at(kind, cur, ex, ms) == T})
            ctx.instance("C16.absorbing", f"{kind}[{cur}]", not bad,
                         f"finished status {cur} transits to {bad} on a {kind}", where, evals=len(statuses) * len(exec_domain))
        # R3 no way back
        for cur in statuses:
            bad = any(verdict_at(kind, cur, ex, "CREATED") == T for ex in exec_domain)
            ctx.instance("C16.no-way-back", f"{kind}[{cur}->CREATED]", not bad,
                         f"a {kind} moves an order from {cur} back to CREATED", where, evals=len(exec_domain))
        for cur in ack:
            bad = any(verdict_at(kind, cur, ex, "PENDING_NEW") == T for ex in exec_domain)
            ctx.instance("C16.no-way-back", f"{kind}[{cur}->PENDING_NEW]", not bad,
                         f"a {kind} moves an acknowledged order ({cur}) back to PENDING_NEW", where, evals=len(exec_domain))
        # R4 created
        bad = sorted({ms for ms in statuses for ex in exec_domain
                      if ms not in ("PENDING_NEW", "REJECTED") and verdict_at(kind, "CREATED", ex, ms) == T})
        ctx.instance("C16.created", f"{kind}[CREATED]", not bad,
                     f"a just-created order accepts {bad} from a {kind}", where, evals=len(statuses) * len(exec_domain))
        # no KeyError anywhere
        ke = [(c, m) for c in statuses for m in statuses for ex in exec_domain if verdict_at(kind, c, ex, m) == "keyerror"]
        ctx.instance("C16.totality", f"{kind}:domain", not ke, f"lookup fails for {ke[:3]}", where, evals=len(statuses) ** 2 * len(exec_domain))
    # R5 request permission
    for kind in REQUEST_KINDS:
        if kind not in tables:
            continue
        where = loc(tables[kind][1])
        for cur in statuses:
            want = T if cur in ("NEW", "PARTIALLY_FILLED", "SUSPENDED") else I if cur in ("PENDING_CANCEL", "PENDING_REPLACE") else E
            got = {verdict_at(kind, cur, ex, ms) for ms in statuses for ex in exec_domain}
            ctx.instance("C16.request-permission", f"{kind}[{cur}]", got == {want},
                         f"request gate for {cur} answers {sorted(map(str, got))}, expected {want}", where,
                         evals=len(statuses) * len(exec_domain))
    ctx.extra["domain_points"] = points
    ctx.extra["exhaustive"] = True

    wrappers_and_enums(ctx, repo, fold)


def wrappers_and_enums(ctx, repo, fold):
    # wrappers
    for wname, kind in (("can_cancel", "ORDERCANCELREQUEST"), ("can_replace", "ORDERCANCELREPLACEREQUEST")):
        w = repo.func(f"FIXNewOrderSingle.{wname}")
        rets = [n for n in walk_no_nested(w) if isinstance(n, ast.Return)]
        ok = False
        rv = resolved(w, rets[0].value) if len(rets) == 1 and rets[0].value is not None else None
        if isinstance(rv, ast.Compare):
            cmp = rv
            call = cmp.left
            if isinstance(call, ast.Call) and unparse(call.func).endswith("change_status") and len(cmp.ops) == 1 \
                    and isinstance(cmp.ops[0], ast.IsNot) and isinstance(cmp.comparators[0], ast.Constant) \
                    and cmp.comparators[0].value is None and len(call.args) >= 2:
                a0 = unparse(call.args[0])
                k = fold.fold(call.args[1])
                roe = [kw for kw in call.keywords if kw.arg == "raise_on_err"]
                roe_val = roe[0].value if roe else (call.args[4] if len(call.args) > 4 else None)
                ok = (a0 == "self.status" and isinstance(k, EnumVal) and k.name == kind
                      and isinstance(roe_val, ast.Constant) and roe_val.value is False)
        ctx.instance("C16.request-permission", f"wrapper:{wname}", ok,
                     f"{wname} is no longer change_status(self.status, {kind}, ..., raise_on_err=False) is not None", loc(w))
    fin = repo.func("FIXNewOrderSingle.is_finished")
    names = set()
    for n in walk_no_nested(fin):
        if isinstance(n, ast.Compare) and unparse(n.left) == "self.status" and isinstance(n.ops[0], ast.Eq):
            v = fold.fold(n.comparators[0])
            if isinstance(v, EnumVal):
                names.add(v.name)
        if isinstance(n, ast.Compare) and unparse(n.left) == "self.status" and isinstance(n.ops[0], ast.In):
            v = fold.fold(n.comparators[0])
            if isinstance(v, (list, tuple, frozenset)):
                names |= {x.name for x in v if isinstance(x, EnumVal)}
    ctx.instance("C16.request-permission", "is_finished", names == set(FINISHED),
                 f"is_finished tests {sorted(names)}, expected exactly {sorted(FINISHED)}", loc(fin))

    # R6 enum plumbing
    check_value_enum(ctx, repo, fold, "_StrEnum", ("FOrdStatus", "FExecType"), "C16.enum-plumbing")
    # the members stand for the FIX 4.4 wire characters (a table written symbolically stays self-consistent when two values are swapped,
    # but reports decoded from the counterparty are then resolved to the wrong member)
    wire = {
        "FOrdStatus": {"NEW": "0", "PARTIALLY_FILLED": "1", "FILLED": "2", "DONE_FOR_DAY": "3", "CANCELED": "4", "PENDING_CANCEL": "6", "STOPPED": "7",
                       "REJECTED": "8", "SUSPENDED": "9", "PENDING_NEW": "A", "CALCULATED": "B", "EXPIRED": "C", "ACCEPTED_FOR_BIDDING": "D", "PENDING_REPLACE": "E"},
        "FExecType": {"NEW": "0", "DONE_FOR_DAY": "3", "CANCELED": "4", "REPLACED": "5", "PENDING_CANCEL": "6", "STOPPED": "7", "REJECTED": "8", "SUSPENDED": "9",
                      "PENDING_NEW": "A", "CALCULATED": "B", "EXPIRED": "C", "RESTATED": "D", "PENDING_REPLACE": "E", "TRADE": "F", "TRADE_CORRECT": "G",
                      "TRADE_CANCEL": "H", "ORDER_STATUS": "I"},
    }
    for cls, table in wire.items():
        mem = fold.enum_members(cls)
        wrong = {k: (mem.get(k), v) for k, v in table.items() if k in mem and mem[k] != v}
        extra_clash = [k for k, v in mem.items() if k not in table and v in table.values()]
        ctx.instance("C16.enum-plumbing", f"{cls}[FIX 4.4 wire values]", not wrong and not extra_clash,
                     f"{cls} members do not carry their FIX 4.4 wire characters: {wrong} {extra_clash} - a status decoded from the counterparty resolves to the wrong member "
                     "(e.g. 39=C Expired treated as Calculated: a finished order is not absorbing)", loc(repo.cls(cls)), evals=len(mem))


def check_value_enum(ctx, repo, fold, base, members_of, rule):
    eq = repo.func(f"{base}.__eq__")
    hs = repo.func(f"{base}.__hash__")
    other = eq.args.args[1].arg
    rets = [n for n in walk_no_nested(eq) if isinstance(n, ast.Return)]
    ok_eq = len(rets) == 1 and unparse(rets[0].value) in (
        f"self.value == str({other})", f"str({other}) == self.value", f"self.value == {other}", f"{other} == self.value")
    ctx.instance(rule, f"{base}.__eq__", ok_eq, f"{base}.__eq__ no longer compares by value: {short(rets[0].value) if rets else '?'}", loc(eq))
    rets = [n for n in walk_no_nested(hs) if isinstance(n, ast.Return)]
    ok_h = len(rets) == 1 and unparse(rets[0].value) == "hash(self.value)"
    ctx.instance(rule, f"{base}.__hash__", ok_h, f"{base}.__hash__ no longer hashes the value", loc(hs))
    for cls in members_of:
        mem = fold.enum_members(cls)
        vals = list(mem.values())
        dups = sorted({v for v in vals if vals.count(v) > 1})
        ctx.instance(rule, f"{cls}:distinct-values", not dups, f"{cls} members share values {dups}", loc(repo.cls(cls)))


# ---------------------------------------------------------------------------------------------- evaluated mode (E10)
class _Evaluated:
    def __init__(self, ctx, repo, fold, fn, statuses, exectypes, why):
        from sa.minieval import EV, MiniEval
        self.EV = EV
        self.me = MiniEval(repo, fold, "FIXNewOrderSingle")
        self.fn = fn
        params = [a.arg for a in fn.args.args]
        if params and params[0] in ("self", "cls"):
            params = params[1:]
        if len(params) < 4:
            raise AnalysisError(f"{FN}: parameters {params}")
        self.params = params
        self.statuses, self.exectypes = statuses, exectypes
        self.kinds = fold.enum_members("FMsg")
        self.why = why
        self.cache = {}
        self.points = 0

    def outcome(self, kind, cur, ex, ms, roe=True):
        """'transit' / 'ignore' / 'error' / 'raise:<Exc>' / 'other:<repr>'"""
        key = (kind, cur, ex, ms, roe)
        if key in self.cache:
            return self.cache[key]
        from sa.minieval import Raised, Unsupported
        EV = self.EV
        exv = next((EV("FExecType", n, v) for n, v in self.exectypes.items() if v == ex), ex)
        msv = EV("FOrdStatus", ms, self.statuses[ms])
        args = dict(zip(self.params, [EV("FOrdStatus", cur, self.statuses[cur]), EV("FMsg", kind, self.kinds[kind]), exv, msv, roe]))
        self.points += 1
        try:
            k, v = self.me.call(self.fn, args)
            if v is None:
                r = I
            elif v is msv:
                r = T
            else:
                r = f"other:{v!r}"
        except Raised as exc:
            r = E if exc.name == "FIXError" else f"raise:{exc.name}"
        except Unsupported as exc:
            raise AnalysisError(f"{FN}: not a literal table with the canonical lookup ({self.why[:120]}) and not in the evaluated fragment either: {exc}")
        self.cache[key] = r
        return r


def run_evaluated(ctx, repo, fold, fn, statuses, exectypes, ev):
    ctx.assumptions += ["the transition function is folded by evaluating its statements over the whole finite domain (sa/minieval.py); enum members compare by value"]
    ctx.instance("C16.resolver-shape", "lookup", True, "", loc(fn), sample={"rule": "C16.resolver-shape", "mode": "evaluated", "why": ev.why[:200]})
    exec_domain = [v for v in exectypes.values()] + [0]
    where = loc(fn)
    # totality: every point of every supported kind ends in transit / ignore / error (FIXError), nothing else escapes
    for kind in REPORT_KINDS + REQUEST_KINDS:
        bad = [(c, m, ev.outcome(kind, c, ex, m)) for c in statuses for m in statuses for ex in exec_domain if ev.outcome(kind, c, ex, m) not in (T, I, E)]
        ctx.instance("C16.totality", f"{kind}:domain", not bad, f"the transition function ends in {bad[:3]} (neither a status, None nor FIXError)", where,
                     evals=len(statuses) ** 2 * len(exec_domain))
    other = next((k for k in ev.kinds if k not in REPORT_KINDS + REQUEST_KINDS), None)
    if other is not None:
        got = {ev.outcome(other, c, 0, m) for c in list(statuses)[:4] for m in list(statuses)[:4]}
        ctx.instance("C16.totality", "unsupported-kind", got == {E}, f"an unsupported message kind ends in {sorted(got)}, not in the library's order error", where)
    # outcome mapping with raise_on_err=False: error -> None, the rest unchanged
    for v in (T, I, E):
        ok = True
        for kind in REPORT_KINDS + REQUEST_KINDS:
            for c in statuses:
                for m in statuses:
                    for ex in (0, exec_domain[0]):
                        if ev.outcome(kind, c, ex, m) == v:
                            want = T if v == T else I
                            if ev.outcome(kind, c, ex, m, roe=False) != want:
                                ok = False
        ctx.instance("C16.resolver-outcome", f"verdict={v},raise_on_err=False", ok,
                     f"with raise_on_err=False a {v} cell does not end in {'the reported status' if v == T else 'None'}", where)
    ack = [s_ for s_ in statuses if s_ not in ("CREATED", "PENDING_NEW")]
    for kind in REPORT_KINDS:
        for cur in FINISHED:
            bad = sorted({ms for ms in statuses for ex in exec_domain if ms != cur and ev.outcome(kind, cur, ex, ms) == T})
            ctx.instance("C16.absorbing", f"{kind}[{cur}]", not bad, f"finished status {cur} transits to {bad} on a {kind}", where, evals=len(statuses) * len(exec_domain))
        for cur in statuses:
            bad = any(ev.outcome(kind, cur, ex, "CREATED") == T for ex in exec_domain)
            ctx.instance("C16.no-way-back", f"{kind}[{cur}->CREATED]", not bad, f"a {kind} moves an order from {cur} back to CREATED", where, evals=len(exec_domain))
        for cur in ack:
            bad = any(ev.outcome(kind, cur, ex, "PENDING_NEW") == T for ex in exec_domain)
            ctx.instance("C16.no-way-back", f"{kind}[{cur}->PENDING_NEW]", not bad, f"a {kind} moves an acknowledged order ({cur}) back to PENDING_NEW", where, evals=len(exec_domain))
        bad = sorted({ms for ms in statuses for ex in exec_domain if ms not in ("PENDING_NEW", "REJECTED") and ev.outcome(kind, "CREATED", ex, ms) == T})
        ctx.instance("C16.created", f"{kind}[CREATED]", not bad, f"a just-created order accepts {bad} from a {kind}", where, evals=len(statuses) * len(exec_domain))
    for kind in REQUEST_KINDS:
        for cur in statuses:
            want = T if cur in ("NEW", "PARTIALLY_FILLED", "SUSPENDED") else I if cur in ("PENDING_CANCEL", "PENDING_REPLACE") else E
            got = {ev.outcome(kind, cur, ex, ms) for ms in statuses for ex in exec_domain}
            ctx.instance("C16.request-permission", f"{kind}[{cur}]", got == {want}, f"request gate for {cur} answers {sorted(map(str, got))}, expected {want}", where,
                         evals=len(statuses) * len(exec_domain))
    ctx.extra["domain_points"] = ev.points
    ctx.extra["exhaustive"] = True
    ctx.extra["mode"] = "evaluated"
    wrappers_and_enums(ctx, repo, fold)


def transition_oracle(repo, fold):
    """cell(kind name, current status name, exec type value or 0, reported status VALUE) -> True (transit) / None (ignore) / Sym('FIXError') (error),
    from the folded tables when the function is 'literal tables + canonical lookup', else from the evaluated function (E10)."""
    fn = repo.func(FN)
    statuses = fold.enum_members("FOrdStatus")
    exectypes = fold.enum_members("FExecType")

    class _Q:
        findings = []
        assumptions = []
        extra = {}

        def instance(self, *a, **k):
            pass
    try:
        tables, table_var, params, chain = fold_tables(_Q(), fn, fold)
        check_resolver(_Q(), fn, table_var, params, chain)

        def cell(kind, cur, ex, ms_val):
            return lookup(tables[kind][0], statuses[cur], ex, ms_val)
        return cell
    except AnalysisError as exc:
        ev = _Evaluated(None, repo, fold, fn, statuses, exectypes, str(exc))
        by_val = {v: k for k, v in statuses.items()}

        def cell(kind, cur, ex, ms_val):
            o = ev.outcome(kind, cur, ex, by_val[ms_val])
            if o == T:
                return True
            if o == I:
                return None
            if o == E:
                return Sym("FIXError")
            raise KeyError(o)
        return cell
