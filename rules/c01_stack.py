"""C01 rule 8: context-stack discipline of the decoder's repeating-group parser.

Pairing / typestate rules on the statement blocks that manipulate the stack of open group
contexts.  The nested cases (group inside group item, sibling items, pops across levels) are
exactly what the tests do not reach.
"""
from __future__ import annotations

import ast
import re

from sa.core import AnalysisError, loc, short, unparse, walk_no_nested
from sa.guards import facts


def block_of(stmt):
    p = getattr(stmt, "_parent", None)
    for field in ("body", "orelse", "finalbody"):
        lst = getattr(p, field, None)
        if isinstance(lst, list) and stmt in lst:
            return lst
    return None


def enclosing(node, kinds):
    p = getattr(node, "_parent", None)
    while p is not None and not isinstance(p, kinds):
        p = getattr(p, "_parent", None)
    return p


def stmt_of(node):
    while node is not None and not isinstance(node, ast.stmt):
        node = getattr(node, "_parent", None)
    return node


def names(dv):
    fn = dv.fn
    stack = root = table = None
    for n in walk_no_nested(fn):
        if isinstance(n, ast.Assign) and len(n.targets) == 1 and isinstance(n.targets[0], ast.Name):
            nm, v = n.targets[0].id, n.value
            if isinstance(v, ast.List) and not v.elts and any(isinstance(c, ast.Call) and unparse(c.func) == f"{nm}.append" for c in walk_no_nested(fn)):
                stack = nm
            if isinstance(v, ast.Call) and unparse(v.func) == "FIXMessage":
                root = nm
            if unparse(v).endswith(".repeating_groups"):
                table = nm
    cur = None
    for n in walk_no_nested(fn):
        if isinstance(n, ast.Assign) and len(n.targets) == 1 and isinstance(n.targets[0], ast.Name) and isinstance(n.value, ast.Name) and n.value.id == root:
            cur = n.targets[0].id
    loop = None
    for n in walk_no_nested(fn):
        if isinstance(n, ast.For) and any(isinstance(c, ast.Call) and unparse(c.func) == "_RepeatingGroupContext" for c in walk_no_nested(n)):
            loop = n
    if None in (stack, root, table, cur, loop):
        raise AnalysisError(f"decode: group parser anchors not found (stack={stack}, root={root}, table={table}, current={cur}, loop={'yes' if loop else None})")
    # tag / value locals: the 2-tuple unpacked from the split of the loop variable
    tag = val = None
    for n in loop.body:
        if isinstance(n, ast.Assign) and isinstance(n.targets[0], ast.Tuple) and len(n.targets[0].elts) == 2:
            tag, val = [unparse(e) for e in n.targets[0].elts]
    if tag is None:
        raise AnalysisError("decode: `tag, value = ...` not found in the field loop")
    return stack, root, table, cur, loop, tag, val


def sym_block(stmts, STACK):
    """Symbolic effects of a straight-line block on the parser state: list of ('attach', parent, tag, item) / ('pop',) /
    ('push', ctx) in order, and the final values of the locals it assigns - every term written over the values the
    locals had when the block was entered.  None when the block contains anything else."""
    from sa.guards import _detach
    env = {}

    def term(e):
        class S(ast.NodeTransformer):
            def visit_Name(self, node):
                if isinstance(node.ctx, ast.Load) and node.id in env:
                    return _detach(env[node.id])
                return node
        return S().visit(_detach(e))

    effects = []
    for st in stmts:
        if isinstance(st, ast.Expr) and isinstance(st.value, ast.Constant):
            continue
        if isinstance(st, ast.Expr) and isinstance(st.value, ast.Call) and isinstance(st.value.func, ast.Attribute):
            c = st.value
            if c.func.attr == "add_group" and len(c.args) == 2 and not c.keywords:
                effects.append(("attach", unparse(term(c.func.value)), unparse(term(c.args[0])), unparse(term(c.args[1]))))
                continue
            if c.func.attr == "append" and unparse(c.func.value) == STACK and len(c.args) == 1:
                effects.append(("push", unparse(term(c.args[0]))))
                continue
            return None
        if isinstance(st, ast.Delete) and len(st.targets) == 1 and unparse(st.targets[0]) == f"{STACK}[-1]":
            effects.append(("pop",))
            continue
        if isinstance(st, ast.Assign) and len(st.targets) == 1 and isinstance(st.targets[0], ast.Name):
            env[st.targets[0].id] = term(st.value)
            continue
        return None
    return effects, {k: unparse(v) for k, v in env.items()}


def stack_rule(ctx, rule, repo, dv, fo):
    fn = dv.fn
    STACK, ROOT, TABLE, CUR, loop, TAG, VAL = names(dv)
    ctors = [c for c in walk_no_nested(loop) if isinstance(c, ast.Call) and unparse(c.func) == "_RepeatingGroupContext"]
    # constructor parameter order from the class
    init = repo.func("_RepeatingGroupContext.__init__")
    params = [a.arg for a in init.args.args][1:]
    if params != ["tag", "repeating_group_tags", "parent"]:
        raise AnalysisError(f"_RepeatingGroupContext.__init__ parameters changed: {params}")
    assigned = {unparse(t): unparse(n.value) for n in walk_no_nested(init) if isinstance(n, ast.Assign) for t in n.targets}
    ok = all(assigned.get(f"self.{p}") == p for p in params) and any(
        isinstance(c, ast.Call) and unparse(c.func) in ("FIXContainer.__init__", "super().__init__") and len(c.args) <= 1 for c in walk_no_nested(init))
    ctx.instance(rule, "_RepeatingGroupContext.__init__[stores tag/members/parent, starts empty]", ok,
                 "the group context no longer records its tag, member list and parent as given, or does not start as an empty container", loc(init))

    pushes, splits = [], []
    for c in ctors:
        a = [unparse(x) for x in c.args]
        if len(a) == 3 and a[0] == TAG:
            pushes.append(c)
        elif len(a) == 3 and a[0] == f"{CUR}.tag":
            splits.append(c)
        else:
            ctx.instance(rule, f"decode[context constructed as {short(c, 50)}]", False,
                         f"`{short(c)}` is neither a push (tag, table row, current context) nor an item split (same tag, members, parent)", loc(c))
    if len(pushes) != 1 or len(splits) != 1:
        raise AnalysisError(f"decode: expected one push and one item-split constructor, found {len(pushes)} / {len(splits)}")

    def seq(block):
        return [unparse(s) for s in block]

    # ---- (a) push
    c = pushes[0]
    st = stmt_of(c)
    blk = block_of(st)
    a = [unparse(x) for x in c.args]
    var = unparse(st.targets[0]) if isinstance(st, ast.Assign) else None
    tail = seq(blk[blk.index(st) + 1:])
    ok = a == [TAG, f"{TABLE}[{TAG}]", CUR] and var is not None and tail[:2] in ([f"{STACK}.append({var})", f"{CUR} = {var}"], [f"{CUR} = {var}", f"{STACK}.append({var})"]) \
        and len(tail) == 2
    ctx.instance(rule, "decode[push: new context(tag, row, current) -> stack -> current]", ok,
                 f"opening a group must create context({TAG}, {TABLE}[{TAG}], {CUR}), append it to {STACK} and make it current - found `{short(st)}` followed by {tail[:3]}", loc(st))
    # the push happens under `tag in TABLE`
    g = dv.cfg
    nid = g.ids_of(c)[0]
    fs = set()
    for t, lab in g.guards(nid, exc=False):
        fs |= facts(t, lab == "true")
    ctx.instance(rule, "decode[push only for group-opening tags]", (f"{TAG} in {TABLE}", True) in fs,
                 f"a group context is opened on a path not guarded by `{TAG} in {TABLE}`", loc(c))

    # ---- (b) pops: every `del STACK[-1]` not in the split block
    split_st = stmt_of(splits[0])
    split_blk = block_of(split_st)
    dels = [n for n in walk_no_nested(loop) if isinstance(n, ast.Delete) and unparse(n.targets[0]) == f"{STACK}[-1]"]
    pop_blocks = []
    for d in dels:
        blk = block_of(d)
        if blk is split_blk:
            continue
        pop_blocks.append((d, blk))
    attach = f"{CUR}.parent.add_group({CUR}.tag, {CUR})"
    up = f"{CUR} = {CUR}.parent"
    for d, blk in pop_blocks:
        s = seq(blk)
        sb = sym_block(blk, STACK)
        # whatever the statement order / helper locals: one attach of the current item to its parent under its own tag, one pop, parent becomes current
        ok = sb is not None and sorted(sb[0]) == sorted([("attach", f"{CUR}.parent", f"{CUR}.tag", CUR), ("pop",)]) and sb[1].get(CUR) == f"{CUR}.parent"
        w = enclosing(d, (ast.While,))
        cond_ok = w is not None and blk is w.body and unparse(w.test) == f"{STACK} and {TAG} not in {CUR}.repeating_group_tags"
        which = "group-start branch" if enclosing(d, (ast.If,)) is not None and under_group_start(d, TAG, TABLE) else "member branch"
        ctx.instance(rule, f"decode[pop ({which}): attach to parent, go up, drop stack top]", ok and cond_ok,
                     f"closing a group must attach the finished item to its parent under its own tag, make the parent current and drop the stack top, "
                     f"looping while `{STACK} and {TAG} not in {CUR}.repeating_group_tags` - found {s} under `{short(w.test) if w else '?'}`", loc(d))
    ctx.instance(rule, "decode[two sibling pop loops]", len(pop_blocks) == 2,
                 f"{len(pop_blocks)} pop loop(s) found: both the group-start branch and the member branch must close finished groups", loc(loop))

    # ---- (c) item split
    s = seq(split_blk)
    a = [unparse(x) for x in splits[0].args]
    var = unparse(split_st.targets[0]) if isinstance(split_st, ast.Assign) else "?"
    want_args = [f"{CUR}.tag", f"{CUR}.repeating_group_tags", f"{CUR}.parent"]
    need = [attach, unparse(split_st), f"del {STACK}[-1]", f"{STACK}.append({var})", f"{CUR} = {var}"]
    sb = sym_block(split_blk, STACK)
    sibling = f"_RepeatingGroupContext({CUR}.tag, {CUR}.repeating_group_tags, {CUR}.parent)"
    n_ctor = sum(1 for st_ in split_blk for x in ast.walk(st_) if isinstance(x, ast.Call) and unparse(x.func) == "_RepeatingGroupContext")
    ok = False
    if sb is not None and n_ctor == 1:
        eff, env = sb
        kinds = [e[0] for e in eff]
        ok = sorted(eff) == sorted([("attach", f"{CUR}.parent", f"{CUR}.tag", CUR), ("pop",), ("push", sibling)]) \
            and kinds.index("pop") < kinds.index("push") and env.get(CUR) == sibling
    iff = enclosing(split_st, (ast.If,))
    cond_ok = iff is not None and split_blk is iff.body and unparse(iff.test) in (f"{TAG} in {CUR}.tags", f"{TAG} in {CUR}")
    ctx.instance(rule, "decode[item split: attach item, sibling context replaces stack top]", ok and cond_ok,
                 f"when a member tag repeats, the finished item must be attached and a sibling context (same tag, members, parent) must replace the stack top and "
                 f"become current - found {s} under `{short(iff.test) if iff else '?'}`", loc(split_st))

    # ---- (e) the field is stored exactly once per iteration, into the right container
    sets = [c for c in walk_no_nested(loop) if isinstance(c, ast.Call) and isinstance(c.func, ast.Attribute) and c.func.attr == "set"]
    g = dv.cfg
    hdr = [n.id for n in g.nodes if n.kind == "for" and n.ast is loop]
    if not hdr:
        raise AnalysisError("decode: loop header not in CFG")
    h = hdr[0]
    set_nodes = {}
    for c in sets:
        for i in g.ids_of(c):
            set_nodes[i] = c
    paths = g.paths(h, [h], exc=False, limit=20000)
    n_paths = 0
    bad = None
    for p in paths:
        if len(p) < 2:
            continue
        n_paths += 1
        cnt = sum(1 for i in p[1:] if i in set_nodes)
        opens = any(g.nodes[i].kind == "stmt" and any(isinstance(x, ast.Call) and unparse(x.func) == "_RepeatingGroupContext" and unparse(x.args[0]) == TAG
                                                      for x in walk_no_nested(g.nodes[i].ast)) for i in p)
        want = 0 if opens else 1
        if cnt != want and bad is None:
            bad = (cnt, want, p)
    ctx.instance(rule, "decode[field stored exactly once per iteration]", bad is None,
                 (f"a path through one loop iteration stores the field {bad[0]} time(s), expected {bad[1]}: a field is dropped or stored twice" if bad else ""),
                 loc(loop), [repr(g.nodes[i]) for i in (bad[2] if bad else [])][-10:], evals=n_paths)
    for c in sets:
        recv = unparse(c.func.value)
        args = [unparse(x) for x in c.args]
        in_group = enclosing_test(c, f"{STACK}") and not under_empty_stack(c, STACK)
        if recv == CUR:
            ok = args == [TAG, VAL]
        elif recv == ROOT:
            ok = args in ([TAG, VAL], [TAG, "RepeatingTagError"])
        else:
            ok = False
        ctx.instance(rule, f"decode[{short(c, 48)}]", ok, f"`{short(c)}` does not store (tag, value) into the current context / root message", loc(c))
    # a member field goes into the *current* context after all adjustments: the group-branch set is the last statement of its branch
    cur_sets = [c for c in sets if unparse(c.func.value) == CUR]
    for c in cur_sets:
        st = stmt_of(c)
        blk = block_of(st)
        ok = blk[-1] is st
        ctx.instance(rule, "decode[member stored after pops and item split]", ok,
                     "the member field is stored before the context adjustments are finished: it lands in the wrong item", loc(c))
    # start state: current context is the root, stack empty - and nothing else resets them inside the loop
    resets = [n for n in walk_no_nested(loop) if isinstance(n, ast.Assign) and unparse(n.targets[0]) in (STACK, ROOT, TABLE)]
    ctx.instance(rule, "decode[stack/root/table not reset inside the loop]", not resets,
                 f"`{short(resets[0]) if resets else ''}` rebinds the stack, the root message or the group table inside the field loop", loc(resets[0]) if resets else loc(loop))
    ctx.floor(rule, 10)


def under_group_start(node, TAG, TABLE):
    p = getattr(node, "_parent", None)
    child = node
    while p is not None:
        if isinstance(p, ast.If) and unparse(p.test) == f"{TAG} in {TABLE}" and child in p.body:
            return True
        child = p
        p = getattr(p, "_parent", None)
    return False


def enclosing_test(node, text):
    p = getattr(node, "_parent", None)
    while p is not None:
        if isinstance(p, (ast.If, ast.While)) and text in unparse(p.test):
            return True
        p = getattr(p, "_parent", None)
    return False


def under_empty_stack(node, STACK):
    p = getattr(node, "_parent", None)
    child = node
    while p is not None:
        if isinstance(p, ast.If) and unparse(p.test) == f"not {STACK}" and child in p.body:
            return True
        child = p
        p = getattr(p, "_parent", None)
    return False
