"""C03 - stream reassembly is independent of how the byte stream is chunked.

Chunk-independence = buffer discipline of the reader + consumed-length contract of the
decoder + a frame extent that does not depend on what follows the frame.  All three are
shapes of code; the behaviour 'same messages for every partition' itself is not decided.
"""
from __future__ import annotations

import ast
import re

from sa.core import AnalysisError, loc, short, unparse, walk_no_nested
from sa.decoder import DecoderView, ReaderView, extent_findings
from sa.guards import derivation, edge_facts, facts, unprotected_path
from sa.resolve import Resolver


def run(ctx):
    repo = ctx.repo
    res = Resolver(repo)
    dv = DecoderView(repo)
    rv = ReaderView(repo)
    R1, R2, R3, R4 = "C03.buffer-discipline", "C03.consumed-length", "C03.incomplete-test-extent", "C03.frame-extent"
    ctx.rule(R1, "the receive buffer is written only by __init__ (empty) and the read loop, which only appends the bytes just read and "
                 "replaces the buffer by its own suffix at the decoder's consumed length; the decoder sees the whole buffer and is re-invoked "
                 "until it returns no message; no path drops the buffer without a decoder verdict")
    ctx.rule(R2, "decoder return paths taken because data is missing consume nothing of the candidate frame (no-marker path keeps the longest "
                 "buffer suffix that is a proper prefix of the marker); the message path consumes start + frame length")
    ctx.rule(R3, "the 'frame incomplete' comparison measures the frame against the bytes available from the frame start")
    ctx.rule(R4, "the frame extent is delimited by SOH-anchored searches (next marker, CheckSum trailer) only - shared with C01 rule 1")
    ctx.assumptions += ["field values contain no SOH (the property's quantifier)", "StreamReader.read returns consecutive bytes of the stream (trusted)"]

    buffer_discipline(ctx, R1, repo, res, rv)
    consumed_contract(ctx, R2, dv)
    incomplete_test(ctx, R3, dv)
    n, bad = extent_findings(dv)
    for construct, what, node in bad:
        ctx.instance(R4, f"Codec.decode[{construct}]", False, what, loc(node))
    for _ in range(max(0, n - len(bad))):
        ctx.instance(R4, "Codec.decode[extent clause]", True)
    ctx.floor(R4, 4)


# ------------------------------------------------------------------------------ rule 1
def buffer_discipline(ctx, R1, repo, res, rv):
    g, fn = rv.cfg, rv.fn
    if not rv.decode_call.args:
        raise AnalysisError("socket_read_task: decode() lost its argument")
    buf = unparse(rv.decode_call.args[0])
    attr = buf.split(".")[-1]
    ok = buf.startswith("self.") and "[" not in buf
    ctx.instance(R1, "socket_read_task[decode sees the whole buffer]", ok,
                 f"the decoder is invoked on `{buf}`, not on the receive buffer attribute: bytes of a frame split across reads are never rejoined",
                 loc(rv.decode_call))
    if not ok:
        # find the buffer attribute from __init__ to keep the other clauses meaningful
        attr = "_msg_buffer"
        buf = "self._msg_buffer"
    # ---- writers across the package
    writers = res.writers_of(attr)
    for q, nodes in sorted(writers.items()):
        for n in nodes:
            val = getattr(n, "value", None)
            if q.endswith(".__init__"):
                good = isinstance(val, ast.Constant) and val.value == b""
                ctx.instance(R1, f"{q}[initial buffer]", good, "the receive buffer does not start empty", loc(n))
            elif q == "AsyncFIXConnection.socket_read_task":
                kind = classify_write(n, buf, fn)
                good = kind in ("extend", "advance")
                ctx.instance(R1, f"socket_read_task[write:{kind if good else short(n, 50)}]", good,
                             f"`{short(n)}` is neither 'append the bytes just read' nor 'keep the suffix after the consumed length': "
                             "buffered bytes of an incomplete frame are dropped or reordered", loc(n),
                             sample={"rule": R1, "writer": q, "kind": kind, "line": n.lineno})
            else:
                # outside the reader: only an empty reset at a connection boundary is tolerated
                boundary = q.split(".")[-1] in ("connect", "disconnect", "_handle_accept")
                good = isinstance(val, ast.Constant) and val.value == b"" and boundary
                ctx.instance(R1, f"{q}[write outside the reader]", good,
                             f"`{short(n)}` in {q} rewrites the receive buffer outside the read loop (only an empty reset at a connection boundary - connect / disconnect - is "
                             "harmless): bytes that arrived behind the frame being processed are dropped", loc(n))
    ctx.floor(R1, 4)
    # ---- extension uses the bytes just read, appended at the end
    ext = [n for n in writers.get("AsyncFIXConnection.socket_read_task", []) if classify_write(n, buf, fn) == "extend"]
    adv = [n for n in writers.get("AsyncFIXConnection.socket_read_task", []) if classify_write(n, buf, fn) == "advance"]
    ctx.instance(R1, "socket_read_task[one append, one advance]", len(ext) >= 1 and len(adv) >= 1,
                 "the read loop lost its append or its advance of the receive buffer", loc(fn))
    if not ext or not adv:
        return
    dn = rv.decode_nodes[0]
    # ---- the advance covers every way from a decode to the next decode / leaving the inner loop
    a = g.nodes[dn].ast
    if not (isinstance(a, ast.Assign) and isinstance(a.targets[0], ast.Tuple) and len(a.targets[0].elts) == 3):
        raise AnalysisError("socket_read_task: the decode result is no longer unpacked into three names")
    len_n = unparse(a.targets[0].elts[1])
    msg_n = unparse(a.targets[0].elts[0])
    adv_nodes = [i for n in adv for i in g.ids_of(n)]
    skip_edges = set()
    for n in g.nodes:
        if n.kind == "test":
            for lab in ("true", "false"):
                fs = edge_facts(g, n.id, lab)
                # (the consumed length is never negative - C10.progress decides that of the decoder's returns - so "< 0" sides are dead)
                if (f"{len_n} > 0", False) in fs or (f"{len_n} == 0", True) in fs or (f"{len_n} <= 0", True) in fs \
                        or (f"{len_n} >= 0", False) in fs or (f"{len_n} > -1", False) in fs or (f"{len_n} < 0", True) in fs or (f"{len_n} <= -1", True) in fs:
                    skip_edges.add((n.id, lab))
    # targets: any node using the buffer or awaiting (the next decode, the next read, process_message)
    users = []
    for n in g.nodes:
        if n.id == dn or n.ast is None or n.kind == "handler":
            continue
        roots = [n.ast] if n.kind in ("stmt", "test") else []
        for r in roots:
            if any(isinstance(x, ast.Await) for x in walk_no_nested(r)) or n.id in rv.decode_nodes:
                users.append(n.id)
    bad = None
    for u in users + [dn]:
        # path decode -> u avoiding the advance and the 'nothing consumed' edges
        w = path_avoiding(g, dn, u, set(adv_nodes), skip_edges)
        if w:
            bad = (u, w)
            break
    ctx.instance(R1, "socket_read_task[advance before anything else happens]", bad is None,
                 "after a decode that consumed bytes the buffer is not advanced before the next await / decode: the same bytes are decoded twice "
                 "or a message is processed while its bytes are still buffered", loc(a), [repr(g.nodes[i]) for i in (bad[1] if bad else [])][-8:])
    # ---- re-invocation until no message: after processing a message control returns to the decode without a new read
    proc = [n.id for n in g.nodes if n.kind == "stmt" and any(isinstance(x, ast.Call) and unparse(x.func).endswith("_process_message")
                                                                for x in walk_no_nested(n.ast))]
    reads = [n.id for n in g.nodes if n.kind == "stmt" and any(isinstance(x, ast.Call) and unparse(x.func).endswith(".read")
                                                                 for x in walk_no_nested(n.ast))]
    if not proc or not reads:
        raise AnalysisError("socket_read_task: _process_message call or the socket read was not found")
    ok = all(g.reaches(p, dn, avoid=set(reads), exc=False) for p in proc)
    ctx.instance(R1, "socket_read_task[decode again after a message]", ok,
                 "after handing over a message the loop goes back to the socket read instead of decoding the rest of the buffer: a second frame "
                 "that arrived in the same read waits for more bytes", loc(g.nodes[proc[0]].ast))
    # after every append the decoder sees the buffer before the next read (only a disconnected state may skip it)
    ext_nodes = [i for n in ext for i in g.ids_of(n)]
    state_edges = set()
    for n in g.nodes:
        if n.kind == "test" and "_connection_state" in unparse(n.ast):
            state_edges |= {(n.id, "true"), (n.id, "false")}
    w = None
    for en in ext_nodes:
        for rd_n in reads:
            w = w or path_avoiding(g, en, rd_n, set(rv.decode_nodes), state_edges)
    ctx.instance(R1, "socket_read_task[every append is followed by a decode]", w is None,
                 "a path goes from appending a chunk back to the socket read without running the decoder on the buffer: a frame completed by that chunk "
                 "stays undelivered until some later read", loc(ext[0]), [repr(g.nodes[i]) for i in (w or [])][-8:])
    # the bytes read are the ones appended
    rd = g.nodes[reads[0]].ast
    read_name = unparse(rd.targets[0]) if isinstance(rd, ast.Assign) else None
    e = ext[0]
    if isinstance(e, ast.AugAssign):
        good = unparse(e.value) == read_name
    else:
        v = e.value
        good = isinstance(v, ast.BinOp) and unparse(v.left) == buf and unparse(v.right) == read_name
    ctx.instance(R1, "socket_read_task[append the bytes just read at the end]", good,
                 f"`{short(e)}` does not append the chunk `{read_name}` after the buffered bytes", loc(e))


def classify_write(n, buf, fn):
    if isinstance(n, ast.AugAssign) and isinstance(n.op, ast.Add) and unparse(n.target) == buf:
        return "extend"
    if isinstance(n, ast.Assign) and len(n.targets) == 1 and unparse(n.targets[0]) == buf:
        v = n.value
        if isinstance(v, ast.BinOp) and isinstance(v.op, ast.Add) and unparse(v.left) == buf:
            return "extend"
        if isinstance(v, ast.Subscript) and unparse(v.value) == buf and isinstance(v.slice, ast.Slice) and v.slice.lower is not None \
                and v.slice.upper is None and v.slice.step is None:
            return "advance"
    return "other"


def path_avoiding(g, src, dst, avoid_nodes, avoid_edges):
    prev = {src: None}
    todo = [src]
    while todo:
        nxt = []
        for n in todo:
            for d, lab in g.succs(n, False):
                if (n, lab) in avoid_edges or d in avoid_nodes:
                    continue
                if d == dst:
                    path = [d, n]
                    while prev[path[-1]] is not None:
                        path.append(prev[path[-1]])
                    return list(reversed(path))
                if d in prev:
                    continue
                prev[d] = n
                nxt.append(d)
        todo = nxt
    return None


# ------------------------------------------------------------------------------ rule 2
def consumed_contract(ctx, R2, dv):
    g, fn = dv.cfg, dv.fn
    start_name = None
    marker = None
    c, _r, lit = dv.start_search()
    p = getattr(c, "_parent", None)
    if isinstance(p, ast.Assign) and isinstance(p.targets[0], ast.Name):
        start_name = p.targets[0].id
        marker = lit
    marker_expr = unparse(c.args[0])
    if start_name is None:
        raise AnalysisError("decode: `start = buffer.find(marker)` not found")
    n_missing = 0
    from sa.decoder import delimited_flags
    flags = delimited_flags(dv)
    for r in dv.returns:
        cls = dv.length_class(r)
        if dv.is_message_return(r):
            ctx.instance(R2, "Codec.decode[message path]", cls == "FRAME",
                         f"the message-returning path reports `{short(r.ast.value.elts[1])}` ({cls}), not frame start + frame length", loc(r.ast))
            continue
        fs = set()
        for t, lab in g.guards(r.id, exc=False):
            fs |= facts(t, lab == "true")
        kind = None
        if (f"{start_name} == -1", True) in fs or (f"{start_name} < 0", True) in fs:
            kind = "no-marker"
        else:
            for atom, tv in fs:
                if tv and re.fullmatch(r"len\(\w+\) < \d+", atom):
                    kind = "too-few-fields"
                m = re.fullmatch(r"(.+) > (.+)", atom)
                if tv and m and f"len({dv.buf})" in m.group(2):
                    # only the innermost such test counts: the return must sit directly under it
                    kind = "frame-longer-than-buffer" if directly_under(g, r.id, atom, flags) else kind
        if kind is None:
            continue
        n_missing += 1
        delim = any((f, True) in fs for f in flags)
        open_ = any((f, False) in fs for f in flags)
        if kind != "no-marker" and delim:
            # the frame is all there (next frame or its own trailer seen): a malformed verdict, it consumes the frame
            ok = cls == "FRAME"
            ctx.instance(R2, f"Codec.decode[{kind}, frame delimited]", ok,
                         f"a delimited frame on the '{kind}' path reports `{short(r.ast.value.elts[1])}` ({cls}) instead of the frame's own extent", loc(r.ast),
                         sample={"rule": R2, "path": kind + "/delimited", "class": cls, "line": r.line})
            continue
        if kind == "no-marker":
            kt = kept_tail_ok(dv, r, marker, marker_expr) if cls == "ALL-BUT-TAIL" else False
            ok = kt is True or rfind_tail_ok(dv, r, marker)
            if not ok and kt is None:
                raise AnalysisError(f"decode: how the kept tail `{short(r.ast.value.elts[1])}` of the no-marker path is computed has a form this rule "
                                    "does not know (a descending scan over the marker's proper prefixes is expected)")
            what = ("with no complete marker in the buffer the decoder must keep the longest buffer suffix that is a proper prefix of the marker; "
                    f"it reports `{short(r.ast.value.elts[1])}`: a read ending inside the marker loses the head of the next frame")
        else:
            ok = cls == "KEEP"
            what = (f"the '{kind}' path is taken because data is still missing, but it reports `{short(r.ast.value.elts[1])}` ({cls}) instead of the "
                    "frame start: the bytes of the incomplete frame are consumed and the frame is lost when the rest arrives")
        ctx.instance(R2, f"Codec.decode[{kind}]", ok, what, loc(r.ast), sample={"rule": R2, "path": kind, "class": cls, "line": r.line})
    if n_missing < 3:
        raise AnalysisError(f"decode: only {n_missing} missing-data return paths recognised (no-marker, too-few-fields, frame-longer-than-buffer expected)")


def directly_under(g, rid, atom, ignore=()):
    """Is the return inside the branch of the test that carries ``atom`` with no other test between?"""
    best = None
    for t, lab in g.guards(rid, exc=False):
        if isinstance(t, ast.Name) and t.id in ignore:
            continue  # the 'frame is delimited' flag may refine the verdict below the test
        from sa.core import positions
        _pos = positions(g.fn) if hasattr(g, "fn") else {}
        if best is None or _pos.get(id(t), t.lineno) >= _pos.get(id(best[0]), best[0].lineno):
            best = (t, lab)
    return best is not None and (atom, True) in facts(best[0], best[1] == "true")


def rfind_tail_ok(dv, r, marker):
    """The same kept tail found by one search: consumed = h where h = buf.rfind(<first byte of the marker>, max(len(buf) - len(marker) + 1, 0))
    was found and `marker.startswith(buf[h:])`, else len(buf) - exact when the marker's first byte occurs in it only once (then the last
    occurrence of that byte in the last len(marker)-1 bytes is the only possible start of a marker head)."""
    if not isinstance(marker, (bytes, str)) or len(marker) < 2 or marker.count(marker[:1]) != 1:
        return False
    e = r.ast.value.elts[1]
    if not isinstance(e, ast.Name):
        return False
    g = dv.cfg
    dead = dv.infeasible_defs(r)
    defs = [d for d in dv.rd[r.id].get(e.id, set()) if d not in dead]
    seen_head = seen_all = False
    from sa.guards import resolved
    for d in defs:
        v = g.nodes[d].ast.value if isinstance(g.nodes[d].ast, ast.Assign) else None
        if v is None:
            return False
        if unparse(v) == f"len({dv.buf})":
            seen_all = True
            continue
        if not isinstance(v, ast.Name):
            return False
        h = v.id
        hd = [n for n in walk_no_nested(dv.fn) if isinstance(n, ast.Assign) and len(n.targets) == 1 and unparse(n.targets[0]) == h]
        if len(hd) != 1 or not (isinstance(hd[0].value, ast.Call) and unparse(hd[0].value.func) == f"{dv.buf}.rfind" and len(hd[0].value.args) == 2):
            return False
        needle, lo = hd[0].value.args
        nf = dv.fold_str(needle)
        if nf is None and isinstance(needle, ast.Subscript) and isinstance(needle.slice, ast.Slice) and needle.slice.lower is None \
                and isinstance(needle.slice.upper, ast.Constant) and needle.slice.upper.value == 1:
            base = dv.fold_str(needle.value)
            nf = base[:1] if base is not None else None
        if nf != marker[:1]:
            return False
        lo_t = unparse(resolved(dv.fn, lo)).replace(" ", "")
        k = len(marker)
        lo_ok = lo_t in (f"max(len({dv.buf})-len({marker!r})+1,0)", f"max(0,len({dv.buf})-len({marker!r})+1)", f"max(len({dv.buf})-{k - 1},0)",
                         f"max(0,len({dv.buf})-{k - 1})", f"max(len({dv.buf})-{k}+1,0)")
        if not lo_ok:
            return False
        fs = set()
        for t, lab in g.guards(d, exc=False):
            fs |= facts(t, lab == "true")
        found = (f"{h} != -1", True) in fs or (f"{h} == -1", False) in fs or (f"{h} >= 0", True) in fs
        prefix = any(tv and a.replace(" ", "") in (f"{marker!r}.startswith({dv.buf}[{h}:])",) for a, tv in fs)
        if not (found and prefix):
            return False
        seen_head = True
    return seen_head and seen_all


def kept_tail_ok(dv, r, marker, marker_expr):
    """`len(buf) - keep` with keep = the longest n in 1..len(marker)-1 such that buf ends with marker[:n].
    marker is the folded literal, or None when the marker is computed at run time (then the bound must be len(<marker expr>) - 1).

    True / False are verdicts; None says the computation of `keep` has a form this rule does not know (the caller reports an analysis error).
    For the known form - `for n in range(min(len(buf), H), lo, step): if buf.endswith(M[:n]): keep = n [; break]`, keep initialised to 0 - the
    verdict is computed from the parameters (H, lo, step, break or not, the borders of the literal M), not matched against one spelling of them:
    for every possible true answer k the candidates n that match are those with M[:n] a suffix of M[:k]; the loop's result must be k."""
    e = r.ast.value.elts[1]
    if not (isinstance(e, ast.BinOp) and isinstance(e.right, ast.Name)):
        return None
    keep = e.right.id
    fn = dv.fn
    defs = [v for v in derivation(fn, keep, 0).get(keep, [])]
    if defs and all(isinstance(v, ast.Constant) and v.value == 0 for v in defs):
        return False  # nothing is ever kept
    loops = [n for n in walk_no_nested(fn) if isinstance(n, ast.For) and any(
        isinstance(x, ast.Assign) and isinstance(x.targets[0], ast.Name) and x.targets[0].id == keep for x in walk_no_nested(n))]
    if len(loops) != 1:
        return None
    lp = loops[0]
    it = lp.iter
    if not (isinstance(it, ast.Call) and unparse(it.func) == "range" and 1 <= len(it.args) <= 3 and not it.keywords) or lp.orelse:
        return None
    if len(it.args) == 1:
        hi, lo, step = ast.Constant(0), it.args[0], ast.Constant(1)
    else:
        hi, lo, step = it.args[0], it.args[1], (it.args[2] if len(it.args) == 3 else ast.Constant(1))
    step_v = _const_int(step)
    if step_v is None or step_v == 0:
        return None
    var = unparse(lp.target)
    # the body: one `if <buf ends with M[:n]>: keep = n [; break]`
    if not (len(lp.body) == 1 and isinstance(lp.body[0], ast.If) and not lp.body[0].orelse):
        return None
    iff = lp.body[0]
    has_break = False
    for st in iff.body:
        if isinstance(st, ast.Break):
            has_break = True
        elif isinstance(st, ast.Continue) and st is iff.body[-1]:
            pass  # the end of the body anyway
        elif not (isinstance(st, ast.Assign) and unparse(st) == f"{keep} = {var}"):
            return None
    if not any(isinstance(st, ast.Assign) for st in iff.body):
        return None
    if not any(isinstance(v, ast.Constant) and v.value == 0 for v in defs):
        return None
    hi_t = unparse(hi)
    tst = unparse(iff.test)
    if marker is None:
        # a run-time marker: the bound has to follow its length, a constant cannot be right for every marker
        want = f"len({marker_expr}) - 1"
        if tst not in (f"{dv.buf}.endswith({marker_expr}[:{var}])", f"{marker_expr}[:{var}] == {dv.buf}[-{var}:]", f"{dv.buf}[-{var}:] == {marker_expr}[:{var}]"):
            return None
        return hi_t in (f"min(len({dv.buf}), {want})", f"min({want}, len({dv.buf}))") and step_v == -1 and _const_int(lo) == 0 and has_break
    lit = repr(marker)
    if tst not in (f"{dv.buf}.endswith({lit}[:{var}])", f"{lit}[:{var}] == {dv.buf}[-{var}:]", f"{dv.buf}[-{var}:] == {lit}[:{var}]"):
        return None
    slice_form = "endswith" not in tst  # buf[-n:] == M[:n]: for n == 0 it compares the whole buffer with b"" (false on a non-empty buffer)
    # the bounds: `min(len(buf), H)` (either order) plus / minus constants, or plain constants; evaluated for every buffer length L up to the
    # marker's (a bound that depends on the buffer length can lose the one candidate that is the whole short buffer)
    def bound(x):
        if isinstance(x, ast.Call) and unparse(x.func) == "min" and len(x.args) == 2 and not x.keywords:
            for a, b in ((x.args[0], x.args[1]), (x.args[1], x.args[0])):
                if unparse(a) == f"len({dv.buf})" and _const_int(b) is not None:
                    return (_const_int(b), 0)
            return None
        if isinstance(x, ast.BinOp) and isinstance(x.op, (ast.Add, ast.Sub)):
            l_, r_ = bound(x.left), bound(x.right)
            if l_ is None or r_ is None or (l_[0] is not None and r_[0] is not None) or (r_[0] is not None and isinstance(x.op, ast.Sub)):
                return None
            sign = 1 if isinstance(x.op, ast.Add) else -1
            return (l_[0] if l_[0] is not None else r_[0], l_[1] + sign * r_[1])
        c_ = _const_int(x)
        return None if c_ is None else (None, c_)
    bh, bl = bound(hi), bound(lo)
    if bh is None or bl is None:
        return None
    if slice_form and bh[0] is None and bl[0] is None:
        return None  # buf[-n:] with n beyond the buffer is the whole buffer: only the endswith form is indifferent to the bound
    L = len(marker)

    def at(b_, buflen):
        return (min(buflen, b_[0]) if b_[0] is not None else 0) + b_[1]
    for buflen in range(0, L + 2):
        cand = list(range(at(bh, buflen), at(bl, buflen), step_v))
        for k in range(0, min(buflen, L - 1) + 1):
            # the buffer's longest suffix that is a proper prefix of the marker has length k
            def matches(n):
                if n == 0:
                    return not slice_form
                m = marker[:n]  # Python's own slicing rule for negative / oversized n
                if len(m) >= L or len(m) > buflen:
                    return False  # the whole marker at the end is excluded (the search would have found it); more than the buffer holds
                if n < 0 and slice_form:
                    return None
                return len(m) <= k and marker[:k].endswith(m)
            res = 0
            for n in cand:
                mt = matches(n)
                if mt is None:
                    return None
                if mt:
                    res = n
                    if has_break:
                        break
            if res != k:
                return False
    return True


def _const_int(e):
    """Value of a constant integer expression: literals, len(<str/bytes literal>), + and -."""
    if isinstance(e, ast.Constant) and isinstance(e.value, int) and not isinstance(e.value, bool):
        return e.value
    if isinstance(e, ast.Call) and isinstance(e.func, ast.Name) and e.func.id == "len" and len(e.args) == 1 and isinstance(e.args[0], ast.Constant) \
            and isinstance(e.args[0].value, (str, bytes)):
        return len(e.args[0].value)
    if isinstance(e, ast.BinOp) and isinstance(e.op, (ast.Add, ast.Sub)):
        a, b = _const_int(e.left), _const_int(e.right)
        if a is None or b is None:
            return None
        return a + b if isinstance(e.op, ast.Add) else a - b
    if isinstance(e, ast.UnaryOp) and isinstance(e.op, ast.USub):
        a = _const_int(e.operand)
        return None if a is None else -a
    return None


# ------------------------------------------------------------------------------ rule 3
def incomplete_test(ctx, R3, dv):
    g = dv.cfg
    found = 0
    for n in g.nodes:
        if n.kind != "test":
            continue
        for x in ast.walk(n.ast):
            if isinstance(x, ast.Compare) and len(x.ops) == 1 and isinstance(x.ops[0], (ast.Gt, ast.GtE, ast.Lt, ast.LtE)):
                from sa.guards import resolved as _resolved
                # (an operand first put into a local that is assigned once is that expression)
                l, r = _resolved(dv.fn, x.left), _resolved(dv.fn, x.comparators[0])
                ls, rs = dv.sources(x.left, n.id), dv.sources(x.comparators[0], n.id)
                for a, b, asrc, bsrc in ((l, r, ls, rs), (r, l, rs, ls)):
                    if "BODYLEN" in asrc and f"len({dv.buf})" in unparse(b):
                        found += 1
                        # bytes available from the frame start: len(buf) - start   (or start added on the other side)
                        def start_term(e_):
                            # the frame start itself is one of the summands
                            terms_ = []

                            def flat_(y):
                                if isinstance(y, ast.BinOp) and isinstance(y.op, ast.Add):
                                    flat_(y.left)
                                    flat_(y.right)
                                else:
                                    terms_.append(y)
                            flat_(e_)
                            return len(terms_) > 1 and any(isinstance(y, ast.Name) and dv.sources(y, n.id) == {"START"} for y in terms_)
                        ok = ("START" in bsrc and isinstance(b, ast.BinOp) and isinstance(b.op, ast.Sub)) or \
                             ("START" in asrc and isinstance(a, ast.BinOp) and isinstance(a.op, ast.Add) and start_term(a))
                        ctx.instance(R3, "Codec.decode[incomplete-frame test]", ok,
                                     f"`{short(x)}` compares the frame length with the whole buffer, leading garbage included: after garbage a frame that "
                                     "is still a few bytes short looks complete, is parsed, fails and is consumed - lost when its last bytes arrive", loc(x))
                        # ... and the length it expects is exactly the frame's: BeginString field + BodyLength field + body + "10=xxx" + the three
                        # SOHs that close them (len(f[0]) + len(f[1]) + BodyLength + 9): one byte less and a frame still short of its last
                        # byte(s) passes as complete, fails its CheckSum and is consumed; one more and a complete frame waits for the next one.
                        # Judged only where both sides are sums of recognisable terms.
                        from sa.decoder import linear_forms
                        a_orig, b_orig = (x.left, x.comparators[0]) if a is l else (x.comparators[0], x.left)
                        strict = isinstance(x.ops[0], (ast.Gt, ast.Lt))
                        natural = isinstance(x.ops[0], (ast.Gt, ast.GtE)) == (a is l)
                        fa_, fb_ = linear_forms(dv, a_orig, n.id), linear_forms(dv, b_orig, n.id)
                        if natural and fa_ and fb_ and len(fa_) * len(fb_) <= 16:
                            for ta, ca in fa_:
                                for tb, cb in fb_:
                                    tot = dict(ta)
                                    for k_, v_ in tb.items():
                                        tot[k_] = tot.get(k_, 0) - v_
                                    tot = {k_: v_ for k_, v_ in tot.items() if v_}
                                    cst = ca - cb
                                    fields, rest_ok, nbody = {}, True, 0
                                    for k_, v_ in tot.items():
                                        m_ = re.fullmatch(r"len\((\w+)\[(-?\d+)\]\)", k_)
                                        if m_ and v_ == 1:
                                            fields[int(m_.group(2))] = fields.get(int(m_.group(2)), 0) + 1
                                        elif m_:
                                            fields[int(m_.group(2))] = v_
                                        elif re.fullmatch(r"int\(\w+\)", k_):
                                            nbody += v_
                                        elif k_ == f"len({dv.buf})":
                                            rest_ok = rest_ok and v_ == -1
                                        elif re.fullmatch(r"\w+@\d+", k_) or re.fullmatch(r"\w+", k_):
                                            rest_ok = rest_ok and v_ == 1  # the frame start, checked by the instance above
                                        else:
                                            rest_ok = None
                                            break
                                    if rest_ok is None or not rest_ok or f"len({dv.buf})" not in tot:
                                        continue
                                    want = 9 if strict else 8
                                    good = fields == {0: 1, 1: 1} and nbody == 1 and cst == want
                                    ctx.instance(R3, "Codec.decode[expected frame length = both header fields + BodyLength + trailer + 3 SOH]", good,
                                                 f"`{short(x)}` expects len(field 0..1) x {fields} + {nbody} x BodyLength + {cst} bytes from the frame start where the frame has "
                                                 f"len(f[0]) + len(f[1]) + BodyLength + {want}: the decoder takes a frame that is still short for complete (it fails its "
                                                 "CheckSum and is consumed - lost when the rest arrives) or keeps waiting behind a complete one", loc(x))
    if not found:
        raise AnalysisError("decode: the incomplete-frame comparison (BodyLength-derived length vs buffer length) was not found")
