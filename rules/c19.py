"""C19 - field value validation matches the FIX datatype lexical spaces.

The accepted language of each datatype is a composition of (a) the dispatch chain of
``SchemaField.validate_value``, (b) keyword-configured helper validators and (c) stdlib
acceptors (int / float / strptime) whose languages are wider than FIX's.  The checker folds
(a) and (b) from the AST and requires for (c) a lexical guard whose *regular language* is
included in the FIX lexical space (regex inclusion on re._parser ASTs, sa/regexlang.py).
"""
from __future__ import annotations

import ast
import re

from sa.cfg import CFG
from sa.core import AnalysisError, loc, short, unparse, walk_no_nested
from sa.guards import derivation, facts
from sa.regexlang import Lang, Unsupported, included

VALUE = "SchemaField.validate_value"
NUM = "SchemaField._validate_value_number"
DTM = "SchemaField._validate_value_datetime"
MY = "SchemaField._validate_value_monthyear"
STR = "SchemaField._validate_value_str"

INT_RE = r"-?[0-9]+"
FLOAT_RE = r"-?([0-9]+\.?[0-9]*|\.[0-9]+)"
FRAC = r"(\.[0-9]{1,6})?"   # the suite pins 1..6 fractional digits (FIX 4.4 itself: exactly 3)
CATALOGUE = {
    "INT": INT_RE, "SEQNUM": INT_RE, "NUMINGROUP": INT_RE, "DAYOFMONTH": INT_RE, "LENGTH": INT_RE,
    "FLOAT": FLOAT_RE, "QTY": FLOAT_RE, "PRICE": FLOAT_RE, "PRICEOFFSET": FLOAT_RE, "AMT": FLOAT_RE, "PERCENTAGE": FLOAT_RE,
    "LOCALMKTDATE": r"[0-9]{8}", "UTCDATEONLY": r"[0-9]{8}",
    "UTCTIMESTAMP": r"[0-9]{8}-[0-9]{2}:[0-9]{2}:[0-9]{2}" + FRAC,
    "UTCTIMEONLY": r"[0-9]{2}:[0-9]{2}:[0-9]{2}" + FRAC,
    "MONTHYEAR": r"[0-9]{6}|[0-9]{8}",
}
ALNUM = r"[A-Za-z0-9]"
WIDE = {"int", "float"}


def dispatch(fn):
    """Fold the if/elif chain on the upper-cased type name: [(names, body stmts, test node)] + else body."""
    chain = None
    tv = next((n.targets[0].id for n in walk_no_nested(fn) if isinstance(n, ast.Assign) and isinstance(n.targets[0], ast.Name)
               and re.fullmatch(r"self\.ftype\.upper\(\)", unparse(n.value))), None)
    if tv is None:
        raise AnalysisError("validate_value: the upper-cased datatype local was not found")
    pat = rf"{re.escape(tv)} (==|in) "
    for n in walk_no_nested(fn):
        if isinstance(n, ast.If) and re.match(pat, unparse(n.test)):
            par = getattr(n, "_parent", None)
            if isinstance(par, ast.If) and par.orelse == [n] and re.match(pat, unparse(par.test)):
                continue  # an elif link, not the head of the chain
            chain = n
            break
    if chain is None:
        raise AnalysisError("validate_value: the datatype dispatch chain was not found")
    out = []
    cur = chain
    other = []
    while True:
        t = cur.test
        names = None
        if isinstance(t, ast.Compare) and len(t.ops) == 1 and unparse(t.left) == tv:
            c = t.comparators[0]
            if isinstance(t.ops[0], ast.Eq) and isinstance(c, ast.Constant):
                names = [c.value]
            elif isinstance(t.ops[0], ast.In) and isinstance(c, (ast.Set, ast.List, ast.Tuple)) and all(isinstance(e, ast.Constant) for e in c.elts):
                names = [e.value for e in c.elts]
        if names is None:
            raise AnalysisError(f"validate_value: dispatch test `{short(t)}` does not fold to type names")
        out.append((names, cur.body, cur))
        if len(cur.orelse) == 1 and isinstance(cur.orelse[0], ast.If):
            cur = cur.orelse[0]
        else:
            other = cur.orelse
            break
    return out, other


def helper_call(body):
    """The single `err = SchemaField._helper(value, ...)` of a dispatch branch: (helper name, call) or (None, None)."""
    for st in body:
        if isinstance(st, ast.Assign) and isinstance(st.value, ast.Call):
            f = unparse(st.value.func)
            if f.startswith("SchemaField._validate_value_") or f.startswith("self._validate_value_"):
                return f.split(".")[-1], st.value
    return None, None


def kw(call, name, default=None):
    for k in call.keywords:
        if k.arg == name:
            try:
                return ast.literal_eval(k.value)
            except Exception:
                return unparse(k.value)
    return default


def run(ctx):
    repo = ctx.repo
    R1, R2, R3, R4, R5, R6 = ("C19.dispatch-exhaustive", "C19.lexical-guard", "C19.datatype-options", "C19.enumerations-exact",
                              "C19.rejection-type", "C19.special-case")
    ctx.rule(R1, "every datatype name that occurs in the bundled dictionaries has a dispatch branch (a name that falls through accepts every string)")
    ctx.rule(R2, "every accepting path through int()/float()/strptime passes a lexical guard on the same value whose regular language is included in the FIX lexical space "
                 "of every datatype routed to that helper")
    ctx.rule(R3, "per-datatype options: SeqNum/NumInGroup positive, DayOfMonth 1..31, float family finite, Char one character, Boolean {Y,N}, country/currency/exchange "
                 "bounded alphanumeric, Length not a no-op, String does not exclude characters FIX allows")
    ctx.rule(R4, "for an enumerated field the membership test in the values map is the only acceptance criterion")
    ctx.rule(R5, "helper verdicts are error strings raised as FIXMessageError at one site; the stdlib parses sit under handlers wide enough for their exceptions")
    ctx.rule(R6, "the EndSeqNo special case only clears an error, only for tag 16 and value '0'")
    ctx.assumptions += ["trusted catalogue: int() also accepts sign '+', '_', surrounding whitespace and non-ASCII digits; float() additionally exponents, inf/nan; "
                        "strptime accepts unpadded numeric parts", "FIX lexical spaces written once in the checker (CATALOGUE) from the FIX 4.4 datatype definitions; "
                        "1..6 fractional second digits tolerated because the suite pins them"]
    fn = repo.func(VALUE)
    chain, other = dispatch(fn)
    handled = {n for names, _b, _t in chain for n in names}

    # ------------------------------------------------------------------ rule 1
    census = {}
    for rel in ("tests/FIX44.xml", "tests/TT-FIX44.xml"):
        try:
            xml = repo.data_file(rel)
        except AnalysisError:
            continue
        for m in re.finditer(r"<field\b[^>]*\btype=['\"]([A-Za-z]+)['\"]", xml):
            census.setdefault(m.group(1).upper(), set()).add(rel)
    if len(census) < 15:
        raise AnalysisError(f"only {len(census)} datatype names found in the bundled dictionaries")
    for t in sorted(census):
        ctx.instance(R1, f"validate_value[{t}]", t in handled,
                     f"datatype {t} (used in {sorted(census[t])}) has no dispatch branch: it falls through to the 'unsupported' warning and every string is accepted", loc(fn))
    # a branch that accepts everything is a dispatch hole as well (DATA is free-form by definition)
    for names, body, tnode in chain:
        h, call = helper_call(body)
        if h is None:
            for nm in names:
                if nm == "DATA":
                    ctx.instance(R3, "validate_value[DATA free-form]", True)
                    continue
                ctx.instance(R3, f"validate_value[{nm} is a no-op branch]", False,
                             f"the {nm} branch performs no check at all: any string is accepted as a {nm} value", loc(tnode))

    # ------------------------------------------------------------------ rule 2
    routed = {}
    for names, body, tnode in chain:
        h, call = helper_call(body)
        if h:
            for nm in names:
                routed[nm] = (h, call)
    num_guard = number_guards(ctx, R2, repo)
    dt_guards = datetime_guards(ctx, R2, repo)
    for nm, (h, call) in sorted(routed.items()):
        if h == "_validate_value_number":
            nt = unparse(call.args[1]) if len(call.args) > 1 else "?"
            pat = num_guard.get(nt)
            check_inclusion(ctx, R2, f"{nm}[{nt}() guarded]", [pat] if pat else [], CATALOGUE.get(nm), loc(call),
                            f"{nt}() decides {nm} values")
        elif h == "_validate_value_datetime":
            fmt = ast.literal_eval(call.args[1]) if len(call.args) > 1 and isinstance(call.args[1], ast.Constant) else None
            pats = dt_guards(fmt) if fmt else []
            check_inclusion(ctx, R2, f"{nm}[strptime({fmt!r}) guarded]", pats, CATALOGUE.get(nm), loc(call), f"strptime({fmt!r}) decides {nm} values")
        elif h == "_validate_value_monthyear":
            monthyear(ctx, R2, repo, dt_guards)
    ctx.floor(R2, 12)

    # ------------------------------------------------------------------ rule 3
    def opt(nm):
        return routed.get(nm, (None, None))
    for nm in ("SEQNUM", "NUMINGROUP"):
        h, c = opt(nm)
        ok = h == "_validate_value_number" and unparse(c.args[1]) == "int" and kw(c, "no_zero") is True and kw(c, "no_negative") is True
        ctx.instance(R3, f"{nm}[positive integer]", ok, f"{nm} is not validated as a positive integer (no_zero / no_negative)", loc(c) if c else loc(fn))
    h, c = opt("DAYOFMONTH")
    ctx.instance(R3, "DAYOFMONTH[1..31]", h == "_validate_value_number" and kw(c, "num_range") == (1, 31), "DayOfMonth is not range-checked to 1..31", loc(c) if c else loc(fn))
    for nm in ("FLOAT", "QTY", "PRICE", "PRICEOFFSET", "AMT", "PERCENTAGE"):
        h, c = opt(nm)
        ok = h == "_validate_value_number" and unparse(c.args[1]) == "float"
        ctx.instance(R3, f"{nm}[decimal number]", ok, f"{nm} is not validated as a decimal number", loc(c) if c else loc(fn))
    h, c = opt("INT")
    ctx.instance(R3, "INT[signed integer]", h == "_validate_value_number" and unparse(c.args[1]) == "int" and not kw(c, "no_negative"),
                 "INT is not validated as a signed integer", loc(c) if c else loc(fn))
    h, c = opt("CHAR")
    ctx.instance(R3, "CHAR[one character]", h == "_validate_value_str" and kw(c, "max_len") == 1, "Char is not limited to one character", loc(c) if c else loc(fn))
    h, c = opt("BOOLEAN")
    ctx.instance(R3, "BOOLEAN[{Y,N}]", h == "_validate_value_str" and kw(c, "subset") == {"Y", "N"}, f"Boolean accepts {kw(c, 'subset') if c else '?'} instead of exactly Y / N",
                 loc(c) if c else loc(fn))
    for nm, n in (("COUNTRY", 2), ("CURRENCY", 3), ("EXCHANGE", 4)):
        h, c = opt(nm)
        ok = h == "_validate_value_str" and kw(c, "max_len") == n and kw(c, "alpha_num") is True
        ctx.instance(R3, f"{nm}[<= {n} alphanumeric characters]", ok, f"{nm} is not a bounded alphanumeric code (max_len={kw(c, 'max_len') if c else '?'})", loc(c) if c else loc(fn))
    string_helper(ctx, R3, repo)
    number_options(ctx, R3, repo)

    # ------------------------------------------------------------------ rule 4
    g = CFG(fn)
    # on the CFG: in the branch taken for a field with enumerators, acceptance (`return True`) happens exactly under `value in self.values`,
    # everything else there raises FIXMessageError, and no other test is consulted
    valn = fn.args.args[1].arg
    member = f"{valn} in self.values"
    allowed = {"self.values", member, f"{valn} not in self.values", f"isinstance({valn}, str)", f"not isinstance({valn}, str)", valn, f"not {valn}"}
    enum_nodes = []
    for n in g.nodes:
        if n.kind not in ("stmt", "test") or n.ast is None:
            continue
        fs = set()
        tests = []
        for t, lab in g.guards(n.id, exc=False):
            fs |= facts(t, lab == "true")
            tests.append(unparse(t))
        if ("self.values", True) in fs:
            enum_nodes.append((n, fs, tests))
    ok = bool(enum_nodes)
    n_ret = 0
    for n, fs, tests in enum_nodes:
        if n.kind == "stmt" and isinstance(n.ast, ast.Return):
            n_ret += 1
            ok = ok and unparse(n.ast.value) == "True" and ((member, True) in fs or (f"{valn} not in self.values", False) in fs)
        elif n.kind == "stmt" and isinstance(n.ast, ast.Raise):
            ok = ok and n.ast.exc is not None and "FIXMessageError" in unparse(n.ast.exc) and ((member, False) in fs or (f"{valn} not in self.values", True) in fs)
        elif n.kind == "test":
            ok = ok and unparse(n.ast) in allowed
        elif n.kind == "stmt" and not isinstance(n.ast, (ast.Pass, ast.Expr)):
            ok = False
        ok = ok and all(t in allowed for t in tests)
    ok = ok and n_ret >= 1
    ctx.instance(R4, "validate_value[enumerated field]", ok,
                 "for a field with enumerators acceptance is not exactly 'value in the enumerated values' (another test is consulted or a non-member passes)", loc(fn))

    # the enumerators are filled into a SchemaField that is fresh for this dictionary (an object shared between dictionaries accumulates the union of their enumerators)
    pfn = repo.func("FIXSchema._parse_field")
    from sa.guards import reaching_defs as _rd
    pg = CFG(pfn)
    rdm = _rd(pg, exc=False)
    vw = [n for n in pg.nodes if n.kind == "stmt" and isinstance(n.ast, ast.Assign) and isinstance(n.ast.targets[0], ast.Subscript) and unparse(n.ast.targets[0].value).endswith(".values")]
    okf = bool(vw)
    for n in vw:
        obj = unparse(n.ast.targets[0].value)[:-len(".values")]
        for d in rdm[n.id].get(obj, set()):
            v = getattr(pg.nodes[d].ast, "value", None)
            if not (isinstance(v, ast.Call) and unparse(v.func) == "SchemaField"):
                okf = False
    ctx.instance(R4, "_parse_field[enumerators written into a fresh SchemaField]", okf,
                 "the enumerators of a dictionary are written into a SchemaField that may come from somewhere else than a fresh constructor call (a cache shared between "
                 "dictionaries): a field then accepts the enumerators of every dictionary loaded in the process", loc(pfn))

    # ------------------------------------------------------------------ rule 5
    raises = [n for n in walk_no_nested(fn) if isinstance(n, ast.Raise)]
    ctx.instance(R5, "validate_value[raises only FIXMessageError]", bool(raises) and all(n.exc is not None and unparse(n.exc.func if isinstance(n.exc, ast.Call) else n.exc) == "FIXMessageError" for n in raises),
                 "validate_value raises something else than FIXMessageError", loc(fn))
    # the verdict local: what the per-datatype helpers' results are assigned to
    from collections import Counter
    tg = Counter(unparse(n.targets[0]) for n in walk_no_nested(fn) if isinstance(n, ast.Assign) and isinstance(n.targets[0], ast.Name)
                 and isinstance(n.value, ast.Call) and "_validate_value_" in unparse(n.value.func))
    errv = tg.most_common(1)[0][0] if tg else "err"
    def verdict_family(f):
        """the verdict local and the locals it is handed on to (plain copies, results of the special-case hook applied to it)"""
        fam = {errv}
        changed_ = True
        while changed_:
            changed_ = False
            for a_ in walk_no_nested(f):
                if isinstance(a_, ast.Assign) and len(a_.targets) == 1 and isinstance(a_.targets[0], ast.Name) and a_.targets[0].id not in fam:
                    v_ = a_.value
                    if (isinstance(v_, ast.Name) and v_.id in fam) or (isinstance(v_, ast.Call) and unparse(v_.func).endswith("_validate_special_cases")
                                                                         and any(isinstance(x_, ast.Name) and x_.id in fam for x_ in v_.args)):
                        fam.add(a_.targets[0].id)
                        changed_ = True
        return fam
    fam0 = verdict_family(fn)
    err_raise = [n for n in g.nodes if n.kind == "stmt" and isinstance(n.ast, ast.Raise) and any(tv and a in fam0 for t, lab in g.guards(n.id, exc=False) for a, tv in facts(t, lab == "true"))]
    ctx.instance(R5, "validate_value[error string => FIXMessageError]", len(err_raise) == 1, "a helper's error string is not turned into a FIXMessageError at exactly one site", loc(fn))
    asserts = [n for n in walk_no_nested(fn) if isinstance(n, ast.Assert)]
    ctx.instance(R5, "validate_value[no assert on the value]", not asserts, "validate_value asserts on the value: message data raises AssertionError", loc(asserts[0]) if asserts else loc(fn))
    for q, need in ((NUM, {"ValueError"}), (DTM, {"ValueError", "Exception"})):
        hf = repo.func(q)
        vp_ = hf.args.args[0].arg
        # (conversions of the message value itself; `float(v)` of the number already parsed is not a parse of message text)
        wide = [c for c in walk_no_nested(hf) if isinstance(c, ast.Call) and (unparse(c.func) in ("num_type", "int", "float") or unparse(c.func).endswith("strptime"))
                and c.args and any(isinstance(x_, ast.Name) and x_.id == vp_ for x_ in ast.walk(c.args[0]))]
        from rules.c10 import handler_catches
        ok = bool(wide) and all(handler_catches(c, hf, need) for c in wide)
        ctx.instance(R5, f"{q.split('.')[-1]}[stdlib parse under a handler]", ok, f"the stdlib parse in {q} is not enclosed by a handler for {sorted(need)}: a bad value escapes as a raw exception",
                     loc(wide[0]) if wide else loc(hf))
        rets = [n for n in walk_no_nested(hf) if isinstance(n, ast.Return) and n.value is not None and not (isinstance(n.value, ast.Constant) and n.value.value is None)]
        def _strish(v_, depth=0):
            if unparse(v_).startswith(("str(", "f'", "'", '"')) or isinstance(v_, ast.JoinedStr) or "_validate_value_datetime(" in unparse(v_):
                return True
            if isinstance(v_, ast.Constant) and v_.value is None:
                return True
            if isinstance(v_, ast.Name) and depth < 3:
                # a local that only ever holds None / an error text
                from sa.guards import derivation as _deriv
                vals_ = _deriv(hf, v_.id, 0).get(v_.id, [])
                return bool(vals_) and all(_strish(x_, depth + 1) for x_ in vals_)
            return False
        ok = all(_strish(n.value) for n in rets)
        ctx.instance(R5, f"{q.split('.')[-1]}[verdict is None or an error string]", ok, f"{q} returns something else than None / an error string", loc(hf))

    # ------------------------------------------------------------------ rule 6
    # analysed on validate_value with the special-case hook inlined (wherever its statements live today): every write of the
    # verdict that is not the datatype dispatch itself is `verdict = None` under tag == '16' and value == '0'
    from sa.normalize import inlined_copy
    hook = repo.functions.get("SchemaField._validate_special_cases")
    vfn, _rep = inlined_copy(fn, {"_validate_special_cases": hook}, "SchemaField")
    vg = CFG(vfn)
    fam6 = verdict_family(vfn)
    valp = fn.args.args[1].arg
    special, unknown = [], []
    for n in vg.nodes:
        if n.kind != "stmt" or not isinstance(n.ast, (ast.Assign, ast.AugAssign, ast.AnnAssign)):
            continue
        tgt = n.ast.targets[0] if isinstance(n.ast, ast.Assign) else n.ast.target
        if unparse(tgt) not in fam6:
            continue
        v = n.ast.value
        if isinstance(v, ast.Name) and v.id in fam6:
            continue  # the verdict handed on unchanged
        if isinstance(v, ast.Call) and "_validate_value_" in unparse(v.func):
            continue  # datatype dispatch
        fs = set()
        for t, lab in vg.guards(n.id, exc=False):
            fs |= facts(t, lab == "true")
        # inside the datatype dispatch chain: some test of the dispatch subject (either outcome: the final `else` of the chain has
        # only failed ones) guards it
        in_dispatch = any(re.fullmatch(r"\w+ (==|in) .+", a) and not a.startswith(("self.tag", valp + " ")) for a, tv in fs)
        before_dispatch = any(m.kind == "stmt" and isinstance(m.ast, ast.Assign) and unparse(m.ast.targets[0]) in fam6 and isinstance(m.ast.value, ast.Call)
                              and "_validate_value_" in unparse(m.ast.value.func) and vg.reaches(n.id, m.id, exc=False) for m in vg.nodes)
        if isinstance(v, ast.Constant) and v.value is None and (in_dispatch or before_dispatch):
            continue  # datatype with nothing to check / the initial value in front of the dispatch
        if isinstance(v, ast.Call):
            unknown.append(n)
            continue
        special.append((n, fs))
    ok = len(special) == 1 and not unknown
    if ok:
        n, fs = special[0]
        ok = isinstance(n.ast, ast.Assign) and unparse(n.ast.value) == "None" and ("self.tag == '16'", True) in fs and (f"{valp} == '0'", True) in fs
    ctx.instance(R6, "_validate_special_cases[only clears, only tag 16 value '0']", ok,
                 "the special case does more than clearing the error for EndSeqNo(16)='0': it widens (or narrows) another field's language", loc(hook or fn))
    # ... and it is applied after the dispatch: the clearing write is not followed by another dispatch write
    order_ok = bool(special) and all(not any(isinstance(m.ast, ast.Assign) and unparse(m.ast.targets[0]) in fam6 and isinstance(m.ast.value, ast.Call)
                                             and vg.reaches(n.id, m.id, exc=False) for m in vg.nodes if m.kind == "stmt" and m.id != n.id) for n, _ in special)
    raise_after = bool(special) and all(any(vg.reaches(n.id, r.id, exc=False) for r in vg.nodes if r.kind == "stmt" and isinstance(r.ast, ast.Raise)) for n, _ in special)
    ctx.instance(R6, "validate_value[special case applied to the helper verdict]", order_ok and raise_after and not unknown,
                 "the special-case hook is not applied exactly once to (value, err), after the datatype check and before the verdict is raised", loc(fn))


# -------------------------------------------------------------------------------- helpers
def check_inclusion(ctx, rule, name, guard_patterns, fix_pattern, where, what):
    if fix_pattern is None:
        ctx.instance(rule, name, False, f"no FIX lexical space is catalogued for this datatype ({what})", where)
        return
    if not guard_patterns or any(p is None for p in guard_patterns):
        ctx.instance(rule, name, False,
                     f"{what} with no lexical guard on every accepting path: the stdlib acceptor is wider than FIX (e.g. '1_0', ' 5', '+5', non-ASCII digits, "
                     "exponents, unpadded date parts are accepted)", where)
        return
    try:
        ok, w = included([Lang(p, ascii_only=a) for p, a in guard_patterns], Lang(fix_pattern))
    except Unsupported as exc:
        raise AnalysisError(f"regex inclusion: {exc}")
    ctx.instance(rule, name, ok, f"{what}; its lexical guard {[p for p, _ in guard_patterns]} admits {w!r}, which is outside the FIX lexical space /{fix_pattern}/", where,
                 sample={"rule": rule, "instance": name, "guard": [p for p, _ in guard_patterns], "fix": fix_pattern, "included": ok}, evals=50)


class Guard:
    """One lexical guard call, normalised: pattern expression, guarded value expression, flag texts, the real call node."""

    def __init__(self, call, pattern, value, flags, whole):
        self.call, self.pattern, self.value, self.flags, self.whole = call, pattern, value, flags, whole

    @property
    def ascii(self):
        return any("ASCII" in f for f in self.flags)


def module_compiled(fn):
    out = {}
    for st in getattr(fn, "_module").tree.body:
        if isinstance(st, ast.Assign) and isinstance(st.targets[0], ast.Name) and isinstance(st.value, ast.Call) and unparse(st.value.func) == "re.compile" and st.value.args:
            out[st.targets[0].id] = st.value
    return out


def guard_calls(fn):
    """re.fullmatch(P, V, flags) | <compiled>.fullmatch(V) | re.match / <compiled>.match (whole-string only when the pattern ends in \\Z).
    <compiled> is a module-level re.compile(...) name or a conditional expression over such names."""
    out = []
    for n in walk_no_nested(fn):
        if not isinstance(n, ast.Call) or not isinstance(n.func, ast.Attribute) or n.func.attr not in ("fullmatch", "match"):
            continue
        recv = n.func.value
        if unparse(recv) == "re" and len(n.args) >= 2:
            flags = [unparse(a) for a in n.args[2:]] + [unparse(k.value) for k in n.keywords]
            out.append(Guard(n, n.args[0], n.args[1], flags, n.func.attr == "fullmatch"))
        elif n.args:
            out.append(Guard(n, recv, n.args[0], [], n.func.attr == "fullmatch"))
    return out


def resolve_pattern(fn, expr, guard, compiled):
    """-> {'int': (pattern, ascii, whole), 'float': ...} or {'*': ...}; {} when the pattern does not fold."""
    def one(e, flags, whole):
        if isinstance(e, ast.Constant) and isinstance(e.value, str):
            pat = e.value
            if not whole:
                if not pat.endswith("\\Z"):
                    return None  # `$` / no end anchor: not a whole-string guard
                pat = pat[:-2]
            return (pat, any("ASCII" in f for f in flags))
        if isinstance(e, ast.Name) and e.id in compiled:
            c = compiled[e.id]
            fl = [unparse(a) for a in c.args[1:]] + [unparse(k.value) for k in c.keywords]
            return one(c.args[0], fl, whole)
        if isinstance(e, ast.Call) and unparse(e.func) == "re.compile" and e.args:
            fl = [unparse(a) for a in e.args[1:]] + [unparse(k.value) for k in e.keywords]
            return one(e.args[0], fl, whole)
        return None
    if isinstance(expr, ast.Subscript) and unparse(expr.slice) == "num_type":
        # a table {int: <pattern>, float: <pattern>} (class or module level, assigned once) looked up by the numeric type
        tname = unparse(expr.value).split(".")[-1]
        mod = getattr(fn, "_module").tree
        cands = [st for c in ast.walk(mod) if isinstance(c, (ast.Module, ast.ClassDef)) for st in c.body
                 if isinstance(st, ast.Assign) and len(st.targets) == 1 and isinstance(st.targets[0], ast.Name) and st.targets[0].id == tname]
        stores_ = [x for x in ast.walk(mod) if (isinstance(x, ast.Subscript) and isinstance(x.ctx, (ast.Store, ast.Del)) and unparse(x.value).split(".")[-1] == tname)
                   or (isinstance(x, ast.Attribute) and x.attr in ("update", "pop", "clear", "setdefault") and unparse(x.value).split(".")[-1] == tname)]
        if len(cands) == 1 and isinstance(cands[0].value, ast.Dict) and not stores_:
            out = {}
            for k_, v_ in zip(cands[0].value.keys, cands[0].value.values):
                if k_ is not None and unparse(k_) in ("int", "float"):
                    r_ = one(v_, guard.flags, guard.whole)
                    if r_:
                        out[unparse(k_)] = r_
            return out
        return {}
    if isinstance(expr, ast.IfExp) and re.fullmatch(r"num_type (is|==) (int|float)", unparse(expr.test)):
        which = unparse(expr.test).split()[-1]
        other = "float" if which == "int" else "int"
        a, b = one(expr.body, guard.flags, guard.whole), one(expr.orelse, guard.flags, guard.whole)
        return {k: v for k, v in ((which, a), (other, b)) if v}
    if isinstance(expr, ast.Name) and expr.id not in compiled:
        # a local chosen by the numeric type: `if num_type is int: P = ... else: P = ...`
        out = {}
        for n in walk_no_nested(fn):
            if isinstance(n, ast.If) and re.fullmatch(r"num_type (is|==) (int|float)", unparse(n.test)):
                which = unparse(n.test).split()[-1]
                other = "float" if which == "int" else "int"
                for branch, key in ((n.body, which), (n.orelse, other)):
                    for st in branch:
                        if isinstance(st, ast.Assign) and unparse(st.targets[0]) == expr.id:
                            v = one(st.value, guard.flags, guard.whole)
                            if v:
                                out[key] = v
        return out
    v = one(expr, guard.flags, guard.whole)
    return {"*": v} if v else {}


def protects(g, guard, accepts):
    """Is every accepting return dominated by the edge on which the guard call matched?"""
    tn = [n for n in g.nodes if n.kind == "test" and any(x is guard.call for x in ast.walk(n.ast))]
    if not tn:
        # the match object is first put into a local (`m = re.fullmatch(...)`; `if m:` / `if not m:` / `if m is None:`)
        holders = [n for n in g.nodes if n.kind == "stmt" and isinstance(n.ast, ast.Assign) and n.ast.value is guard.call
                   and len(n.ast.targets) == 1 and isinstance(n.ast.targets[0], ast.Name)]
        if len(holders) != 1:
            return False
        m = holders[0].ast.targets[0].id
        if sum(1 for n in g.nodes if n.kind == "stmt" and isinstance(n.ast, (ast.Assign, ast.AugAssign)) and m in
               [unparse(t) for t in (n.ast.targets if isinstance(n.ast, ast.Assign) else [n.ast.target])]) != 1:
            return False
        tm = [n for n in g.nodes if n.kind == "test" and any(isinstance(x, ast.Name) and x.id == m for x in ast.walk(n.ast)) and g.reaches(holders[0].id, n.id, exc=False)]
        if not tm:
            return False
        passing = {lab for lab in ("true", "false") if (m, True) in facts(tm[0].ast, lab == "true") or (f"{m} is not None", True) in facts(tm[0].ast, lab == "true")}
        return bool(passing) and all(any(g.dominated_by(a.id, tm[0].id, lab, exc=False) for lab in passing) for a in accepts)
    passing = {lab for lab in ("true", "false") if (unparse(guard.call), True) in facts(tn[0].ast, lab == "true")}
    return bool(passing) and all(any(g.dominated_by(a.id, tn[0].id, lab, exc=False) for lab in passing) for a in accepts)


def number_guards(ctx, rule, repo):
    """{'int': (pattern, ascii), 'float': (...)} for the number helper; a type is missing when no guard protects every accepting path."""
    fn = repo.func(NUM)
    g = CFG(fn)
    compiled = module_compiled(fn)
    accepts = [n for n in g.nodes if n.kind == "stmt" and isinstance(n.ast, ast.Return) and (n.ast.value is None or unparse(n.ast.value) == "None")]
    value = fn.args.args[0].arg
    out = {}
    for gd in guard_calls(fn):
        if unparse(gd.value) != value or not protects(g, gd, accepts):
            continue
        pats = resolve_pattern(fn, gd.pattern, gd, compiled)
        for k, v in pats.items():
            if k == "*":
                out.setdefault("int", v)
                out.setdefault("float", v)
            else:
                out[k] = v
    return out


def ascii_flag(call):
    return any("ASCII" in unparse(a) for a in call.args[2:]) or any("ASCII" in unparse(k.value) for k in call.keywords)


def fold_format_guard(fn, fmt_value):
    """Fold the pattern handed to re.fullmatch in the datetime helper for one concrete format string:
    pure string functions (re.escape, str.replace, re.sub, f-strings) on folded constants."""
    env = {"format": fmt_value}
    pat = None

    def ev(e):
        if isinstance(e, ast.Constant) and isinstance(e.value, str):
            return e.value
        if isinstance(e, ast.Name) and e.id in env:
            return env[e.id]
        if isinstance(e, ast.JoinedStr):
            parts = []
            for v in e.values:
                if isinstance(v, ast.Constant):
                    parts.append(v.value)
                elif isinstance(v, ast.FormattedValue):
                    x = ev(v.value)
                    if x is None:
                        return None
                    parts.append(x)
            return "".join(parts)
        if isinstance(e, ast.Call):
            f = unparse(e.func)
            if f == "re.escape" and len(e.args) == 1:
                x = ev(e.args[0])
                return None if x is None else re.escape(x)
            if f == "re.sub" and len(e.args) == 3:
                a, b, x = ev(e.args[0]), ev(e.args[1]), ev(e.args[2])
                return None if None in (a, b, x) else re.sub(a, b, x)
            if isinstance(e.func, ast.Attribute) and e.func.attr == "replace" and len(e.args) == 2:
                x, a, b = ev(e.func.value), ev(e.args[0]), ev(e.args[1])
                return None if None in (x, a, b) else x.replace(a, b)
        if isinstance(e, ast.BinOp) and isinstance(e.op, ast.Add):
            a, b = ev(e.left), ev(e.right)
            return None if None in (a, b) else a + b
        return None
    for st in fn.body:
        for n in walk_no_nested(st):
            if isinstance(n, ast.Assign) and isinstance(n.targets[0], ast.Name) and n.targets[0].id != "format":
                v = ev(n.value)
                if v is not None:
                    env[n.targets[0].id] = v
    for gd in guard_calls(fn):
        if gd.whole:
            pat = (ev(gd.pattern), gd.ascii, gd.call)
    return pat


def datetime_guards(ctx, rule, repo):
    fn = repo.func(DTM)
    g = CFG(fn)
    value = fn.args.args[0].arg
    accepts = [n for n in g.nodes if n.kind == "stmt" and isinstance(n.ast, ast.Return) and (n.ast.value is None or unparse(n.ast.value) == "None")]
    protected = any(unparse(gd.value) == value and gd.whole and protects(g, gd, accepts) for gd in guard_calls(fn))
    # the optional fractional-seconds extension of the format
    ext = None
    for n in walk_no_nested(fn):
        if isinstance(n, ast.If) and "'%S' in format" in unparse(n.test):
            for st in n.body:
                if isinstance(st, ast.Assign) and unparse(st.targets[0]) == "format" and isinstance(st.value, ast.JoinedStr):
                    ext = st.value

    def for_format(fmt):
        if not protected:
            return [None]
        variants = [fmt]
        if ext is not None and "%S" in fmt and "%f" not in fmt:
            tail = "".join(v.value for v in ext.values if isinstance(v, ast.Constant))
            variants.append(fmt + tail)
        out = []
        for v in variants:
            p = fold_format_guard(fn, v)
            out.append((p[0], p[1]) if p and p[0] is not None else None)
        return out
    # a whole-string match exists but is not on every accepting path / its pattern is not computed from the format by string functions
    # (e.g. looked up in a table keyed by the format): which language guards which format is then data, not visible here
    gcs = [gd for gd in guard_calls(fn) if gd.whole and unparse(gd.value) == value]
    if gcs and (not protected or any(fold_format_guard(fn, f_) is None or fold_format_guard(fn, f_)[0] is None for f_ in ("%Y%m%d",))):
        raise AnalysisError("_validate_value_datetime: its layout match does not fold to a pattern computed from the format (conditional or table-driven guard): "
                            "the language accepted per format is not visible")
    return for_format


def monthyear(ctx, rule, repo, dt_guards):
    """Path-wise: every accepting path of the MonthYear helper ends in the datetime helper, called on the whole value with a
    constant YYYYMM / YYYYMMDD layout, or on the value without its last two characters - and then those two characters were
    tested to be one of w1..w5 and the remainder to be six characters long, with the YYYYMM layout."""
    from sa.guards import _detach
    fn = repo.func(MY)
    g = CFG(fn)
    vparam = fn.args.args[0].arg
    rets = [n for n in g.nodes if n.kind == "stmt" and isinstance(n.ast, ast.Return)]
    fmts = set()
    ok_shape, ok_week = bool(rets), True
    n_week = 0
    why = ""
    for r in rets:
        for path in g.paths(g.entry, [r.id], exc=False, limit=2000):
            env = {}
            decisions = []

            def sub(e):
                class S(ast.NodeTransformer):
                    def visit_Name(self, node):
                        if isinstance(node.ctx, ast.Load) and node.id in env:
                            return _detach(env[node.id])
                        return node
                return S().visit(_detach(e))
            for a, b in zip(path, path[1:]):
                nd = g.nodes[a]
                if nd.kind == "stmt" and isinstance(nd.ast, ast.Assign) and len(nd.ast.targets) == 1 and isinstance(nd.ast.targets[0], ast.Name):
                    env[nd.ast.targets[0].id] = sub(nd.ast.value)
                elif nd.kind == "test":
                    lab = next((lb for d, lb in g.succs(a, exc=False) if d == b), None)
                    for atom, tv in facts(sub(nd.ast), lab == "true"):
                        decisions.append((atom, tv))
            v = r.ast.value
            if v is None or isinstance(v, (ast.Constant, ast.JoinedStr)) and not (isinstance(v, ast.Constant) and v.value is None):
                continue  # an error string: a rejecting path
            v = sub(v)
            if not (isinstance(v, ast.Call) and unparse(v.func).endswith("_validate_value_datetime") and len(v.args) == 2 and isinstance(v.args[1], ast.Constant)):
                ok_shape = False
                why = f"a path returns `{short(r.ast.value)}`"
                continue
            subject, fmt = unparse(v.args[0]), v.args[1].value
            fmts.add(fmt)
            if subject == vparam:
                if fmt not in ("%Y%m", "%Y%m%d"):
                    ok_shape = False
                    why = f"layout {fmt!r}"
            elif subject == f"{vparam}[:-2]":
                n_week += 1
                wk = f"{vparam}[-2:]"
                weeks_ok = any((tv and re.fullmatch(re.escape(wk) + r" in \{(.*)\}", a) and set(re.findall(r"'(\w+)'", a)) == {"w1", "w2", "w3", "w4", "w5"}) or
                               (not tv and re.fullmatch(re.escape(wk) + r" not in \{(.*)\}", a) and set(re.findall(r"'(\w+)'", a)) == {"w1", "w2", "w3", "w4", "w5"})
                               for a, tv in decisions)
                len_ok = (f"len({subject}) == 6", True) in decisions or (f"len({subject}) != 6", False) in decisions
                if not (weeks_ok and len_ok and fmt == "%Y%m"):
                    ok_week = False
            else:
                ok_shape = False
                why = f"the datetime helper is applied to `{subject}`"
    ctx.instance(rule, "MONTHYEAR[every accepting path ends in the datetime helper]", ok_shape,
                 f"a MonthYear value can be accepted without passing the datetime helper on the value (and its lexical guard): {why}", loc(fn))
    pats = []
    for f in sorted(fmts):
        pats += dt_guards(f)
    check_inclusion(ctx, rule, f"MONTHYEAR[strptime({sorted(fmts)}) guarded]", pats, CATALOGUE["MONTHYEAR"], loc(fn), "strptime decides MonthYear values")
    ctx.instance(rule, "MONTHYEAR[week code w1..w5 after YYYYMM]", ok_week and n_week >= 1,
                 "the week-code variant does not test the last two characters against exactly w1..w5 / does not pin the YYYYMM remainder to six characters "
                 "on every accepting path", loc(fn))


def string_helper(ctx, rule, repo):
    fn = repo.func(STR)
    src = unparse(fn)
    # alphanumeric class
    cls = None
    for c in walk_no_nested(fn):
        if isinstance(c, ast.Call) and unparse(c.func) in ("re.search", "re.match", "re.fullmatch") and c.args and isinstance(c.args[0], ast.Constant):
            cls = (c, c.args[0].value, ascii_flag(c))
    if cls is None:
        ctx.instance(rule, "_validate_value_str[alphanumeric class]", False, "no character-class test for alpha_num codes found", loc(fn))
    else:
        c, pat, asc = cls
        # the test *rejects* when the pattern is found: accepted characters = complement; compare one-character languages
        try:
            rejected = Lang(pat.rstrip("+*"), ascii_only=asc)
            bad = [ch for ch in ("_", "é", "٣", " ", "-") if not rejected.accepts(ch)]
            good = [ch for ch in ("A", "z", "5") if rejected.accepts(ch)]
        except Unsupported as exc:
            raise AnalysisError(f"alphanumeric class: {exc}")
        ctx.instance(rule, "_validate_value_str[alphanumeric = A-Z a-z 0-9]", not bad and not good and unparse(c.func) == "re.search",
                     f"the alphanumeric test /{pat}/ lets {bad} through (python's \\W is the complement of [a-zA-Z0-9_] plus every unicode letter/digit): "
                     "codes such as 'U_' or non-ASCII letters are accepted" if bad else f"the alphanumeric test rejects {good}", loc(c))
    # String must not exclude characters FIX allows
    excl = []
    for n in walk_no_nested(fn):
        if isinstance(n, ast.If) and isinstance(n.test, ast.Compare) and isinstance(n.test.ops[0], ast.In) and isinstance(n.test.left, ast.Constant) \
                and unparse(n.test.comparators[0]) == fn.args.args[0].arg:
            excl.append((n.test.left.value, n))
    for ch, n in excl:
        ok = ch == "\x01"
        ctx.instance(rule, f"_validate_value_str[excludes {ch!r}]", ok, f"String values containing {ch!r} are rejected although FIX String admits every character but the SOH delimiter", loc(n))
    ctx.instance(rule, "_validate_value_str[SOH excluded]", any(ch == "\x01" for ch, _ in excl), "a String value may contain the SOH delimiter", loc(fn))
    # max_len / subset tests present
    ctx.instance(rule, "_validate_value_str[length and subset tests]", "len(value) > max_len" in src and "value not in subset" in src, "the max_len / subset options are not enforced", loc(fn))


def number_options(ctx, rule, repo):
    fn = repo.func(NUM)
    g = CFG(fn)
    v = next((unparse(n.targets[0]) for n in walk_no_nested(fn) if isinstance(n, ast.Assign) and isinstance(n.targets[0], ast.Name)
              and isinstance(n.value, ast.Call) and unparse(n.value.func) in ("num_type", "int", "float")), "v")
    want = {"no_zero": [f"{v} == 0"], "no_negative": [f"{v} < 0"], "no_nonfinite": [f"isfinite(float({v}))"], "num_range": [f"{v} >= num_range[0]", f"{v} <= num_range[1]"]}
    alt = {"num_range": [[f"num_range[0] <= {v} <= num_range[1]"], [f"num_range[1] >= {v} >= num_range[0]"], [f"{v} < num_range[0]", f"{v} > num_range[1]"]]}
    for opt, needles in want.items():
        hit = False
        for n in g.nodes:
            # a rejecting exit: a raise (turned into the error text by the handler) or the error text returned directly
            rejecting = n.kind == "stmt" and (isinstance(n.ast, ast.Raise) or (isinstance(n.ast, ast.Return) and (
                isinstance(n.ast.value, ast.JoinedStr) or (isinstance(n.ast.value, ast.Constant) and isinstance(n.ast.value.value, str) and n.ast.value.value))))
            if rejecting:
                for t, lab in g.guards(n.id, exc=False):
                    if lab == "true" and (opt, True) in facts(t, True) and (all(nd in unparse(t) for nd in needles) or any(all(nd in unparse(t) for nd in a_) for a_ in alt.get(opt, []))):
                        hit = True
        ctx.instance(rule, f"_validate_value_number[{opt} enforced]", hit, f"the {opt} option is accepted by the helper but its test ({' / '.join(needles)}) does not reject", loc(fn))
