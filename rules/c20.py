"""C20 - the bundled test helper fabricates valid, consistent counterparty traffic.

Must-pass-through clauses on the message factories of ``FIXTester`` and structural clauses on
its simulated acceptor.  That every fabricated message does validate for all argument
combinations, and frame-for-frame equivalence with a real acceptor endpoint, are behaviour
that needs execution: NOT decided.
"""
from __future__ import annotations

import ast
import re

from sa.cfg import CFG
from sa.core import AnalysisError, loc, short, unparse, walk_no_nested
from sa.fold import Folder
from sa.guards import derivation, fact_edges, facts, unprotected_path
from sa.resolve import Resolver

T = "FIXTester"
FINISHED = {"FILLED", "CANCELED", "REJECTED", "EXPIRED"}


def _status_set(expr, subject_rx):
    """FOrdStatus members a test accepts for the subject: `s == FOrdStatus.A or s == FOrdStatus.B` and `s in (FOrdStatus.A, ...)` alike.
    `or` joins, `and` intersects (two different equalities on one subject accept nothing); a conjunct about something else makes the test
    narrower than any status set (nothing is promised), a disjunct about something else only widens it."""
    def rec(x):
        if isinstance(x, ast.BoolOp):
            parts = [rec(v) for v in x.values]
            if isinstance(x.op, ast.Or):
                out = set()
                for p_ in parts:
                    out |= p_ or set()
                return out
            if any(p_ is None for p_ in parts):
                return set()
            out = parts[0]
            for p_ in parts[1:]:
                out = out & p_
            return out
        if isinstance(x, ast.Compare) and len(x.ops) == 1 and re.fullmatch(subject_rx, unparse(x.left)):
            if isinstance(x.ops[0], ast.Eq) and isinstance(x.comparators[0], ast.Attribute) and unparse(x.comparators[0].value) == "FOrdStatus":
                return {x.comparators[0].attr}
            if isinstance(x.ops[0], ast.In):
                coll = x.comparators[0]
                if isinstance(coll, ast.Call) and coll.args and unparse(coll.func) in ("frozenset", "set", "tuple"):
                    coll = coll.args[0]
                if isinstance(coll, (ast.Tuple, ast.List, ast.Set)):
                    return {e.attr for e in coll.elts if isinstance(e, ast.Attribute) and unparse(e.value) == "FOrdStatus"}
        return None
    return rec(expr) or set()


def run(ctx):
    repo = ctx.repo
    res = Resolver(repo)
    fo = Folder(repo)
    R1, R2, R3, R4 = "C20.factory-validates", "C20.quantities-consistent", "C20.exec-and-order-ids", "C20.acceptor-is-the-engine"
    ctx.rule(R1, "every message factory passes self.schema.validate(<returned message>) (under `if self.schema`) on every path to its return, and writes no tag afterwards")
    ctx.rule(R2, "in fix_exec_report_msg the CumQty+LeavesQty<=OrderQty assertion and the finished=>LeavesQty==0 assertion lie on every path to the return, over the same "
                 "locals that were written to tags 14/151/38; the finished set equals FIXNewOrderSingle.is_finished's")
    ctx.rule(R3, "ExecID comes from _next_exec_id (sole writer, +1) exactly once per report; OrderID is the order's own id when set, else the one remembered for the order, "
                 "else a new one that is remembered")
    ctx.rule(R4, "the simulated acceptor is an AsyncFIXConnection with mirrored CompIDs and crosswise counters, fed only through _process_message; the helper has no session "
                 "logic of its own")
    ctx.assumptions += ["validity of each fabricated message for all argument values and fidelity to a real acceptor endpoint are not decided (need execution)"]

    factories = []
    for q, f in sorted(repo.functions.items()):
        if not q.startswith(T + "."):
            continue
        rets = [n for n in walk_no_nested(f) if isinstance(n, ast.Return) and n.value is not None]
        if not rets:
            continue
        names = {unparse(r.value) for r in rets if isinstance(r.value, ast.Name)}
        made = set()
        for n in walk_no_nested(f):
            if isinstance(n, ast.Assign) and isinstance(n.targets[0], ast.Name) and isinstance(n.value, ast.Call):
                fu = unparse(n.value.func)
                if fu == "FIXMessage" or fu.endswith(".cancel_req") or fu.endswith(".replace_req") or fu.endswith("_codec.decode"):
                    made.add(n.targets[0].id)
            if isinstance(n, ast.Assign) and isinstance(n.targets[0], ast.Tuple) and isinstance(n.value, ast.Call) and unparse(n.value.func).endswith("_codec.decode"):
                made |= {e.id for e in n.targets[0].elts if isinstance(e, ast.Name)}
        if names & made:
            factories.append((q, f, sorted(names & made)[0]))
    if len(factories) < 9:
        raise AnalysisError(f"only {len(factories)} message factories recognised in FIXTester")

    # ------------------------------------------------------------------ rule 1
    for q, f, ret in factories:
        g = CFG(f)
        vnodes = [n.id for n in g.nodes if n.kind == "stmt" and any(isinstance(c, ast.Call) and unparse(c.func) == "self.schema.validate" and c.args and unparse(c.args[0]) == ret
                                                                      for c in walk_no_nested(n.ast))]
        skip = fact_edges(g, {("self.schema", False)})
        rets = [n for n in g.nodes if n.kind == "stmt" and isinstance(n.ast, ast.Return)]
        w = None
        for r in rets:
            w = w or unprotected_path(g, r.id, [], skip, vnodes, exc=False)
        under_if = all(("self.schema", True) in _pf(g, v) for v in vnodes)
        ctx.instance(R1, f"{q}[validate({ret}) on every path]", bool(vnodes) and w is None and under_if,
                     f"{q} can return `{ret}` without having passed self.schema.validate({ret}) although a schema is configured: an invalid fabricated message goes unnoticed",
                     loc(f), g.describe(w or [])[-6:])
        # no tag written after the validation
        late = None
        for v in vnodes:
            for nid in g.reach([v], exc=False):
                a = g.nodes[nid].ast
                if a is None or g.nodes[nid].kind not in ("stmt",):
                    continue
                for x in walk_no_nested(a):
                    if isinstance(x, ast.Assign) and isinstance(x.targets[0], ast.Subscript) and unparse(x.targets[0].value) == ret:
                        late = x
                    if isinstance(x, ast.Call) and isinstance(x.func, ast.Attribute) and x.func.attr in ("set", "set_group", "add_group") and unparse(x.func.value) == ret:
                        late = x
                    if isinstance(x, ast.Call) and unparse(x.func) in ("order.set_instrument", "order.set_price_qty", "order.set_account") and x.args and unparse(x.args[0]) == ret:
                        late = x
        ctx.instance(R1, f"{q}[no tag written after validation]", late is None,
                     f"`{short(late) if late is not None else ''}` changes `{ret}` after it was validated: what is returned is not what was checked", loc(late) if late is not None else loc(f))
    # reply(): validate before encoding and after decoding
    rp = repo.func(f"{T}.reply")
    calls = [unparse(c.args[0]) for c in walk_no_nested(rp) if isinstance(c, ast.Call) and unparse(c.func) == "self.schema.validate" and c.args]
    ctx.instance(R1, "FIXTester.reply[validated before encoding and after decoding]", len(calls) == 2 and len(set(calls)) == 2,
                 f"reply() validates {calls}: the message is not checked both as given and as it arrives after the codec round trip", loc(rp))

    # ------------------------------------------------------------------ rule 2
    er = repo.func(f"{T}.fix_exec_report_msg")
    g = CFG(er)
    erm = next((r_ for q_, f_, r_ in factories if q_ == f"{T}.fix_exec_report_msg"), "m")
    ordp = er.args.args[1].arg
    rets = [n for n in g.nodes if n.kind == "stmt" and isinstance(n.ast, ast.Return)]
    asserts = [n for n in g.nodes if n.kind == "stmt" and isinstance(n.ast, ast.Assert)]
    tag_locals = {}
    for n in g.nodes:
        if n.kind == "stmt" and isinstance(n.ast, ast.Assign) and isinstance(n.ast.targets[0], ast.Subscript) and unparse(n.ast.targets[0].value) == erm:
            t = fo.tag(n.ast.targets[0].slice)
            if isinstance(n.ast.value, ast.Name):
                tag_locals[t] = (n.ast.value.id, n)
        if n.kind == "stmt":
            for c in walk_no_nested(n.ast):
                if isinstance(c, ast.Call) and unparse(c.func) == f"{ordp}.set_price_qty" and len(c.args) == 3:
                    sp = repo.func("FIXNewOrderSingle.set_price_qty")
                    ps = [a.arg for a in sp.args.args][1:]
                    amap = dict(zip(ps, c.args))
                    for hn in walk_no_nested(sp):
                        if isinstance(hn, ast.Assign) and isinstance(hn.targets[0], ast.Subscript):
                            a = amap.get(unparse(hn.value))
                            if isinstance(a, ast.Name):
                                tag_locals[fo.tag(hn.targets[0].slice)] = (a.id, n)
    cum, leaves, oq = (tag_locals.get(t, (None, None))[0] for t in ("14", "151", "38"))
    ctx.instance(R2, "fix_exec_report_msg[tags 14/151/38 from locals]", None not in (cum, leaves, oq),
                 f"tags 14/151/38 are not written from plain locals (found {cum}, {leaves}, {oq})", loc(er))
    sum_asserts = [n for n in asserts if cum and leaves and oq and re.fullmatch(rf"{cum} \+ {leaves} <= {oq}|{leaves} \+ {cum} <= {oq}", unparse(n.ast.test))]
    ok = bool(sum_asserts) and all(g.witness_path(g.entry, [r.id], avoid={n.id for n in sum_asserts}, exc=False) is None for r in rets)
    ctx.instance(R2, "fix_exec_report_msg[CumQty + LeavesQty <= OrderQty on every path]", ok,
                 "a path returns an execution report without the assertion CumQty + LeavesQty <= OrderQty over the reported quantities", loc(er))
    # the asserted locals are the reported ones: no redefinition between the tag write / the assert and the return
    for t, nm in (("14", cum), ("151", leaves), ("38", oq)):
        if nm is None:
            continue
        wnode = tag_locals[t][1]
        redefs = [n for n in g.nodes if n.kind == "stmt" and isinstance(n.ast, (ast.Assign, ast.AugAssign)) and nm in [unparse(x) for x in
                  (n.ast.targets if isinstance(n.ast, ast.Assign) else [n.ast.target])] and g.reaches(wnode.id, n.id, exc=False)]
        ctx.instance(R2, f"fix_exec_report_msg[{nm} not redefined after tag {t} was written]", not redefs,
                     f"`{nm}` is reassigned after it was written to tag {t}: the assertion checks a different value than the one reported", loc(redefs[0].ast) if redefs else loc(er))
    # finished => LeavesQty == 0
    fin_assert = [n for n in asserts if leaves and unparse(n.ast.test) == f"{leaves} == 0"]
    fset = set()
    ok = False
    for n in fin_assert:
        for t, lab in g.guards(n.id, exc=False):
            if lab == "true":
                fset |= _status_set(t, r"ord_status")
        ok = True
    isf = repo.func("FIXNewOrderSingle.is_finished")
    iset = set()
    for r_ in walk_no_nested(isf):
        if isinstance(r_, ast.Return) and r_.value is not None:
            iset |= _status_set(r_.value, r"self\.status")
    ctx.instance(R2, "fix_exec_report_msg[finished status => LeavesQty == 0]", ok and fset == iset == FINISHED,
                 f"the 'finished => LeavesQty == 0' assertion covers {sorted(fset)} while the order considers {sorted(iset)} finished", loc(er))
    if fin_assert:
        # on every path on which the status is finished the assertion is passed: the if-block is unconditional in the function body
        top = any(isinstance(s, ast.If) and any(x is fin_assert[0].ast for x in ast.walk(s)) for s in er.body)
        ctx.instance(R2, "fix_exec_report_msg[finished check on every path]", top, "the finished-status check is nested under another condition", loc(fin_assert[0].ast))

    # ------------------------------------------------------------------ rule 3
    ne = repo.func(f"{T}._next_exec_id")
    body = [unparse(s) for s in ne.body]
    ctx.instance(R3, "_next_exec_id[+1 then return]", body == ["self._exec_id += 1", "return self._exec_id"], f"_next_exec_id is {body}", loc(ne))
    w = res.writers_of("_exec_id")
    ctx.instance(R3, "_exec_id[writers]", sorted(w) == [f"{T}.__init__", f"{T}._next_exec_id"], f"_exec_id is written by {sorted(w)}: an ExecID can repeat", loc(ne))
    calls = [n for n in g.nodes if n.kind == "stmt" and any(isinstance(c, ast.Call) and unparse(c.func) == "self._next_exec_id" for c in walk_no_nested(n.ast))]
    once = len(calls) == 1 and not g.guards(calls[0].id, exc=False) and fo.tag(calls[0].ast.targets[0].slice) == "17" if calls and isinstance(calls[0].ast, ast.Assign) \
        and isinstance(calls[0].ast.targets[0], ast.Subscript) else False
    ctx.instance(R3, "fix_exec_report_msg[ExecID(17) := _next_exec_id() unconditionally, once]", bool(once),
                 "the report's ExecID is not drawn from _next_exec_id exactly once on every path", loc(er))
    # OrderID: wherever it is produced (inline or in a helper method), it is the order's own id, else the remembered one, else a new remembered one
    # analysed with the counter helper inlined, wherever the `+= 1` lives today (helper method or the producer itself)
    from sa.normalize import inlined_copy
    draw_helper = repo.functions.get(f"{T}._next_order_id")

    def _draws(f):
        return any((isinstance(c, ast.Call) and unparse(c.func) == "self._next_order_id") or
                   (isinstance(c, ast.AugAssign) and unparse(c.target) == "self._order_id") for c in walk_no_nested(f))
    prods = [(q, f) for q, f in sorted(repo.functions.items()) if q.startswith(T + ".") and not q.endswith("._next_order_id") and _draws(f)]
    if not prods:
        raise AnalysisError("no producer of OrderIDs found in FIXTester")
    ctx.instance(R3, "OrderID counter[one producer]", len(prods) == 1, f"OrderIDs are drawn at more than one place ({[q for q, _ in prods]}): nothing makes them agree per order", loc(prods[-1][1]))
    pq, pf0 = prods[0]
    pf, _ = inlined_copy(pf0, {"_next_order_id": draw_helper}, T)
    pgr = CFG(pf)
    ordn = next((a.arg for a in pf.args.args if a.arg not in ("self",) and any(unparse(x) == f"{a.arg}.order_id" for x in ast.walk(pf))), None)
    own = fresh = remembered = recorded = False
    keys = set()
    for n in pgr.nodes:
        if n.kind != "stmt":
            continue
        fs = _pf(pgr, n.id)
        txt = unparse(n.ast)
        val = getattr(n.ast, "value", None)
        vtxt = unparse(val) if val is not None else ""
        if ordn and vtxt == f"{ordn}.order_id" and ((f"{ordn}.order_id is not None", True) in fs or (f"{ordn}.order_id is None", False) in fs):
            own = True
        if isinstance(n.ast, ast.AugAssign) and unparse(n.ast.target) == "self._order_id":
            plus_one = isinstance(n.ast.op, ast.Add) and unparse(n.ast.value) == "1"
            in_new = any(tv and re.fullmatch(r".+ not in self\._order_ids", a) for a, tv in fs)
            own_none = (f"{ordn}.order_id is None", True) in fs or (f"{ordn}.order_id is not None", False) in fs or any(
                isinstance(r.ast, ast.Return) and unparse(r.ast.value) == f"{ordn}.order_id" and pgr.reaches(pgr.entry, n.id, avoid={r.id}, exc=False)
                for r in pgr.nodes if r.kind == "stmt" and isinstance(r.ast, ast.Return))
            fresh = in_new and own_none and plus_one
            # recorded: the drawn id (the counter itself, or a local holding it) goes into the memo afterwards
            holders = {"self._order_id"} | {m.ast.targets[0].id for m in pgr.nodes if m.kind == "stmt" and isinstance(m.ast, ast.Assign)
                                            and isinstance(m.ast.targets[0], ast.Name) and unparse(m.ast.value) == "self._order_id" and pgr.reaches(n.id, m.id, exc=False)}
            recorded = any(m.kind == "stmt" and isinstance(m.ast, ast.Assign) and any("self._order_ids[" in unparse(t) for t in m.ast.targets) and unparse(m.ast.value) in holders
                           and pgr.reaches(n.id, m.id, exc=False) for m in pgr.nodes)
        if "self._order_ids[" in vtxt or "self._order_ids.get(" in vtxt:
            remembered = True
    for x in ast.walk(pf):
        if isinstance(x, ast.Subscript) and unparse(x.value) == "self._order_ids":
            keys.add(unparse(x.slice))
        if isinstance(x, ast.Compare) and len(x.ops) == 1 and isinstance(x.ops[0], (ast.In, ast.NotIn)) and unparse(x.comparators[0]) == "self._order_ids":
            keys.add(unparse(x.left))
    ctx.instance(R3, f"{pq.split('.')[-1]}[OrderID: own id, else remembered, else new and remembered]", own and fresh and remembered and recorded,
                 "OrderID is not stable per order: a new id is drawn while the order has not yet processed an earlier report and nothing remembers the first one "
                 f"(own={own}, new={fresh}, looked up={remembered}, recorded={recorded})", loc(pf0))
    for k in sorted(keys):
        m = re.fullmatch(rf"{ordn}\.(\w+)", k) if ordn else None
        stable = False
        if m:
            attr = m.group(1)
            writers = [q for q in res.writers_of(attr) if q.startswith("FIXNewOrderSingle.") and not q.endswith(".__init__")]
            prop = repo.functions.get(f"FIXNewOrderSingle.{attr}")
            stable = ("self.clord_root(" in unparse(prop)) if prop is not None else not writers
        ctx.instance(R3, f"{pq.split('.')[-1]}[OrderID memo key {k}]", stable and len(keys) == 1,
                     f"the OrderID remembered for an order is keyed by `{k}`, which changes during the order's life (every request draws a new ClOrdID): the same order gets a "
                     "second OrderID after its ClOrdID moved on", loc(pf))
    # every fabricated message that carries an OrderID takes it from that producer (or is the producer)
    for q, f, ret in factories:
        for n in walk_no_nested(f):
            if isinstance(n, ast.Assign) and isinstance(n.targets[0], ast.Subscript) and unparse(n.targets[0].value) == ret and fo.tag(n.targets[0].slice) == "37":
                v = unparse(n.value)
                pat = rf"self\.{pq.split('.')[-1]}\(\w+\)( if \w+ is not None else 0)?"
                okv = pq == q or re.fullmatch(pat, v) is not None
                if not okv and isinstance(n.value, ast.Name) and pq != q:
                    # through a local: every value it can hold is the producer's result for the order, or 0 where no order is registered
                    dd = [x.value for x in walk_no_nested(f) if isinstance(x, ast.Assign) and len(x.targets) == 1 and unparse(x.targets[0]) == n.value.id]
                    okv = bool(dd) and all(re.fullmatch(pat, unparse(d)) is not None or (isinstance(d, ast.Constant) and d.value == 0) for d in dd) \
                        and any(re.fullmatch(pat, unparse(d)) for d in dd)
                if pq == q:
                    okv = isinstance(n.value, ast.Name)
                ctx.instance(R3, f"{q.split('.')[-1]}[OrderID(37) from the per-order record]", okv,
                             f"{q} writes OrderID(37) from `{short(n.value)}`: the helper's messages for one order do not agree on its OrderID", loc(n))
    if draw_helper is not None:
        ctx.instance(R3, "_next_order_id[+1 then return]", [unparse(s) for s in draw_helper.body if not (isinstance(s, ast.Expr) and isinstance(s.value, ast.Constant))]
                     == ["self._order_id += 1", "return self._order_id"], "the OrderID counter is not a plain +1", loc(draw_helper))
    wr = [(q, n) for q, f in repo.functions.items() if q.startswith(T + ".") and not q.endswith(".__init__") for n in walk_no_nested(f)
          if isinstance(n, (ast.Assign, ast.AugAssign)) and "self._order_id" in [unparse(t) for t in (n.targets if isinstance(n, ast.Assign) else [n.target])]]
    ctx.instance(R3, "OrderID counter[only ever incremented by one]", bool(wr) and all(isinstance(n, ast.AugAssign) and isinstance(n.op, ast.Add) and unparse(n.value) == "1" for _, n in wr),
                 "the OrderID counter is written by something else than `+= 1`: ids can repeat", loc(wr[0][1]) if wr else loc(pf0))

    # ------------------------------------------------------------------ rule 4
    init = repo.func(f"{T}.__init__")
    ctor = [c for c in walk_no_nested(init) if isinstance(c, ast.Call) and unparse(c.func) == "AsyncFIXConnection"]
    # by role, whatever locals the constructor goes through: I = the initiator connection, SI = its session, A = the acceptor
    asg = [n for n in walk_no_nested(init) if isinstance(n, ast.Assign) and len(n.targets) == 1]
    conn_param = next((a.arg for a in init.args.args if a.arg not in ("self", "schema")), "connection")
    I = {conn_param} | {unparse(n.targets[0]) for n in asg if unparse(n.value) == conn_param}
    SI = {f"{i}._session" for i in I} | {unparse(n.targets[0]) for n in asg if unparse(n.value) in {f"{i}._session" for i in I}}
    A = {unparse(n.targets[0]) for n in asg if isinstance(n.value, ast.Call) and unparse(n.value.func) == "AsyncFIXConnection"}
    changed = True
    while changed:
        changed = False
        for n in asg:
            if unparse(n.value) in A and unparse(n.targets[0]) not in A:
                A.add(unparse(n.targets[0]))
                changed = True
    ok = False
    if len(ctor) == 1:
        kws = {k.arg: unparse(k.value) for k in ctor[0].keywords}
        ok = kws.get("target_comp_id", "") in {f"{s_}.sender_comp_id" for s_ in SI} and kws.get("sender_comp_id", "") in {f"{s_}.target_comp_id" for s_ in SI}
    ctx.instance(R4, "FIXTester.__init__[acceptor = AsyncFIXConnection with mirrored CompIDs]", ok,
                 "the simulated acceptor is not the library's own connection class constructed with the initiator's CompIDs swapped", loc(init))
    src = [(unparse(s_.targets[0]), unparse(s_.value)) for s_ in asg]
    # a tuple assignment `x.a, x.b = (p, q)` gives each target its own value
    for s_ in asg:
        if isinstance(s_.targets[0], ast.Tuple) and isinstance(s_.value, ast.Tuple) and len(s_.targets[0].elts) == len(s_.value.elts):
            src += [(unparse(t_), unparse(v_)) for t_, v_ in zip(s_.targets[0].elts, s_.value.elts)]
    # SA = the acceptor's session, under whatever local
    SA = {f"{a}._session" for a in A} | {unparse(n.targets[0]) for n in asg if unparse(n.value) in {f"{a}._session" for a in A}}

    def crosswise(dst, srcattr):
        return any(t in {f"{sa}.{dst}" for sa in SA} and v in {f"{s_}.{srcattr}" for s_ in SI} for t, v in src)
    writes = [t for t, v in src if any(t == f"{sa}.{c}" for sa in SA for c in ("next_num_out", "next_num_in"))]
    cross = crosswise("next_num_out", "next_num_in") and crosswise("next_num_in", "next_num_out") and len(writes) == 2
    ctx.instance(R4, "FIXTester.__init__[counters initialised crosswise]", cross, "the acceptor's counters are not initialised crosswise from the initiator's", loc(init))
    # fed only through _process_message; no session logic of its own
    feeds = []
    own_logic = []
    for q, f in sorted(repo.functions.items()):
        if not q.startswith(T + "."):
            continue
        for n in walk_no_nested(f):
            if isinstance(n, ast.Call) and unparse(n.func).startswith("self.conn_accept.") and not unparse(n.func).startswith(("self.conn_accept._codec.", "self.conn_accept._socket_writer")):
                feeds.append((q, unparse(n.func)))
            if isinstance(n, ast.Compare) and "msg_type" in unparse(n.left) and re.search(r"FMsg\.(LOGON|LOGOUT|HEARTBEAT|TESTREQUEST|RESENDREQUEST|SEQUENCERESET)", unparse(n)):
                own_logic.append((q, n))
    ok = bool(feeds) and all(fn_ == "self.conn_accept._process_message" for _q, fn_ in feeds)
    ctx.instance(R4, "FIXTester[acceptor driven only through _process_message]", ok, f"the helper drives its acceptor through {sorted(set(fn_ for _q, fn_ in feeds))}", loc(init))
    ctx.instance(R4, "FIXTester[no session-message branching of its own]", not own_logic,
                 f"{own_logic[0][0] if own_logic else ''} branches on a session message type: the helper re-implements session handling instead of sharing the engine",
                 loc(own_logic[0][1]) if own_logic else loc(init))
    # the initiator's frames reach the acceptor as the bytes that were written
    wi = repo.func(f"{T}._conn_socket_write_initiator")
    dparam = wi.args.args[1].arg
    dec_local = next((unparse(n.targets[0].elts[0]) for n in walk_no_nested(wi) if isinstance(n, ast.Assign) and isinstance(n.targets[0], ast.Tuple)
                      and f"_codec.decode({dparam}, silent=False)" in unparse(n.value)), None)
    ok = dec_local is not None and f"self.acceptor_rcv_que.append(({dec_local}, {dparam}))" in [unparse(s) for s in walk_no_nested(wi) if isinstance(s, ast.Expr)]
    ctx.instance(R4, "_conn_socket_write_initiator[queues the decoded message with its bytes]", ok, "the initiator's frame is not queued as (decoded message, written bytes)", loc(wi))
    pa = repo.func(f"{T}.process_msg_acceptor")
    # every pop of the queue takes the head unless the caller named an index, and what it took goes to the acceptor's
    # _process_message (on the CFG: the form of the loop / the place of the `index` test is free)
    pg = CFG(pa)
    pdom = pg.dominators(exc=False)
    iparam = next((a.arg for a in pa.args.args[1:]), "index")
    pops = []
    for n in pg.nodes:
        if n.kind == "stmt" and isinstance(n.ast, ast.Assign) and isinstance(n.ast.value, ast.Call) and isinstance(n.ast.value.func, ast.Attribute) \
                and n.ast.value.func.attr == "pop" and "acceptor_rcv_que" in unparse(n.ast.value.func.value):
            pops.append(n)
    ok = bool(pops)
    default_served = False
    for n in pops:
        fs_ = set()
        for t_, lab_ in pg.guards(n.id, exc=False):
            fs_ |= facts(t_, lab_ == "true")
        named = (f"{iparam} is None", False) in fs_ or (f"{iparam} is not None", True) in fs_
        a_ = n.ast.value.args[0] if n.ast.value.args else None
        if a_ is None:
            arg_ok = False  # pop() takes the newest
        elif isinstance(a_, ast.Constant):
            arg_ok = a_.value == 0
        elif isinstance(a_, ast.IfExp):
            arg_ok = unparse(a_) in (f"0 if {iparam} is None else {iparam}", f"{iparam} if {iparam} is not None else 0")
        elif isinstance(a_, ast.Name) and a_.id == iparam:
            arg_ok = named
        elif isinstance(a_, ast.Name):
            # a local: each definition that reaches the pop is 0, the conditional form, or the caller's index where an index was named
            from sa.guards import reaching_defs as _rdefs
            prd = _rdefs(pg, exc=False)
            ds = prd.get(n.id, {}).get(a_.id, set())
            arg_ok = bool(ds)
            for d in ds:
                v = getattr(pg.nodes[d].ast, "value", None)
                fd = set()
                for t_, lab_ in pg.guards(d, exc=False):
                    fd |= facts(t_, lab_ == "true")
                d_named = (f"{iparam} is None", False) in fd or (f"{iparam} is not None", True) in fd
                if isinstance(v, ast.Constant) and v.value == 0:
                    continue
                if isinstance(v, ast.IfExp) and unparse(v) in (f"0 if {iparam} is None else {iparam}", f"{iparam} if {iparam} is not None else 0"):
                    continue
                if isinstance(v, ast.Name) and v.id == iparam and d_named:
                    continue
                arg_ok = False
        else:
            arg_ok = False
        if not named:
            default_served = True
        tg = n.ast.targets[0]
        pair = [unparse(e) for e in tg.elts] if isinstance(tg, ast.Tuple) and len(tg.elts) == 2 else None
        handed = pair is not None and any(
            m.kind == "stmt" and f"await self.conn_accept._process_message({pair[0]}, {pair[1]})" in unparse(m.ast) and n.id in pdom.get(m.id, set())
            and not isinstance(m.ast, (ast.If, ast.While, ast.For)) for m in pg.nodes if m.ast is not None)
        ok = ok and arg_ok and handed
    ok = ok and default_served
    ctx.instance(R4, "process_msg_acceptor[FIFO hand-over]", ok, "queued frames are not handed to the acceptor in the order they were sent", loc(pa))


def _pf(g, nid):
    fs = set()
    for t, lab in g.guards(nid, exc=False):
        fs |= facts(t, lab == "true")
    return fs
