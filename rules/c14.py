"""C14 - concurrent senders never corrupt the outbound sequence: atomicity clauses.

asyncio switches tasks only at ``await``; "all schedules" is therefore "all placements of
other tasks' atomic sections at this code's suspension points".  The suspension points
(direct awaits of external awaitables and hooks, transitive ones through resolved
callees) are known statically.
"""
from __future__ import annotations

import ast

from sa.cfg import CFG
from sa.core import AnalysisError, loc, short, unparse, walk_no_nested
from sa.resolve import Resolver
from sa.sendpath import SendPath

RESEND = "AsyncFIXConnection._process_resend"


def lock_guarded(node, fn):
    """Is the node inside ``async with self.<lock>`` ?  Returns the lock expression text."""
    p = getattr(node, "_parent", None)
    while p is not None and p is not fn:
        if isinstance(p, ast.AsyncWith):
            for it in p.items:
                t = unparse(it.context_expr)
                if "lock" in t.lower():
                    return t
        p = getattr(p, "_parent", None)
    return None


def run(ctx):
    repo = ctx.repo
    res = Resolver(repo)
    sp = SendPath(repo, res)
    g = sp.cfg
    ctx.rule("C14.allocate-write-atomic", "no suspension point lies between the allocation (inside Codec.encode) and the transport write / journal write in send_msg")
    ctx.rule("C14.await-in-rewind-window", "no suspension point while next_num_out holds a temporary (rewound) value, unless window and send section share one asyncio.Lock")
    ctx.rule("C14.save-rewind-atomic", "the value restored after a replay is read from next_num_out with no suspension point before the rewind starts")
    ctx.rule("C14.task-local-frame", "the bytes journaled and written are a task-local value of that task's own encode (no shared attribute carries the frame across an await)")
    ctx.rule("C14.encode-synchronous", "Codec.encode / allocate_next_num_out / persist_msg contain no suspension point")
    ctx.assumptions += ["asyncio runs one task at a time and switches only at await (trusted)",
                        "application hooks are suspension points and may run arbitrary other tasks"]

    # ---- rule 1
    enc = sp.encode_nodes[0]
    for label, targets in (("write", sp.write_nodes), ("persist_msg", sp.persist_nodes)):
        between = g.reach([enc], avoid=targets, exc=False, include_src=True)
        can_reach = {n for n in between if any(g.reaches(n, t, exc=False) or n == t for t in targets)}
        bad = []
        for n in sorted(can_reach):
            node = g.nodes[n]
            if node.ast is None or node.kind == "handler":
                continue
            astn = node.ast if node.kind in ("stmt", "test") else (node.ast.iter if node.kind == "for" else None)
            if astn is None:
                if node.kind == "with" and isinstance(node.ast, ast.AsyncWith):
                    bad.append(n)
                continue
            if n == enc:
                # the await (if any) wrapping the encode statement itself: encode is synchronous, checked below
                aw = [a for a in walk_no_nested(astn) if isinstance(a, ast.Await)]
                if any(res.await_suspends(a, sp.fn) for a in aw):
                    bad.append(n)
                continue
            if res.node_suspends(astn, sp.fn):
                bad.append(n)
        lock = lock_guarded(sp.encode_calls[0], sp.fn)
        ok = not bad
        ctx.instance("C14.allocate-write-atomic", f"send_msg[encode..{label}]", ok,
                     f"suspension point between sequence-number allocation and {label}: another task's send can take the next number and "
                     f"reach the wire/journal first ({[repr(g.nodes[b]) for b in bad][:2]})", loc(g.nodes[bad[0]].ast) if bad else loc(sp.fn),
                     [repr(g.nodes[b]) for b in bad], sample={"rule": "C14.allocate-write-atomic", "section": label,
                                                              "nodes_in_section": len(can_reach), "suspending": len(bad), "lock": lock})
    for q in ("Codec.encode", "FIXSession.allocate_next_num_out", "Journaler.persist_msg", "Codec._addTag"):
        fn = repo.func(q)
        is_async = isinstance(fn, ast.AsyncFunctionDef)
        ctx.instance("C14.encode-synchronous", q, not is_async and not res.suspends(q),
                     f"{q} became a coroutine / contains a suspension point: numbering is no longer atomic with the write", loc(fn))

    # ---- rule 2: rewind window in _process_resend
    rf = repo.func(RESEND)
    rg = CFG(rf)
    # writers of next_num_out inside the function: direct stores or journaler.set_seq_num(next_num_out=...)
    rewinds, restores = [], []
    saved = None
    for n in walk_no_nested(rf):
        if isinstance(n, ast.Assign) and len(n.targets) == 1 and isinstance(n.targets[0], ast.Name) \
                and unparse(n.value).endswith(".next_num_out"):
            saved = n.targets[0].id
    if saved is None:
        raise AnalysisError("_process_resend: the local that saves next_num_out was not found")
    for n in rg.nodes:
        if n.kind != "stmt":
            continue
        val = None
        for c in walk_no_nested(n.ast):
            if isinstance(c, ast.Call) and isinstance(c.func, ast.Attribute) and c.func.attr == "set_seq_num":
                for kw in c.keywords:
                    if kw.arg == "next_num_out":
                        val = kw.value
                if val is None and len(c.args) > 1:
                    val = c.args[1]
        if isinstance(n.ast, ast.Assign) and any(isinstance(t, ast.Attribute) and t.attr == "next_num_out" for t in n.ast.targets):
            val = n.ast.value
        if val is None:
            continue
        if isinstance(val, ast.Name) and val.id == saved:
            restores.append(n.id)
        else:
            rewinds.append(n.id)
    if not rewinds:
        ctx.instance("C14.await-in-rewind-window", "_process_resend[no rewind]", True, "", loc(rf))
    else:
        if not restores:
            ctx.instance("C14.await-in-rewind-window", "_process_resend[rewound counter never restored]", False,
                         "next_num_out is rewound and no write restores exactly the saved value: every later send runs inside the rewind window", loc(rf))
        window = rg.reach(rewinds, avoid=restores, exc=True)
        send_lock = lock_guarded(sp.encode_calls[0], sp.fn)
        seen = set()
        for nid in sorted(window):
            node = rg.nodes[nid]
            if node.ast is None or node.kind == "handler":
                continue
            astn = node.ast if node.kind in ("stmt", "test") else (node.ast.iter if node.kind == "for" else None)
            if astn is None:
                continue
            for aw in [a for a in walk_no_nested(astn) if isinstance(a, ast.Await)]:
                if not res.await_suspends(aw, rf):
                    continue
                key = short(aw.value.func if isinstance(aw.value, ast.Call) else aw.value, 60)
                if key in seen:
                    continue
                seen.add(key)
                lk = lock_guarded(aw, rf)
                ok = lk is not None and lk == send_lock
                ctx.instance("C14.await-in-rewind-window", f"_process_resend[await {key}]", ok,
                             f"`await {key}(...)` suspends while next_num_out holds the rewound value: a concurrent send_msg takes a number "
                             "that is being replayed (duplicate MsgSeqNum on the wire, DuplicateSeqNoError in the journal)", loc(aw))
    # ---- rule 2b: the saved value is current when the rewind starts (no suspension between save and rewind)
    from sa.rewind import Rewind
    rw = Rewind(repo)
    if rw.rewinds:
        g2 = rw.cfg
        between = g2.reach(rw.save_nodes, avoid=rw.rewinds, exc=False, include_src=False)
        can = {n for n in between if any(g2.reaches(n, t, exc=False) for t in rw.rewinds)}
        bad = []
        for nid in sorted(can):
            node = g2.nodes[nid]
            if node.ast is None or node.kind == "handler":
                continue
            astn = node.ast if node.kind in ("stmt", "test") else (node.ast.iter if node.kind == "for" else None)
            if astn is not None and res.node_suspends(astn, rw.fn):
                bad.append(nid)
        # and every path to the rewind passes the save (a save taken on an earlier, different path is stale as well)
        dom_ok = all(not g2.reaches(g2.entry, t, avoid=set(rw.save_nodes), exc=False) for t in rw.rewinds)
        ctx.instance("C14.save-rewind-atomic", "_process_resend[save..rewind]", not bad and dom_ok,
                     "a suspension point lies between saving next_num_out and rewinding it: a message sent by another task during that await "
                     "advances the counter, the stale saved value is restored at the end and the next new message re-uses a MsgSeqNum already on the wire "
                     f"({[repr(g2.nodes[b]) for b in bad][:2]})", loc(g2.nodes[bad[0]].ast) if bad else loc(rw.fn), [repr(g2.nodes[b]) for b in bad])
    # restore happens before control can return to the event loop's other tasks *after* the window:
    # every path from the last restore to the function exit is checked by C06 (bracket); here only the window.

    # ---- rule 4: task-local frame
    w_arg = sp.write_calls[0].args[0] if sp.write_calls[0].args else None
    p_arg = sp.persist_calls[0].args[0] if sp.persist_calls[0].args else None
    for label, a in (("write", w_arg), ("persist_msg", p_arg)):
        ok = isinstance(a, ast.Name)
        ctx.instance("C14.task-local-frame", f"send_msg[{label} arg]", ok,
                     f"{label}() receives `{short(a) if a is not None else '?'}`, not a task-local variable: a concurrent sender can replace the frame across an await",
                     loc(sp.write_calls[0]))
