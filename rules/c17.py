"""C17 - an order object converges to the exchange's view (typestate / provenance clauses).

Convergence of quantities after arbitrary races is arithmetic over report values: NOT decided.
Decided: status provenance, the ClOrdID pair typestate against the folded transition tables
(finite, exhaustive), gate => builder succeeds, fresh ids on one root, anchored root regex,
one outstanding request, report fields absorbed.
"""
from __future__ import annotations

import ast
import re

from sa.cfg import CFG
from sa.core import AnalysisError, loc, positions, short, unparse, walk_no_nested
from sa.fold import Folder
from sa.guards import derivation, expand_atom, facts
from sa.regexlang import Lang, Unsupported, included
from sa.resolve import Resolver

CLS = "FIXNewOrderSingle"
PENDING = ("PENDING_CANCEL", "PENDING_REPLACE")


def path_facts(g, nid):
    fs = set()
    for t, lab in g.guards(nid, exc=False):
        fs |= facts(t, lab == "true")
    return fs


def _root_of(fn, e, subject="self.clord_id"):
    """Does expression e (in fn) denote the ClOrdID root of `subject`?  The property / the class function applied to it, or a
    local every definition of which is group 1 of RE_CLORD_ROOT matched on the subject (where it matched) / the subject itself
    (where it did not)."""
    t = unparse(e)
    if subject == "self.clord_id" and t == "self.clord_id_root":
        return True
    if re.fullmatch(r"(self|cls|type\(self\)|FIXNewOrderSingle)\.clord_root\(" + re.escape(subject) + r"\)", t):
        return True
    if not isinstance(e, ast.Name):
        return False
    g = CFG(fn)
    defs = [n for n in g.nodes if n.kind == "stmt" and isinstance(n.ast, ast.Assign) and len(n.ast.targets) == 1 and unparse(n.ast.targets[0]) == e.id]
    matchers = {unparse(n.targets[0]) for n in walk_no_nested(fn) if isinstance(n, ast.Assign) and isinstance(n.targets[0], ast.Name)
                and unparse(n.value) in (f"RE_CLORD_ROOT.match({subject})", f"RE_CLORD_ROOT.fullmatch({subject})")}
    if not defs or not matchers:
        return False
    for n in defs:
        fs = set()
        for tt, lab in g.guards(n.id, exc=False):
            fs |= facts(tt, lab == "true")
        v = unparse(n.ast.value)
        if any(v in (f"{m}[1]", f"{m}.group(1)") and (m, True) in fs for m in matchers):
            continue
        if v == subject and any((m, False) in fs for m in matchers):
            continue
        return False
    return True


def _clord_next_semantic(cn):
    """increment the per-order counter by one first, then return f"{<root of self.clord_id>}--{<counter>}"; nothing else with an effect."""
    body = [s_ for s_ in cn.body if not (isinstance(s_, ast.Expr) and isinstance(s_.value, ast.Constant))]
    if not body or unparse(body[0]) != "self._clord_id_cnt += 1":
        return False
    rets = [n for n in walk_no_nested(cn) if isinstance(n, ast.Return)]
    if len(rets) != 1 or not isinstance(rets[0].value, ast.JoinedStr):
        return False
    parts = rets[0].value.values
    if not (len(parts) == 3 and isinstance(parts[0], ast.FormattedValue) and isinstance(parts[1], ast.Constant) and parts[1].value == "--"
            and isinstance(parts[2], ast.FormattedValue) and unparse(parts[2].value) == "self._clord_id_cnt"
            and parts[0].conversion == -1 and parts[0].format_spec is None and parts[2].conversion == -1 and parts[2].format_spec is None):
        return False
    for n in walk_no_nested(cn):
        if isinstance(n, (ast.Assign, ast.AugAssign)) and n is not body[0]:
            tg = n.targets if isinstance(n, ast.Assign) else [n.target]
            if not all(isinstance(t_, ast.Name) or (isinstance(t_, ast.Tuple) and all(isinstance(e_, ast.Name) for e_ in t_.elts)) for t_ in tg):
                return False
        if isinstance(n, ast.Call) and not unparse(n.func).startswith(("RE_CLORD_ROOT.", "self.clord_root", "cls.clord_root")) and not unparse(n.func).endswith(".group"):
            return False
        if isinstance(n, (ast.Await, ast.Delete, ast.Raise, ast.For, ast.While, ast.Try, ast.With)):
            return False
    return _root_of(cn, parts[0].value)


def run(ctx):
    repo = ctx.repo
    res = Resolver(repo)
    fo = Folder(repo)
    R1, R2, R3, R4, R5, R6, R7 = ("C17.status-provenance", "C17.idpair-typestate", "C17.gate-implies-success", "C17.fresh-ids", "C17.root-regex",
                                  "C17.one-outstanding", "C17.report-absorbed")
    ctx.rule(R1, "every assignment to self.status is an FOrdStatus member, an FOrdStatus(...) conversion, or a local defined only by such")
    ctx.rule(R2, "whenever a report moves the status out of PENDING_CANCEL / PENDING_REPLACE to a status in which the request gate permits a request, the ClOrdID pair "
                 "is back to idle (orig_clord_id None) and, for a reject, clord_id is the id still live at the exchange - evaluated over the folded tables")
    ctx.rule(R3, "between the can_* gate and the return of a request builder the only failures are the documented FIXError and the idle-pair assert; each tag of the fresh "
                 "message is written at most once")
    ctx.rule(R4, "clord_next is the only producer of ids (increments by 1 before formatting, on the current root); builders save the live id before drawing a new one and "
                 "write 11 from the new and 41 from the saved id")
    ctx.rule(R5, "the root-extraction regex matches the whole id: anchored at both ends without MULTILINE, greedy root, digits-only counter, '.' covers every character")
    ctx.rule(R6, "each builder leaves the order in its PENDING status on every returning path and the gate refuses PENDING statuses")
    ctx.rule(R7, "the execution-report handler assigns leaves_qty/cum_qty/avg_px/order_id from tags 151/14/6/37 and price/qty from 44/38 on REPLACED; the ClOrdID admission "
                 "test compares tag 11 with both ids")
    ctx.assumptions += ["convergence of quantities / prices with an exchange after arbitrary interleavings is not decided",
                        "set_instrument / set_account / set_price_qty are analysed as written here (subclasses may override them)"]

    # ------------------------------------------------------------------ rule 1
    n1 = 0
    for q, f in sorted(repo.functions.items()):
        if not q.startswith(CLS + "."):
            continue
        for n in walk_no_nested(f):
            tgt = val = None
            if isinstance(n, ast.Assign) and len(n.targets) == 1:
                tgt, val = n.targets[0], n.value
            elif isinstance(n, ast.AnnAssign) and n.value is not None:
                tgt, val = n.target, n.value
            if tgt is None or unparse(tgt) != "self.status":
                continue
            n1 += 1
            ok = enum_valued(val, f)
            ctx.instance(R1, f"{q}[self.status = {short(val, 40)}]", ok,
                         f"`{short(n)}` stores a value that is not an FOrdStatus member (a raw tag string from the message / the unconverted result of change_status): "
                         "status stops being an enum member (.name, identity tests and table lookups by member break)", loc(n))
    ctx.floor(R1, 5)

    # ------------------------------------------------------------------ rule 2
    typestate(ctx, R2, repo, fo)

    # ------------------------------------------------------------------ rules 3, 4, 6 on the builders
    builders = {"cancel_req": ("can_cancel", "PENDING_CANCEL", "ORDERCANCELREQUEST"), "replace_req": ("can_replace", "PENDING_REPLACE", "ORDERCANCELREPLACEREQUEST")}
    for b, (gate, pending, mtype) in builders.items():
        fn = repo.func(f"{CLS}.{b}")
        g = CFG(fn)
        # gate first
        first = fn.body[1] if isinstance(fn.body[0], ast.Expr) and isinstance(fn.body[0].value, ast.Constant) else fn.body[0]
        ok = isinstance(first, ast.If) and unparse(first.test) == f"not self.{gate}()" and any(isinstance(s, ast.Raise) and "FIXError" in unparse(s) for s in first.body)
        ctx.instance(R3, f"{b}[gate first]", ok, f"{b} does not start with `if not self.{gate}(): raise FIXError`", loc(fn))
        # failures after the gate
        for n in walk_no_nested(fn):
            if n is first or any(n is x for x in ast.walk(first)):
                continue
            if isinstance(n, ast.Raise):
                okr = "FIXError" in unparse(n) and "no price / qty change" in unparse(n)
                if okr:
                    # 'nothing changed' is decided by exact equality with the order's current price and quantity (a tolerance would refuse real changes)
                    gfs = path_facts(g, g.ids_of(n)[0])
                    exact = {a for a, tv in gfs if tv and re.fullmatch(r"\w+ == self\.(price|qty)", a)}
                    calls_in_guard = any(isinstance(x, ast.Call) for t_, lab_ in g.guards(g.ids_of(n)[0], exc=False) if lab_ == "true" and "self.price" in unparse(t_) for x in ast.walk(t_))
                    okr = len(exact) == 2 and not calls_in_guard
                ctx.instance(R3, f"{b}[raise {short(n.exc, 40)}]", okr, f"`{short(n)}`: an undocumented failure after the gate said the request is permitted", loc(n))
            if isinstance(n, ast.Assert):
                oka = unparse(n.test) == "not self.orig_clord_id"
                ctx.instance(R3, f"{b}[assert {short(n.test, 40)}]", oka, f"`{short(n)}`: an assertion other than the idle-pair invariant can fail after the gate permitted the request", loc(n))
        # a requested value is replaced by the current one only when it is absent, not finite, zero or *exactly* equal (no tolerance: a small real change must go out)
        for n in walk_no_nested(fn):
            if isinstance(n, ast.If) and len(n.body) == 1 and isinstance(n.body[0], ast.Assign) and re.fullmatch(r"(\w+) = self\.\1", unparse(n.body[0])):
                var = unparse(n.body[0].targets[0])
                atoms = n.test.values if isinstance(n.test, ast.BoolOp) and isinstance(n.test.op, ast.Or) else [n.test]
                allowed = {f"{var} is None", f"not isfinite({var})", f"{var} == self.{var}", f"{var} == 0", f"not math.isfinite({var})"}
                extra = [unparse(a) for a in atoms if unparse(a) not in allowed]
                ctx.instance(R3, f"{b}[{var} kept only when absent / not finite / equal]", not extra,
                             f"{b} drops the requested {var} when `{extra[0] if extra else ''}`: a real change within that tolerance is silently not sent, or the request is refused "
                             "with 'no price / qty change' although can_replace() is True and the values differ", loc(n))
        # tags written at most once (helpers inlined)
        tags = []
        msgvar = None
        for n in walk_no_nested(fn):
            if isinstance(n, ast.Assign) and isinstance(n.value, ast.Call) and unparse(n.value.func) == "FIXMessage":
                msgvar = unparse(n.targets[0])
                ok = unparse(n.value.args[0]) == f"FMsg.{mtype}" and len(n.value.args) == 1
                ctx.instance(R3, f"{b}[fresh {mtype} message]", ok, f"{b} does not build a fresh FMsg.{mtype} message", loc(n))
        if msgvar is None:
            raise AnalysisError(f"{b}: message construction not found")
        for n in walk_no_nested(fn):
            if isinstance(n, ast.Assign) and isinstance(n.targets[0], ast.Subscript) and unparse(n.targets[0].value) == msgvar:
                tags.append((fo.tag(n.targets[0].slice), n.value, n))
            if isinstance(n, ast.Call) and unparse(n.func) in ("self.set_instrument", "self.set_account", "self.set_price_qty") and unparse(n.args[0]) == msgvar:
                h = repo.func(f"{CLS}.{unparse(n.func)[5:]}")
                hp = [a.arg for a in h.args.args][1:]
                amap = {p: a for p, a in zip(hp, n.args)}
                for hn in walk_no_nested(h):
                    if isinstance(hn, ast.Assign) and isinstance(hn.targets[0], ast.Subscript) and unparse(hn.targets[0].value) == hp[0]:
                        v = amap.get(unparse(hn.value), hn.value)
                        tags.append((fo.tag(hn.targets[0].slice), v, hn))
        seen = {}
        for t, v, n in tags:
            seen.setdefault(t, []).append(n)
        dup = {t: ns for t, ns in seen.items() if len(ns) > 1}
        ctx.instance(R3, f"{b}[each tag written once]", not dup and None not in seen,
                     f"tag(s) {sorted(k for k in dup if k)} are written twice into the fresh message: DuplicatedTagError although the gate permitted the request", loc(fn))
        # rule 4: save, draw, write 11/41
        seq = [unparse(s) for s in fn.body]
        try:
            i_save = seq.index("self.orig_clord_id = self.clord_id")
            i_new = seq.index("self.clord_id = self.clord_next()")
        except ValueError:
            i_save = i_new = -1
        ctx.instance(R4, f"{b}[live id saved before the new one is drawn]", 0 <= i_save < i_new,
                     f"{b} does not save the id that is live at the exchange into orig_clord_id before drawing the new ClOrdID", loc(fn))
        t11 = [unparse(v) for t, v, n in tags if t == "11"]
        t41 = [unparse(v) for t, v, n in tags if t == "41"]
        ctx.instance(R4, f"{b}[11 := new id, 41 := live id]", t11 == ["self.clord_id"] and t41 == ["self.orig_clord_id"],
                     f"{b} writes ClOrdID(11) from {t11} and OrigClOrdID(41) from {t41}", loc(fn))
        _pos = positions(fn)
        order_ok = all(_pos[id(n)] > _pos[id(fn.body[i_new])] for t, v, n in tags if t in ("11", "41") and n in list(walk_no_nested(fn))) if i_new >= 0 else False
        ctx.instance(R4, f"{b}[ids written after the pair was advanced]", order_ok, f"{b} writes tag 11/41 before the pair (clord_id, orig_clord_id) was advanced", loc(fn))
        # rule 6
        rets = [n for n in g.nodes if n.kind == "stmt" and isinstance(n.ast, ast.Return)]
        sets = [n.id for n in g.nodes if n.kind == "stmt" and unparse(n.ast) == f"self.status = FOrdStatus.{pending}"]
        leak = None
        for r in rets:
            leak = leak or g.witness_path(g.entry, [r.id], avoid=set(sets), exc=False)
        ctx.instance(R6, f"{b}[status := {pending} on every returning path]", bool(sets) and leak is None,
                     f"{b} can return the request without moving the order to {pending}: a second request can be built while this one is outstanding", loc(fn))
    # new_req
    nr = repo.func(f"{CLS}.new_req")
    ok = any(isinstance(n, ast.Assert) and unparse(n.test) == "self.status == FOrdStatus.CREATED" for n in nr.body) and \
        "self.status = FOrdStatus.PENDING_NEW" in [unparse(s) for s in nr.body] and "self.clord_id = self.clord_next()" in [unparse(s) for s in nr.body]
    ctx.instance(R6, "new_req[only for CREATED, -> PENDING_NEW, fresh id]", ok, "new_req does not require CREATED / move to PENDING_NEW / draw its id from clord_next", loc(nr))

    # ---- rule 4: id producer
    cn = repo.func(f"{CLS}.clord_next")
    body = [unparse(s) for s in cn.body if not (isinstance(s, ast.Expr) and isinstance(s.value, ast.Constant))]
    ok = body == ["self._clord_id_cnt += 1", "return f'{self.clord_id_root}--{self._clord_id_cnt}'"] or _clord_next_semantic(cn)
    ctx.instance(R4, "clord_next[increment then format on the current root]", ok, f"clord_next is {body}: not 'increment by 1, then <root>--<counter>'", loc(cn))
    writers = res.writers_of("_clord_id_cnt")
    ctx.instance(R4, "_clord_id_cnt[writers]", sorted(writers) == [f"{CLS}.__init__", f"{CLS}.clord_next"],
                 f"_clord_id_cnt is written by {sorted(writers)}: a reset or a second producer re-issues a ClOrdID", loc(cn))
    users = [q for q, c in res.call_sites(f"{CLS}.clord_next")]
    ctx.instance(R4, "clord_next[callers]", sorted(users) == sorted([f"{CLS}.new_req", f"{CLS}.cancel_req", f"{CLS}.replace_req"]),
                 f"clord_next is called from {sorted(users)}", loc(cn))
    ow = sorted(q for q in res.writers_of("order_id") if q.startswith(CLS + "."))
    ctx.instance(R7, "order_id[taken from execution reports only]", ow == [f"{CLS}.__init__", f"{CLS}.process_execution_report"],
                 f"order_id is written by {ow}: an OrderCancelReject may carry 'NONE' / another id for the same order, absorbing it breaks the order's OrderID", loc(repo.func(f"{CLS}.__init__")))
    cr = repo.func(f"{CLS}.clord_root")
    cparam = cr.args.args[-1].arg
    mname = next((unparse(n.targets[0]) for n in walk_no_nested(cr) if isinstance(n, ast.Assign) and isinstance(n.targets[0], ast.Name)
                  and unparse(n.value) in (f"RE_CLORD_ROOT.match({cparam})", f"RE_CLORD_ROOT.fullmatch({cparam})")), None)
    rets = [unparse(r.value) for r in walk_no_nested(cr) if isinstance(r, ast.Return) and r.value is not None]
    ok = mname is not None and sorted(rets) == sorted([f"{mname}[1]", cparam]) or (mname is not None and sorted(rets) == sorted([f"{mname}.group(1)", cparam]))
    if not ok and mname is not None:
        # by value and by path: whatever local carries it, what is returned is group 1 where the match succeeded and the id itself where it did not
        from sa.cfg import CFG as _CFG
        from sa.guards import reaching_defs as _rdefs, facts as _facts
        cg = _CFG(cr)
        crd = _rdefs(cg, exc=False)

        def leaves(e, at, depth=0):
            if isinstance(e, ast.Name) and e.id != cparam and depth < 4:
                out_ = []
                for d in crd[at].get(e.id, set()):
                    v_ = getattr(cg.nodes[d].ast, "value", None)
                    out_ += leaves(v_, d, depth + 1) if isinstance(cg.nodes[d].ast, ast.Assign) and v_ is not None else [(e, at)]
                return out_ or [(e, at)]
            return [(e, at)]
        ok = True
        n_ret = 0
        for r in cg.nodes:
            if r.kind == "stmt" and isinstance(r.ast, ast.Return) and r.ast.value is not None:
                for leaf, at in leaves(r.ast.value, r.id):
                    n_ret += 1
                    fs_ = set()
                    for t_, lab_ in cg.guards(at, exc=False):
                        fs_ |= _facts(t_, lab_ == "true")
                    matched = (mname, True) in fs_ or (f"{mname} is not None", True) in fs_ or (f"{mname} is None", False) in fs_
                    missed = (mname, False) in fs_ or (f"{mname} is None", True) in fs_ or (f"{mname} is not None", False) in fs_
                    txt = unparse(leaf)
                    if not ((matched and txt in (f"{mname}[1]", f"{mname}.group(1)")) or (missed and txt == cparam)):
                        ok = False
        ok = ok and n_ret >= 2
    ctx.instance(R4, "clord_root[group 1 of the root regex, else the id itself]", ok, "clord_root no longer returns group 1 of RE_CLORD_ROOT (or the id when it has no suffix)", loc(cr))

    # ------------------------------------------------------------------ rule 5
    root_regex(ctx, R5, repo)

    # ---- rule 6: gate refuses pending (from the folded tables)
    from rules.c16 import transition_oracle, FN as CS
    csf = repo.func(CS)
    oracle = transition_oracle(repo, fo)
    statuses = fo.enum_members("FOrdStatus")
    for kind in ("ORDERCANCELREQUEST", "ORDERCANCELREPLACEREQUEST"):
        for p in PENDING:
            cell = oracle(kind, p, 0, statuses["PENDING_CANCEL" if kind == "ORDERCANCELREQUEST" else "PENDING_REPLACE"])
            ctx.instance(R6, f"gate[{kind},{p}]", cell is None, f"the {kind} gate answers {cell!r} for an order in {p}: a second request can be outstanding", loc(csf))

    # ------------------------------------------------------------------ rule 7
    report_absorbed(ctx, R7, repo, fo)


def enum_valued(val, fn, depth=0):
    t = unparse(val)
    if re.fullmatch(r"FOrdStatus\.[A-Z_]+", t):
        return True
    if isinstance(val, ast.Call) and unparse(val.func) == "FOrdStatus" and len(val.args) == 1:
        return True
    if isinstance(val, ast.Name) and depth < 3:
        vals = derivation(fn, val.id, 0).get(val.id, [])
        return bool(vals) and all(enum_valued(v, fn, depth + 1) for v in vals)
    return False


def typestate(ctx, R2, repo, fo):
    from rules.c16 import transition_oracle, FN as CS
    csf = repo.func(CS)
    oracle = transition_oracle(repo, fo)
    statuses = fo.enum_members("FOrdStatus")
    exectypes = fo.enum_members("FExecType")
    sname = {v: k for k, v in statuses.items()}
    handlers = {"EXECUTIONREPORT": f"{CLS}.process_execution_report", "ORDERCANCELREJECT": f"{CLS}.process_cancel_rej_report"}

    def permitted(status_name):
        out = []
        for kind, want in (("ORDERCANCELREQUEST", "PENDING_CANCEL"), ("ORDERCANCELREPLACEREQUEST", "PENDING_REPLACE")):
            cell = oracle(kind, status_name, 0, statuses[want])
            if cell is True:
                out.append(kind)
        return out

    n_eval = 0
    for kind, q in handlers.items():
        fn = repo.func(q)
        g = CFG(fn)
        mp = fn.args.args[1].arg
        NEW = next((unparse(n.targets[0]) for n in walk_no_nested(fn) if isinstance(n, ast.Assign) and isinstance(n.targets[0], ast.Name)
                    and isinstance(n.value, ast.Call) and unparse(n.value.func).endswith("change_status")), "?")
        EXEC = next((unparse(n.targets[0]) for n in walk_no_nested(fn) if isinstance(n, ast.Assign) and isinstance(n.targets[0], ast.Name)
                     and unparse(n.value) == f"{mp}[FTag.ExecType]"), "?")
        OST = next((unparse(n.targets[0]) for n in walk_no_nested(fn) if isinstance(n, ast.Assign) and isinstance(n.targets[0], ast.Name)
                    and unparse(n.value) == f"{mp}[FTag.OrdStatus]"), "?")
        clears = [(n, path_facts(g, n.id)) for n in g.nodes if n.kind == "stmt" and unparse(n.ast) == "self.orig_clord_id = None"]
        restores = [(n, path_facts(g, n.id)) for n in g.nodes if n.kind == "stmt" and unparse(n.ast) == "self.clord_id = self.orig_clord_id"]
        sets = [(n, path_facts(g, n.id)) for n in g.nodes if n.kind == "stmt" and isinstance(n.ast, ast.Assign) and unparse(n.ast.targets[0]) == "self.status"]
        # the status local the handler stores
        bad_cells = []
        for s0 in PENDING:
            for ename, eval_ in list(exectypes.items()) + [("(none)", 0)]:
                if kind != "EXECUTIONREPORT" and ename != "(none)":
                    continue
                for ms_name, ms in statuses.items():
                    n_eval += 1
                    try:
                        cell = oracle(kind, s0, eval_, ms)
                    except KeyError:
                        continue
                    if cell is not True:
                        continue  # status unchanged
                    new = ms_name
                    if new in PENDING or not permitted(new):
                        continue
                    env = {f"{NEW} is not None": True, f"{NEW} is None": False, NEW: True, "self.orig_clord_id": True,
                           f"{mp}.msg_type != FMsg.EXECUTIONREPORT": False, f"{mp}.msg_type != FMsg.ORDERCANCELREJECT": False,
                           f"{mp}.msg_type == FMsg.{kind}": True}

                    def holds(fs):
                        """True iff every guard fact of the site is known to hold for this (status, ExecType, OrdStatus) cell; None when a fact is outside the model."""
                        for atom, tv in fs:
                            val = None
                            if atom not in env and expand_atom(fn, atom) in env:
                                atom = expand_atom(fn, atom)
                            if atom in env:
                                val = env[atom]
                            else:
                                m1 = re.fullmatch(rf"{re.escape(OST)} (==|!=) FOrdStatus\.(\w+)", atom)
                                m2 = re.fullmatch(rf"{re.escape(EXEC)} (==|!=) FExecType\.(\w+)", atom)
                                m3 = re.fullmatch(r"self\.orig_clord_id is (not )?None", atom)
                                if m1:
                                    val = (ms_name == m1.group(2)) == (m1.group(1) == "==")
                                elif m2:
                                    val = (ename == m2.group(2)) == (m2.group(1) == "==")
                                elif m3:
                                    val = bool(m3.group(1))
                            if val is None:
                                return None
                            if val != tv:
                                return False
                        return True
                    cleared = any(holds(fs) is True for n, fs in clears)
                    restored = any(holds(fs) is True for n, fs in restores)
                    if not cleared or (kind == "ORDERCANCELREJECT" and not restored):
                        bad_cells.append((s0, ename, new, cleared, restored))
        key = lambda c: (c[0], c[2])
        reported = set()
        for c in bad_cells:
            if key(c) in reported:
                continue
            reported.add(key(c))
            s0, ename, new, cleared, restored = c
            ctx.instance(R2, f"{q.split('.')[-1]}[{s0} -> {new}]", False,
                         f"a {kind} (ExecType {ename}) moves the order from {s0} to {new}, where {permitted(new)} is permitted again, but the handler "
                         + ("leaves orig_clord_id set: can_cancel()/can_replace() answer True while the builder fails its `assert not self.orig_clord_id`" if not cleared else
                            "does not restore clord_id to the id that is still live: the next request quotes the ClOrdID of the rejected request as OrigClOrdID"), loc(fn))
        if not bad_cells:
            ctx.instance(R2, f"{q.split('.')[-1]}[pair idle whenever a request is permitted again]", True, evals=max(1, n_eval))
        # restore precedes clear in the reject handler
        if kind == "ORDERCANCELREJECT":
            ok = bool(restores) and bool(clears) and all(positions(fn)[id(r.ast)] < positions(fn)[id(c.ast)] for r, _ in restores for c, _ in clears)
            ctx.instance(R2, "process_cancel_rej_report[restore before clear]", ok, "clord_id is restored from orig_clord_id after orig_clord_id was cleared", loc(fn))
    ctx.evaluations += n_eval
    # builders require the idle pair
    for b in ("cancel_req", "replace_req"):
        fn = repo.func(f"{CLS}.{b}")
        ok = any(isinstance(n, ast.Assert) and unparse(n.test) == "not self.orig_clord_id" for n in fn.body)
        ctx.instance(R2, f"{b}[requires the idle pair]", ok, f"{b} no longer checks that no request is outstanding (orig_clord_id is None)", loc(fn))
    init = repo.func(f"{CLS}.__init__")
    ctx.instance(R2, "__init__[pair starts idle]", "self.orig_clord_id = None" in [unparse(s) for s in init.body], "a new order does not start with orig_clord_id None", loc(init))


def root_regex(ctx, R5, repo):
    node = repo.module_assigns.get("RE_CLORD_ROOT")
    if node is None or not (isinstance(node, ast.Call) and unparse(node.func) == "re.compile" and node.args and isinstance(node.args[0], ast.Constant)):
        raise AnalysisError("RE_CLORD_ROOT = re.compile(<literal>) not found")
    pat = node.args[0].value
    flags = " ".join(unparse(a) for a in node.args[1:]) + " ".join(unparse(k.value) for k in node.keywords)
    multiline = "MULTILINE" in flags or re.search(r"\bre\.M\b", flags) is not None
    dotall = "DOTALL" in flags or re.search(r"\bre\.S\b", flags) is not None
    import re._parser as P
    import re._constants as C
    try:
        tree = list(P.parse(pat))
    except re.error as exc:
        raise AnalysisError(f"RE_CLORD_ROOT does not parse: {exc}")
    starts = tree and tree[0][0] is C.AT and tree[0][1] in (C.AT_BEGINNING, C.AT_BEGINNING_STRING)
    ends_abs = tree and tree[-1][0] is C.AT and tree[-1][1] is C.AT_END_STRING
    ends_dollar = tree and tree[-1][0] is C.AT and tree[-1][1] is C.AT_END
    uses_match = "RE_CLORD_ROOT.match(" in unparse(repo.func(f"{CLS}.clord_root")) or "RE_CLORD_ROOT.fullmatch(" in unparse(repo.func(f"{CLS}.clord_root"))
    full = "RE_CLORD_ROOT.fullmatch(" in unparse(repo.func(f"{CLS}.clord_root"))
    begin_ok = full or (uses_match and (not multiline or tree[0][1] is C.AT_BEGINNING_STRING or not starts)) or (starts and not multiline)
    end_ok = full or ends_abs or (ends_dollar and not multiline and False)  # `$` also matches before a trailing newline
    ctx.instance(R5, "RE_CLORD_ROOT[anchored at both ends of the string]", bool(begin_ok and end_ok),
                 f"/{pat}/ ({flags or 'no flags'}) does not have to match the whole ClOrdID ('$' matches before a trailing newline, MULTILINE anchors match at inner line breaks): "
                 "an id whose root contains a newline is split at the wrong place", loc(node))
    # body: (root)--(counter)
    core = [t for t in tree if t[0] is not C.AT]
    ok = False
    why = "the pattern is not (root)--(digits)"
    if len(core) == 4 and core[0][0] is C.SUBPATTERN and core[3][0] is C.SUBPATTERN and core[1] == (C.LITERAL, 45) and core[2] == (C.LITERAL, 45):
        root, cnt = core[0][1][3], core[3][1][3]
        greedy = len(root) == 1 and root[0][0] is C.MAX_REPEAT and root[0][1][0] >= 1 and list(root[0][1][2])[0][0] is C.ANY
        digits = len(cnt) == 1 and cnt[0][0] is C.MAX_REPEAT and cnt[0][1][0] >= 1
        if digits:
            try:
                inc, w = included(Lang(pat[pat.rindex("("):].rstrip("\\Z$").rstrip(")").lstrip("(")), Lang(r"[0-9]+"))
            except (Unsupported, ValueError):
                inc, w = False, "?"
            digits = inc
            if not inc:
                why = f"the counter group admits {w!r}, not only ASCII digits"
        ok = greedy and digits
        if greedy and not dotall:
            ok = False
            why = "'.' without DOTALL excludes the newline: a root containing one is not recognised and the whole id is taken as root (ids chain as x--1--2)"
    ctx.instance(R5, "RE_CLORD_ROOT[greedy root, digits-only counter, '.' covers every character]", ok, why, loc(node))


def report_absorbed(ctx, R7, repo, fo):
    fn = repo.func(f"{CLS}.process_execution_report")
    g = CFG(fn)
    param = fn.args.args[1].arg
    want = {"self.leaves_qty": "151", "self.cum_qty": "14", "self.avg_px": "6", "self.order_id": "37"}

    from sa.guards import reaching_defs
    rdm = reaching_defs(g, exc=False)

    def tag_source(expr, depth=0, at=None):
        """tags of the report the expression reads (through locals; at a CFG node: through the definitions that reach it, so a
        local that is reused for two tags in turn is the right one at each use)"""
        out = set()
        for x in ast.walk(expr):
            if isinstance(x, ast.Subscript) and unparse(x.value) == param:
                out.add(fo.tag(x.slice))
            if isinstance(x, ast.Call) and unparse(x.func) == f"{param}.get" and x.args:
                out.add(fo.tag(x.args[0]))
            if isinstance(x, ast.Name) and depth < 3:
                if at is not None and x.id in rdm.get(at, {}):
                    for d in rdm[at][x.id]:
                        dv_ = getattr(g.nodes[d].ast, "value", None)
                        if dv_ is not None:
                            out |= tag_source(dv_, depth + 1, d)
                else:
                    for v in derivation(fn, x.id, 0).get(x.id, []):
                        out |= tag_source(v, depth + 1)
        return out
    rets = [n for n in g.nodes if n.kind == "stmt" and isinstance(n.ast, ast.Return)]
    for attr, tag in want.items():
        nodes = [n for n in g.nodes if n.kind == "stmt" and isinstance(n.ast, ast.Assign) and unparse(n.ast.targets[0]) == attr]
        src = set()
        for n in nodes:
            src |= tag_source(n.ast.value)
        ok = bool(nodes) and src == {tag}
        if ok:
            for r in rets:
                if g.witness_path(g.entry, [r.id], avoid={n.id for n in nodes}, exc=False):
                    ok = False
        ctx.instance(R7, f"process_execution_report[{attr} := tag {tag}]", ok,
                     f"{attr} is assigned from tag(s) {sorted(x for x in src if x)} (or not on every returning path) instead of tag {tag}: the order cannot converge to the report", loc(fn))
    for attr, tag in (("self.price", "44"), ("self.qty", "38")):
        nodes = [n for n in g.nodes if n.kind == "stmt" and isinstance(n.ast, ast.Assign) and unparse(n.ast.targets[0]) == attr]
        src = set()
        for n in nodes:
            src |= tag_source(n.ast.value, 0, n.id)
        ok = bool(nodes) and src == {tag} and all(any(tv and re.fullmatch(r"\w+ == FExecType\.REPLACED", a) and tag_source(ast.parse(a.split(" ")[0], mode="eval").body) == {"150"}
                                                         for a, tv in path_facts(g, n.id)) for n in nodes)
        ctx.instance(R7, f"process_execution_report[{attr} := tag {tag} on REPLACED]", ok,
                     f"{attr} is not taken from tag {tag} of a REPLACED report (sources {sorted(x for x in src if x)})", loc(fn))
    # admission test
    raises = [n for n in g.nodes if n.kind == "stmt" and isinstance(n.ast, ast.Raise)]
    adm = False
    for n in raises:
        for t, lab in g.guards(n.id, exc=False):
            tt = unparse(t)
            if lab == "true" and "!= self.clord_id" in tt and "!= self.orig_clord_id" in tt and " and " in tt:
                lhs = tt.split(" != ")[0]
                adm = tag_source(ast.parse(lhs, mode="eval").body) == {"11"}
    ctx.instance(R7, "process_execution_report[ClOrdID admission: tag 11 vs both ids]", adm,
                 "the report is not rejected when its ClOrdID(11) matches neither clord_id nor orig_clord_id (or the test reads another tag)", loc(fn))
    # the status handed to the transition function is the report's OrdStatus / ExecType
    calls = [c for c in walk_no_nested(fn) if isinstance(c, ast.Call) and unparse(c.func).endswith("change_status")]
    ok = len(calls) == 1 and len(calls[0].args) >= 4 and unparse(calls[0].args[0]) == "self.status" and tag_source(calls[0].args[2]) == {"150"} and tag_source(calls[0].args[3]) == {"39"}
    ctx.instance(R7, "process_execution_report[transition on (status, ExecType 150, OrdStatus 39)]", ok,
                 "change_status is not driven by the current status, the report's ExecType(150) and OrdStatus(39)", loc(fn))
    # optional tags of the report (read with `report.get(tag, None)`) are converted only where they are present: a conversion of the local
    # stands under `<local> is not None`; a REPLACED report without Price / OrderQty is legal and must not fail with a TypeError
    from sa.guards import facts as _facts
    opt = {}
    for n in g.nodes:
        if n.kind == "stmt" and isinstance(n.ast, ast.Assign) and len(n.ast.targets) == 1 and isinstance(n.ast.targets[0], ast.Name):
            v = n.ast.value
            if isinstance(v, ast.Call) and isinstance(v.func, ast.Attribute) and v.func.attr == "get" and unparse(v.func.value) == param and len(v.args) == 2 \
                    and isinstance(v.args[1], ast.Constant) and v.args[1].value is None:
                opt[n.ast.targets[0].id] = fo.tag(v.args[0])
    for n in g.nodes:
        if n.kind not in ("stmt", "test") or n.ast is None:
            continue
        for x in walk_no_nested(n.ast):
            if isinstance(x, ast.Call) and isinstance(x.func, ast.Name) and x.func.id in ("float", "int") and len(x.args) == 1 and isinstance(x.args[0], ast.Name) \
                    and x.args[0].id in opt:
                nm = x.args[0].id
                # only where the optional read is the definition that reaches the conversion
                if not any(isinstance(g.nodes[d].ast, ast.Assign) and isinstance(g.nodes[d].ast.value, ast.Call) and unparse(g.nodes[d].ast.value.func).endswith(".get")
                           for d in rdm[n.id].get(nm, set())):
                    continue
                fs = set()
                for t, lab in g.guards(n.id, exc=False):
                    fs |= _facts(t, lab == "true")
                okg = (f"{nm} is not None", True) in fs or (f"{nm} is None", False) in fs or (nm, True) in fs
                ctx.instance(R7, f"process_execution_report[optional tag {opt[nm]} converted only when present]", okg,
                             f"`{short(x)}` converts the optional tag {opt[nm]} (read with a None default) without `{nm} is not None` being established: a report "
                             "that legally omits it makes the handler fail with a TypeError after part of the report was absorbed", loc(x))
    rj = repo.func(f"{CLS}.process_cancel_rej_report")
    calls = [c for c in walk_no_nested(rj) if isinstance(c, ast.Call) and unparse(c.func).endswith("change_status")]
    p2 = rj.args.args[1].arg
    ok = len(calls) == 1 and unparse(calls[0].args[0]) == "self.status" and any(
        isinstance(n, ast.Assign) and unparse(n.targets[0]) == unparse(calls[0].args[3]) and unparse(n.value) == f"{p2}[FTag.OrdStatus]" for n in walk_no_nested(rj))
    ctx.instance(R7, "process_cancel_rej_report[transition on (status, OrdStatus 39)]", ok, "the reject handler does not drive change_status with the reject's OrdStatus(39)", loc(rj))
