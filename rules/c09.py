"""C09 - restart is transparent: counter-agreement and ordering clauses."""
from __future__ import annotations

import ast

from sa import journal
from sa.cfg import CFG
from sa.core import AnalysisError, loc, short, unparse, walk_no_nested
from sa.fold import Folder
from sa.resolve import Resolver
from sa.sendpath import SendPath


def run(ctx):
    repo = ctx.repo
    res = Resolver(repo)
    fold = Folder(repo)
    sp = SendPath(repo, res)
    views = journal.journaler_methods(repo)
    ctx.rule("C09.live-vs-durable", "every live write of next_num_in/out reachable from message processing has a durable twin carrying the same value (provenance: tag 34 of the journaled frame, or an explicit set_seq_num)")
    ctx.rule("C09.journal-before-wire", "the durable record of an allocated number (persist_msg) dominates the transport write of the frame carrying it")
    ctx.rule("C09.construction-restores", "the connection binds its session from journaler.create_or_load(target, sender) with matching roles; no constructor / connect path writes the counters")
    ctx.rule("C09.loaders-agree", "both journal load paths decode both stored counters as stored+1")
    ctx.rule("C09.renumbering-durable", "Journaler.set_seq_num commits; every accepted inbound message is journaled (persist_msg INBOUND is must-pass on the accept path of _finalize_message)")
    ctx.rule("C09.accepted-is-counted", "E9: for every message class, a message at the expected number on an established session reaches the counter advance and the inbound journal write")
    ctx.rule("C09.restore-is-last", "in the resend handler nothing is journaled for the outbound direction after the saved counter was restored, and every normal exit after a rewind passes the restore")
    ctx.assumptions += ["SQLite commit durability (trusted)", "kill points inside SQLite are not analysed"]

    # ---- rule 1: provenance of the inbound counter in FIXSession.set_next_num_in
    fn = repo.func("FIXSession.set_next_num_in")
    writes = [n for n in walk_no_nested(fn) if isinstance(n, ast.Assign)
              and any(isinstance(t, ast.Attribute) and t.attr == "next_num_in" for t in n.targets)]
    if not writes:
        raise AnalysisError("set_next_num_in: no write of next_num_in")
    fin = repo.func("AsyncFIXConnection._finalize_message")
    fg = CFG(fin)
    persist_nodes = [n.id for n in fg.nodes if n.kind == "stmt" and any(
        isinstance(c, ast.Call) and res.resolve(c, fin) == ("func", "Journaler.persist_msg") for c in walk_no_nested(n.ast))]
    setseq_after = []
    for n in fg.nodes:
        if n.kind == "stmt" and any(isinstance(c, ast.Call) and res.resolve(c, fin) == ("func", "Journaler.set_seq_num")
                                    for c in walk_no_nested(n.ast)):
            if any(fg.reaches(p, n.id, exc=False) for p in persist_nodes):
                setseq_after.append(n.id)
    # the written value as <tag of the message> + offset, through the reaching definitions of the locals involved
    from sa.guards import reaching_defs
    sg = CFG(fn)
    rd = reaching_defs(sg, exc=False)
    node_of = {}
    for n in sg.nodes:
        if n.kind == "stmt":
            node_of[id(n.ast)] = n.id

    def lin(e, nid, depth=0):
        """set of (source, offset): source is a tag number, 'const' or '?'"""
        if depth > 8:
            return {("?", 0)}
        if isinstance(e, ast.Constant) and isinstance(e.value, int) and not isinstance(e.value, bool):
            return {("const", e.value)}
        if isinstance(e, ast.BinOp) and isinstance(e.op, (ast.Add, ast.Sub)):
            sign = 1 if isinstance(e.op, ast.Add) else -1
            out = set()
            for (sa_, oa) in lin(e.left, nid, depth + 1):
                for (sb, ob) in lin(e.right, nid, depth + 1):
                    if sb == "const":
                        out.add((sa_, oa + sign * ob))
                    elif sa_ == "const" and sign == 1:
                        out.add((sb, oa + ob))
                    else:
                        out.add(("?", 0))
            return out
        if isinstance(e, ast.Call) and isinstance(e.func, ast.Name) and e.func.id == "int" and len(e.args) == 1 and not e.keywords:
            return lin(e.args[0], nid, depth + 1)
        if isinstance(e, ast.Subscript):
            t = fold.tag(e.slice)
            return {(t, 0)} if t else {("?", 0)}
        if isinstance(e, ast.Name):
            ds = rd.get(nid, {}).get(e.id)
            if not ds:
                return {("?", 0)}
            out = set()
            for d in ds:
                a = sg.nodes[d].ast
                if isinstance(a, ast.Assign) and len(a.targets) == 1 and isinstance(a.targets[0], ast.Name):
                    out |= lin(a.value, d, depth + 1)
                else:
                    out.add(("?", 0))
            return out
        return {("?", 0)}
    for w in writes:
        wn = node_of.get(id(w))
        forms = lin(w.value, wn) if wn is not None else {("?", 0)}
        for tag, off in sorted(forms, key=str):
            if tag in ("?", "const"):
                ctx.instance("C09.live-vs-durable", f"set_next_num_in[{short(w.value, 30)}]", False,
                             "the inbound counter is no longer written as <number carried by the message> + constant", loc(w))
                continue
            name = {"34": "MsgSeqNum", "36": "NewSeqNo"}.get(tag, str(tag))
            if tag == "34" and off == 1:
                ok = True
                why = ""
            else:
                # live counter is not <the frame's own MsgSeqNum> + 1: needs an explicit durable write after journaling
                ok = bool(setseq_after)
                why = (f"the live inbound counter is set to tag {tag} ({name}) {off:+d} while persist_msg(INBOUND) stores the frame's own MsgSeqNum and the "
                       "loaders restore stored+1: after a gap fill / reset spanning several numbers the restored counter differs from the live one")
            ctx.instance("C09.live-vs-durable", f"FIXSession.set_next_num_in[{name}]", ok, why, loc(w),
                         sample={"rule": "C09.live-vs-durable", "write": short(w, 50), "provenance": f"tag {tag} {off:+d}", "tag": tag})
    # outbound: allocator increments by one <-> persist_msg stores tag 34 of the frame (C05 rules); connection-level writers:
    for attr in ("next_num_in", "next_num_out"):
        for q, nodes in res.writers_of(attr).items():
            if not q.startswith("AsyncFIXConnection.") and not q.startswith("AsyncFIXClient.") and not q.startswith("AsyncFIXDummyServer."):
                continue
            ctx.instance("C09.live-vs-durable", f"{q}[{attr}]", False,
                         f"{q} writes {attr} directly ({short(nodes[0], 50)}): the journal's stored counter is not updated with it, "
                         "so a restart restores a different value", loc(nodes[0]))
    ctx.instance("C09.live-vs-durable", "connection-classes[no direct counter store]", True, "", "")

    # ---- rule 2
    g = sp.cfg
    dom = g.dominators(exc=False)
    for w in sp.write_nodes:
        ok = any(p in dom[w] for p in sp.persist_nodes)
        path = None
        if not ok:
            path = g.describe(g.witness_path(g.entry, [w], avoid=sp.persist_nodes, exc=False) or [])
        ctx.instance("C09.journal-before-wire", "send_msg[persist_msg dominates write]", ok,
                     "the frame reaches the transport before its number is durable: a crash or a drain() error in between lets the "
                     "restarted endpoint reuse the MsgSeqNum for a different message", loc(g.nodes[w].ast), path)
    # no suspension between persist and write is C14's business.

    # ---- rule 3
    init = repo.func("AsyncFIXConnection.__init__")
    binds = [n for n in walk_no_nested(init) if isinstance(n, (ast.Assign, ast.AnnAssign))
             and unparse(n.targets[0] if isinstance(n, ast.Assign) else n.target) == "self._session"]
    ok = False
    detail = "self._session is not bound from journaler.create_or_load(...)"
    if len(binds) == 1 and isinstance(binds[0].value, ast.Call) and unparse(binds[0].value.func).endswith("create_or_load"):
        call = binds[0].value
        col = repo.func("Journaler.create_or_load")
        params = [a.arg for a in col.args.args[1:]]
        got = {}
        for i, a in enumerate(call.args):
            if i < len(params):
                got[params[i]] = unparse(a)
        for kw in call.keywords:
            got[kw.arg] = unparse(kw.value)
        ok = all(got.get(p) == p for p in params) and len(got) == len(params)
        detail = f"create_or_load is called with {got}: target/sender roles do not match its parameters {params}"
    ctx.instance("C09.construction-restores", "AsyncFIXConnection.__init__[session binding]", ok, detail, loc(init))
    for q in ("AsyncFIXConnection.__init__", "AsyncFIXClient.__init__", "AsyncFIXDummyServer.__init__", "AsyncFIXConnection.connect",
              "AsyncFIXClient.connect", "AsyncFIXDummyServer.connect", "AsyncFIXDummyServer._handle_accept"):
        if not repo.has_func(q):
            continue
        seen, _ = res.transitive(q, depth=3)
        bad = []
        for s in seen:
            if s.startswith("Journaler.") or s.startswith("FIXSession."):
                # reached through create_or_load (loader) only from the base constructor
                if q == "AsyncFIXConnection.__init__" and s in ("Journaler.create_or_load", "FIXSession.__init__"):
                    continue
                if s in ("Journaler.create_or_load", "FIXSession.__init__") and "__init__" in q:
                    continue
            for attr in ("next_num_in", "next_num_out"):
                if res.attr_writes(s, attr) and s not in ("Journaler.create_or_load", "FIXSession.__init__"):
                    bad.append((s, attr))
            if s in ("Journaler.set_seq_num", "AsyncFIXConnection.reset_seq_num"):
                bad.append((s, "renumbering"))
        ctx.instance("C09.construction-restores", f"{q}[no counter write]", not bad,
                     f"{q} reaches {bad[:2]}: creating / connecting an endpoint over an existing journal must restore the counters, never reset them", loc(repo.func(q)))

    # ---- rule 4
    ses = journal.schema(views).get("session")
    for name in ("create_or_load", "sessions"):
        v = views.get(name)
        if v is None:
            raise AnalysisError(f"Journaler.{name} vanished")
        sel = [s for s in v.sites if s.stmt.kind == "SELECT" and s.stmt.table == "session"]
        for n in walk_no_nested(v.fn):
            if isinstance(n, ast.Assign) and isinstance(n.targets[0], ast.Attribute) and n.targets[0].attr in ("next_num_in", "next_num_out") \
                    and not isinstance(n.value, ast.Constant):
                col_want = "inboundSeqNo" if n.targets[0].attr == "next_num_in" else "outboundSeqNo"
                val = n.value
                # through a local: every value it can hold (the constant 1 of a new session aside) must be column + 1
                cands = [val]
                fparams_ = {a_.arg for a_ in v.fn.args.args}
                if isinstance(val, ast.Name) and val.id not in fparams_:
                    dd = [x.value for x in walk_no_nested(v.fn) if isinstance(x, ast.Assign) and len(x.targets) == 1 and unparse(x.targets[0]) == val.id]
                    cands = [d for d in dd if not (isinstance(d, ast.Constant) and d.value == 1)] or cands

                def plus_one_of_col(e):
                    if isinstance(e, ast.BinOp) and isinstance(e.op, ast.Add) and isinstance(e.right, ast.Constant) and e.right.value == 1 \
                            and isinstance(e.left, ast.Subscript) and isinstance(e.left.slice, ast.Constant) and sel:
                        cols = sel[-1].stmt.columns
                        i = e.left.slice.value
                        return isinstance(i, int) and i < len(cols) and cols[i] == col_want
                    return False
                ok = bool(cands) and all(plus_one_of_col(c) for c in cands)
                ctx.instance("C09.loaders-agree", f"Journaler.{name}[{n.targets[0].attr}]", ok,
                             f"{name}() restores {n.targets[0].attr} as `{short(val, 40)}`, not {col_want} + 1: the restored counter differs from the one the old object held", loc(n))
    ctx.floor("C09.loaders-agree", 4)

    # ---- rule 5
    sv = views["set_seq_num"]
    dml = sv.dml_sites()
    ok = bool(dml) and all(sv.cfg.must_pass(n, sv.commit_nodes, [sv.cfg.exit], exc=False) for s in dml for n in sv.site_nodes[s])
    ctx.instance("C09.renumbering-durable", "Journaler.set_seq_num[commit]", ok,
                 "a completed renumbering (reset_seq_num / SequenceReset / resend restore) is not committed", loc(sv.fn))
    # accepted inbound => journaled
    setn = [n.id for n in fg.nodes if n.kind == "stmt" and any(
        isinstance(c, ast.Call) and res.resolve(c, fin) == ("func", "FIXSession.set_next_num_in") for c in walk_no_nested(n.ast))]
    if len(setn) != 1 or not persist_nodes:
        raise AnalysisError("_finalize_message: set_next_num_in / persist_msg anchors not found")
    # paths from the counter advance to the normal exit that avoid persist must be the 'rejected' early return
    bad_path = None
    for p in _paths(fg, setn[0], fg.exit, persist_nodes):
        tests = [(fg.nodes[a], [l for d, l in fg.succs(a, exc=False) if d == b]) for a, b in zip(p, p[1:]) if fg.nodes[a].kind == "test"]
        rejected = any("<= 0" in unparse(t.ast) and "true" in labs or "> 0" in unparse(t.ast) and "false" in labs or
                       "< 1" in unparse(t.ast) and "true" in labs for t, labs in tests)
        if not rejected:
            bad_path = fg.describe(p)
            break
    ctx.instance("C09.renumbering-durable", "_finalize_message[accepted => journaled]", bad_path is None,
                 "an accepted inbound message (counter advanced) can leave _finalize_message without persist_msg(INBOUND): "
                 "the stored inbound counter falls behind the live one", loc(fin), bad_path)
    # direction of that persist
    dirs = []
    for nid in persist_nodes:
        for c in walk_no_nested(fg.nodes[nid].ast):
            if isinstance(c, ast.Call) and res.resolve(c, fin) == ("func", "Journaler.persist_msg"):
                dirs += [getattr(fold.fold(a), "name", None) for a in c.args[2:3]] + \
                        [getattr(fold.fold(k.value), "name", None) for k in c.keywords if k.arg == "direction"]
    ctx.instance("C09.renumbering-durable", "_finalize_message[persist direction]", dirs == ["INBOUND"] * len(dirs) and bool(dirs),
                 f"received frames are journaled under {dirs}", loc(fin))
    # _finalize_message is the epilogue of the dispatcher on EVERY exit (return, exception, cancellation) once the number was found valid:
    # as a `finally`, or as handlers that finalize and re-raise - decided on the CFG with exception edges
    pm = repo.func("AsyncFIXConnection._process_message")
    pg = CFG(pm)
    fin_nodes = [n for n in pg.nodes if n.kind == "stmt" and any(isinstance(c, ast.Call) and res.resolve(c, pm) == ("func", "AsyncFIXConnection._finalize_message")
                                                                   for c in walk_no_nested(n.ast))]
    flag = None
    for n in fin_nodes:
        for t, lab in pg.guards(n.id, exc=True):
            if isinstance(t, ast.Name) and lab == "true":
                flag = t.id
    w = None
    if flag is not None and fin_nodes:
        tests = {n.id for n in pg.nodes if n.kind == "test" and isinstance(n.ast, ast.Name) and n.ast.id == flag
                 and any(lab == "true" and d in {f.id for f in fin_nodes} for d, lab in pg.succs(n.id, exc=False))}
        srcs = [n.id for n in pg.nodes if n.kind == "stmt" and isinstance(n.ast, ast.Assign) and unparse(n.ast.targets[0]) == flag
                and not (isinstance(n.ast.value, ast.Constant) and n.ast.value.value is False)]

        def only_logs(n):
            calls = [c for c in walk_no_nested(n.ast)] if n.ast is not None else []
            calls = [c for c in calls if isinstance(c, ast.Call)]
            return bool(calls) and all(unparse(c.func).startswith(("self.log.", "logging.", "repr", "str")) for c in calls) and not any(isinstance(c, ast.Await) for c in walk_no_nested(n.ast))
        quiet = {n.id for n in pg.nodes if n.kind == "stmt" and only_logs(n)}
        for s0 in srcs:
            seen, todo, par = {s0}, [s0], {}
            hit = None
            while todo and hit is None:
                cur = todo.pop()
                for d, lab in pg.succs(cur, exc=True):
                    if lab.startswith("exc") and cur in quiet:
                        continue  # a logging call is not taken to raise
                    if d in tests or d in seen:
                        continue
                    par[d] = cur
                    if d in (pg.exit, pg.raise_exit):
                        hit = d
                        break
                    seen.add(d)
                    todo.append(d)
            if hit is not None:
                path = [hit]
                while path[-1] in par:
                    path.append(par[path[-1]])
                w = list(reversed(path))
                break
    ctx.instance("C09.renumbering-durable", "_process_message[finalize in finally]", flag is not None and bool(fin_nodes) and w is None,
                 "_finalize_message is not the epilogue of the dispatcher on every exit: a handler that raises or is cancelled (e.g. the application's on_message), "
                 "or an early return after the number was found valid, leaves a processed message uncounted and unjournaled, so it is requested and delivered again",
                 loc(pm), pg.describe(w or [])[-8:])

    # ---- rule 6: after the replay the restored counter is the last thing stored for the outbound direction
    from sa.rewind import Rewind
    rw = Rewind(repo)
    if rw.rewinds:
        g2 = rw.cfg
        after = g2.reach(rw.restores, exc=False)
        bad = []
        for nid in sorted(after):
            node = g2.nodes[nid]
            if node.ast is None or node.kind == "handler" or nid in rw.restores:
                continue
            roots = [node.ast] if node.kind in ("stmt", "test") else ([node.ast.iter] if node.kind == "for" else [])
            for r in roots:
                for c in walk_no_nested(r):
                    if isinstance(c, ast.Call):
                        kind, name = res.resolve(c, rw.fn)
                        if kind == "func" and (name == "AsyncFIXConnection.send_msg" or "Journaler.persist_msg" in res.transitive(name)[0]):
                            bad.append((nid, c))
        ctx.instance("C09.restore-is-last", "_process_resend[nothing journaled after the restore]", not bad,
                     "an outbound frame is journaled after next_num_out was restored: persist_msg stores that frame's own (lower, replayed or gap-fill) MsgSeqNum as "
                     "the outbound counter, so after a restart the session re-uses numbers that are already on the wire"
                     + (f" (`{short(bad[0][1])}`)" if bad else ""), loc(bad[0][1]) if bad else loc(rw.fn))
        # and the restore is reached on every normal way out once the counter was rewound
        leak = g2.witness_path(rw.rewinds[0], [g2.exit], avoid=set(rw.restores), exc=False)
        ctx.instance("C09.restore-is-last", "_process_resend[rewind always restored on normal exit]", leak is None,
                     "a normal path leaves the replay with the rewound counter still live and stored", loc(rw.fn), g2.describe(leak or [])[-6:])

    # ---- rule 7 (E9): every message at the expected number on an established session is counted and journaled, whatever its type
    from sa import absint
    it, outs = absint.inbound(repo, sink_raises=False)
    ctx.evaluations += it.steps
    for st0 in ("ACTIVE", "RESENDREQ_AWAITING"):
        for kind in absint.KINDS:
            if kind == "LOGON":
                continue  # a Logon in mid-session is outside the property's histories
            def m(e):
                return e.s.state0 in (st0, "?") and e.s.kind in (kind, "?") and e.s.ord in ("EQ", "?") and e.s.integ in ("ok", "?")
            counted = any(e.site == "nin_write" and e.info[1] in ("ACCEPT", "NEWSEQ") and m(e) for e in it.events)
            journaled = any(e.site == "persist" and e.info[1] == "INBOUND" and m(e) for e in it.events)
            ctx.instance("C09.accepted-is-counted", f"{st0},{kind},EQ", counted and journaled,
                         f"an inbound {kind} carrying exactly the expected MsgSeqNum in state {st0} is "
                         + ("not counted (next_num_in stays)" if not counted else "counted but not journaled")
                         + ": live and stored counters fall behind the peer's, and after the next Logon a ResendRequest goes out although nothing was lost",
                         loc(repo.func("AsyncFIXConnection._process_message")))

    # ... and on *every* way out of the dispatcher - also when a handler or an application hook raised (the finally epilogue counts the message)
    for st0 in ("ACTIVE", "RESENDREQ_AWAITING"):
        for kind in absint.KINDS:
            if kind in ("LOGON", "LOGOUT"):
                continue  # Logout: a raising on_logout hook aborts the disconnect as well - noted in DESIGN, not claimed
            bad = next((o for o in outs if o[1].state0 == st0 and o[1].kind == kind and o[1].ord == "EQ" and o[1].integ == "ok" and o[1].nin not in ("ACCEPT", "NEWSEQ")), None)
            ctx.instance("C09.accepted-is-counted", f"{st0},{kind},EQ[every exit]", bad is None,
                         f"a dispatch of an inbound {kind} at the expected number in state {st0} can end ({bad[0] if bad else ''}) without the counter advance - e.g. when a "
                         "handler or an application hook raised: the message was acted upon but is expected again, so the peer's next message looks too high",
                         loc(repo.func("AsyncFIXConnection._process_message")), list(bad[3][-10:]) if bad else [])


def _paths(g, src, dst, avoid):
    avoid = set(avoid)
    out = []
    stack = [(src, [src], frozenset())]
    while stack and len(out) < 500:
        n, path, used = stack.pop()
        if n == dst:
            out.append(path)
            continue
        for d, lab in g.succs(n, exc=False):
            if d in avoid or (n, d) in used:
                continue
            stack.append((d, path + [d], used | {(n, d)}))
    return out
