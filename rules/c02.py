"""C02 - every frame put on the wire is a well-formed FIX frame (structural clauses)."""
from __future__ import annotations

import ast
import re

from sa.core import AnalysisError, attr_chain, enclosing_func, loc, qualname, short, unparse, walk_no_nested
from sa.resolve import Resolver
from sa.sendpath import SendPath
from sa.strsym import IntForm, StrEval, atoms_len

EXCLUDED_MODULES = {"asyncfix/fix_tester.py"}
SINGLE_BYTE = {"latin-1", "latin1", "latin_1", "iso-8859-1", "iso8859-1", "iso_8859_1", "l1", "8859", "ascii", "us-ascii", "646"}


def units(atoms):
    out = []
    for a in atoms:
        if a[0] == "lit":
            out += [("c", ch) for ch in a[1]]
        else:
            out.append(a)
    return out


def units_len(us):
    f = IntForm()
    rest = []
    for u in us:
        if u[0] == "c":
            f = f + IntForm(const=1)
        else:
            rest.append(u)
    return f + atoms_len(rest)


def zero_pad3(spec):
    if spec.startswith("%"):
        m = re.fullmatch(r"%(?P<flags>[-0 +#]*)(?P<width>\d+)?(?:\.(?P<prec>\d+))?(?P<conv>[di])", spec)
        if not m:
            return False
        if m.group("prec") == "3" and not (m.group("width") and int(m.group("width")) > 3):
            return True
        return "0" in m.group("flags") and "-" not in m.group("flags") and m.group("width") == "3"
    if spec.startswith("f:"):
        return bool(re.fullmatch(r"0?3d?|03", spec[2:])) and spec[2:].startswith("0")
    return spec == "pad03"


def plain_int(spec):
    return spec in ("%i", "%d", "s", "%s", "f:d")


def run(ctx):
    repo = ctx.repo
    res = Resolver(repo)
    sp = SendPath(repo, res)
    g = sp.cfg
    ctx.rule("C02.single-writer", "the only transport write in the package is in send_msg and its argument is derived from Codec.encode through a transcoding call only")
    ctx.rule("C02.measured-equals-written", "every .encode(codec) between the encoder's character-measured string and write() is a strict single-byte codec")
    ctx.rule("C02.frame-shape", "abstract string building: 8=<bs> SOH 9=<L> SOH 35=<t> SOH body 10=<c> SOH; L = length of exactly the segment between; c = sum(ord) % 256 over exactly the prefix; c is zero-padded width 3")
    ctx.rule("C02.refuse-not-transmit", "an exception from encoding/transcoding leaves send_msg before write (no handler falls through to the write)")
    ctx.assumptions += ["field values contain no SOH (outside the quantifier)", "str.encode of a strict single-byte codec maps one character to one byte (trusted)"]

    # ---- rule 1
    n_writes = 0
    for mod in repo.modules.values():
        if mod.rel in EXCLUDED_MODULES:
            continue
        for c in ast.walk(mod.tree):
            if isinstance(c, ast.Call) and isinstance(c.func, ast.Attribute) and c.func.attr in ("write", "writelines", "sendall", "send", "write_eof") \
                    and any(k in (attr_chain(c.func.value) or "").lower() for k in ("writer", "transport", "sock")):
                n_writes += 1
                f = enclosing_func(c)
                q = qualname(f) if f else "<module>"
                ctx.instance("C02.single-writer", f"{c.func.attr}@{q}", q == "AsyncFIXConnection.send_msg" and c.func.attr == "write",
                             f"{q} hands bytes to the transport outside send_msg: they bypass the encoder (framing), the state gates and the journal", loc(c))
    if n_writes == 0:
        raise AnalysisError("no transport write found")
    w_arg = sp.write_calls[0].args[0] if sp.write_calls[0].args else None
    chain = sp.value_flow(w_arg) if isinstance(w_arg, ast.Name) else []
    enc_call = sp.encode_calls[0]
    derived = False
    extra_ops = []
    transcodes = []
    for name, v in chain:
        if v is None or v == "multiple":
            break
        if any(c is enc_call for c in ast.walk(v)):
            derived = True
        if isinstance(v, ast.Call) and isinstance(v.func, ast.Attribute) and v.func.attr == "encode" and v is not enc_call \
                and not any(c is enc_call for c in [v]):
            transcodes.append(v)
            # the receiver is either a name or the encoder call itself
        elif v is enc_call:
            pass
        else:
            extra_ops.append(short(v, 50))
    # transcoding applied directly on the encode() result: codec.encode(...).encode("x")
    for name, v in chain:
        if isinstance(v, ast.Call) and isinstance(v.func, ast.Attribute) and v.func.attr == "encode" and v.func.value is enc_call:
            if v not in transcodes:
                transcodes.append(v)
            if short(v, 50) in extra_ops:
                extra_ops.remove(short(v, 50))
    ok = isinstance(w_arg, ast.Name) and derived and not extra_ops and all(v not in (None, "multiple") for _, v in chain)
    ctx.instance("C02.single-writer", "send_msg[write argument provenance]", ok,
                 f"the bytes written are not the encoder's result passed through a transcoding call only (flow: {[(n, short(v, 40) if isinstance(v, ast.AST) else v) for n, v in chain]}, other operations: {extra_ops})",
                 loc(sp.write_calls[0]))

    # ---- rule 2
    if not transcodes:
        ctx.instance("C02.measured-equals-written", "send_msg[transcoding]", False,
                     "no str.encode between the encoder's result and write(): cannot relate measured characters to written bytes", loc(sp.write_calls[0]))
    for t in transcodes:
        codec = None
        errors = None
        if t.args and isinstance(t.args[0], ast.Constant):
            codec = t.args[0].value
        if len(t.args) > 1 and isinstance(t.args[1], ast.Constant):
            errors = t.args[1].value
        for kw in t.keywords:
            if kw.arg == "encoding" and isinstance(kw.value, ast.Constant):
                codec = kw.value.value
            if kw.arg == "errors" and isinstance(kw.value, ast.Constant):
                errors = kw.value.value
        if not t.args and not any(kw.arg == "encoding" for kw in t.keywords):
            codec = "utf-8"
        ok = isinstance(codec, str) and codec.lower() in SINGLE_BYTE and errors in (None, "strict")
        ctx.instance("C02.measured-equals-written", f"send_msg[.encode({codec!r}, errors={errors!r})]", ok,
                     f"BodyLength and CheckSum are computed per character by the encoder, but the frame is transcoded with {codec!r}/{errors!r}: "
                     "one character no longer maps to exactly one byte of the same value, so length and checksum are wrong for non-ASCII values "
                     "(or unrepresentable characters are silently replaced)", loc(t))

    # ---- rule 3: frame shape
    codec_init = repo.func("Codec.__init__")
    soh = None
    for n in walk_no_nested(codec_init):
        if isinstance(n, ast.Assign) and unparse(n.targets[0]) == "self.SOH" and isinstance(n.value, ast.Constant):
            soh = n.value.value
    ctx.instance("C02.frame-shape", "Codec.SOH", soh == "\x01", f"the field separator is {soh!r}, not SOH", loc(codec_init))
    encf = repo.func("Codec.encode")
    ev = StrEval(repo, encf, {"self.SOH": soh or "\x01"})
    rets = ev.run()
    if len(rets) != 1:
        raise AnalysisError(f"Codec.encode: {len(rets)} top-level returns")
    us = units(rets[0])
    ints = [i for i, u in enumerate(us) if u[0] == "int"]
    text = "".join(u[1] if u[0] == "c" else "⟨" + u[0] + "⟩" for u in us)
    shape_ok = len(ints) == 2 and re.fullmatch("8=⟨var⟩\x019=⟨int⟩\x0135=⟨var⟩\x01.*\x0110=⟨int⟩\x01", text, re.S) is not None
    ctx.instance("C02.frame-shape", "encode[field order]", shape_ok,
                 f"the encoder's result no longer has the shape 8=..|9=..|35=..|body|10=..| (abstract value: {text!r})", loc(encf),
                 sample={"rule": "C02.frame-shape", "abstract_frame": text})
    if shape_ok:
        iL, iC = ints
        seg = us[iL + 2: iC - 3]  # after the SOH that follows 9=<L> ... up to and including the SOH before "10="
        want = units_len(seg)
        L = us[iL][2]
        ctx.instance("C02.frame-shape", "encode[BodyLength expression]", isinstance(L, IntForm) and L == want and plain_int(us[iL][1]),
                     f"BodyLength is computed as `{L}` (format {us[iL][1]}) but the bytes between the BodyLength field and the CheckSum field measure `{want}`",
                     loc(encf), sample={"rule": "C02.frame-shape", "BodyLength": repr(L), "segment": repr(want)})
        C = us[iC][2]
        okc = isinstance(C, tuple) and C[0] == "cksum" and C[2] == 256 and units(list(C[1])) == us[: iC - 3]
        ctx.instance("C02.frame-shape", "encode[CheckSum operand]", okc,
                     "CheckSum is not sum(ord(ch)) % 256 over exactly the bytes that precede the CheckSum field", loc(encf))
        ctx.instance("C02.frame-shape", "encode[CheckSum format]", zero_pad3(us[iC][1]),
                     f"CheckSum is formatted with {us[iC][1]!r}: values below 100 are not rendered as three digits", loc(encf))
        # the body list is joined with SOH
        joins = [u for u in us if u[0] == "join"]
        ctx.instance("C02.frame-shape", "encode[body separator]", len(joins) == 1 and joins[0][1] == "\x01", "body fields are not joined with SOH", loc(encf))
    # every body field is rendered as tag=value
    for fq in ("Codec.encode", "Codec._addTag"):
        f = repo.func(fq)
        # the body list: in the encoder the list that receives the MsgSeqNum field, in _addTag its first parameter
        if fq == "Codec._addTag":
            body_name = f.args.args[1].arg
        else:
            body_name = next((unparse(c.func.value) for c in walk_no_nested(f) if isinstance(c, ast.Call) and isinstance(c.func, ast.Attribute) and c.func.attr == "append"
                              and c.args and "FTag.MsgSeqNum" in unparse(c.args[0])), None)
        for c in walk_no_nested(f):
            if isinstance(c, ast.Call) and isinstance(c.func, ast.Attribute) and c.func.attr == "append" and unparse(c.func.value) == body_name:
                a = c.args[0]
                fmt = a.left.value if isinstance(a, ast.BinOp) and isinstance(a.op, ast.Mod) and isinstance(a.left, ast.Constant) else None
                ok = fmt in ("%s=%s", "%s=%i", "%s=%d")
                if isinstance(a, ast.JoinedStr):
                    ok = len(a.values) == 3 and isinstance(a.values[1], ast.Constant) and a.values[1].value == "="
                ctx.instance("C02.frame-shape", f"{fq}[body.append {short(a, 40)}]", ok, f"body field is not rendered as <tag>=<value>: {short(a, 60)}", loc(c))
    ctx.floor("C02.frame-shape", 9)

    # ---- rule 4
    stmts = set()
    for t in transcodes + [enc_call]:
        for nid in g.ids_of(t):
            stmts.add(nid)
    for nid in sorted(stmts):
        # exception edges from this node must not reach the write
        exc_targets = [d for d, lab in g.succs(nid, exc=True) if lab == "exc"]
        bad = [d for d in exc_targets if any(g.reaches(d, w, exc=True) or d == w for w in sp.write_nodes)]
        ctx.instance("C02.refuse-not-transmit", f"send_msg[{short(g.nodes[nid].ast, 40)}]", not bad,
                     "an exception raised while encoding/transcoding is caught by a handler that falls through to write(): a message that cannot be represented is transmitted anyway",
                     loc(g.nodes[nid].ast))
    dom = g.dominators(exc=False)
    for w in sp.write_nodes:
        ok = all(any(n in dom[w] for n in g.ids_of(t)) for t in transcodes + [enc_call])
        ctx.instance("C02.refuse-not-transmit", "send_msg[encode dominates write]", ok, "write() is reachable without passing the encoder/transcoder", loc(g.nodes[w].ast))
    timestamp_layout(ctx, repo)



# ---------------------------------------------------------------------------- timestamp layout (appended rule)
def timestamp_layout(ctx, repo):
    """SendingTime(52) / TransactTime(60) are produced by strftime(<literal format>)[:-k]: fold the layout and compare its
    regular language with the FIX UTCTimestamp lexical space (regex inclusion, both directions)."""
    from sa.regexlang import Lang, Unsupported, equivalent
    rule = "C02.timestamp-layout"
    ctx.rule(rule, "the timestamp generators fold to the FIX UTCTimestamp layout YYYYMMDD-HH:MM:SS.sss (strftime format + slice folded to a regular language, compared by inclusion both ways)")
    fix = r"[0-9]{8}-[0-9]{2}:[0-9]{2}:[0-9]{2}\.[0-9]{3}"
    widths = {"%Y": 4, "%m": 2, "%d": 2, "%H": 2, "%M": 2, "%S": 2, "%f": 6}
    n = 0
    for q in ("Codec.current_datetime", "FIXNewOrderSingle.current_datetime"):
        if not repo.has_func(q):
            continue
        fn = repo.func(q)
        rets = [r for r in walk_no_nested(fn) if isinstance(r, ast.Return)]
        n += 1
        pat = None
        if len(rets) == 1:
            v = rets[0].value
            cut = 0
            if isinstance(v, ast.Subscript) and isinstance(v.slice, ast.Slice) and v.slice.lower is None and v.slice.upper is not None:
                try:
                    cut = -ast.literal_eval(v.slice.upper)
                except Exception:
                    cut = None
                v = v.value
            if isinstance(v, ast.Call) and isinstance(v.func, ast.Attribute) and v.func.attr == "strftime" and v.args and isinstance(v.args[0], ast.Constant) and cut is not None \
                    and "utcnow" in unparse(v.func.value) or (isinstance(v, ast.Call) and "timezone.utc" in unparse(v) and isinstance(v.func, ast.Attribute) and v.func.attr == "strftime"):
                fmt = v.args[0].value
                parts = re.split(r"(%[A-Za-z])", fmt)
                seq = []
                okf = True
                for p in parts:
                    if not p:
                        continue
                    if p.startswith("%"):
                        if p not in widths:
                            okf = False
                            break
                        seq += ["[0-9]"] * widths[p]
                    else:
                        seq += [re.escape(ch) for ch in p]
                if okf and cut is not None and 0 <= cut < len(seq):
                    seq = seq[:len(seq) - cut] if cut else seq
                    pat = "".join(seq)
        ok = False
        why = "the timestamp is not strftime(<literal format>) of the current UTC time with a constant slice"
        if pat is not None:
            try:
                ok, w = equivalent(Lang(pat), Lang(fix))
                why = f"the generated layout /{pat}/ differs from the FIX UTCTimestamp layout /{fix}/ (e.g. {w!r})"
            except Unsupported as exc:
                raise AnalysisError(f"timestamp layout: {exc}")
        ctx.instance(rule, f"{q}[UTCTimestamp layout]", ok, why, loc(fn), sample={"rule": rule, "generator": q, "layout": pat, "fix": fix})
    if n == 0:
        raise AnalysisError("no timestamp generator found")
    # the encoder's 52= operand is the generator
    enc = repo.func("Codec.encode")
    ops = [unparse(c.args[0].right.elts[1]) for c in walk_no_nested(enc) if isinstance(c, ast.Call) and isinstance(c.func, ast.Attribute) and c.func.attr == "append"
           and c.args and isinstance(c.args[0], ast.BinOp) and isinstance(c.args[0].right, ast.Tuple) and unparse(c.args[0].right.elts[0]) == "FTag.SendingTime"]
    # (an operand first put into a local that is assigned once is that value)
    from sa.guards import single_defs as _single_defs
    _sd = _single_defs(enc)
    ops = [unparse(_sd[o]) if o in _sd else o for o in ops]
    ctx.instance(rule, "Codec.encode[52 := current_datetime()]", ops == ["self.current_datetime()"], f"SendingTime(52) is emitted from {ops}", loc(enc))
