"""C10 - the decoder is total, makes progress and never accepts a corrupted frame.

Static escape analysis of ``Codec.decode`` with ``silent`` fixed to True: every operation
that can raise on attacker-controlled text needs a dominating guard or an enclosing
handler.  Plus: progress of the consumed length, the reader cannot wedge, the checksum
(and BodyLength) tests gate the message return, a malformed frame leaves its neighbours.
"""
from __future__ import annotations

import ast
import re

from sa.cfg import CFG
from sa.core import AnalysisError, loc, short, unparse, walk_no_nested
from sa.decoder import DecoderView, ReaderView
from sa.guards import (def_nodes, edge_facts, fact_edges, facts, guarded, local_facts, node_exprs,
                       stores, unprotected_path)
from sa.resolve import Resolver

SAFE_BUILTINS = {"len", "sum", "ord", "min", "max", "range", "type", "str", "bytes", "isinstance", "enumerate",
                 "list", "tuple", "bool", "repr", "abs", "reversed", "sorted", "zip", "any", "all", "set", "dict"}
SAFE_METHODS = {"find", "rfind", "split", "rsplit", "partition", "rpartition", "join", "isdigit", "isascii",
                "isdecimal", "endswith", "startswith", "strip", "lstrip", "rstrip", "append", "lower", "upper",
                "error", "warning", "info", "debug", "exception", "get", "count", "replace", "items", "keys",
                "values", "extend", "copy", "format"}
TOTAL_CODECS = {"latin-1", "latin1", "iso-8859-1", "iso8859-1", "l1"}


def digit_facts(text):
    return {(f"{text}.isdigit()", True), (f"{text}.isdecimal()", True)}


def digits_guarded(g, nid, root, x, text, names):
    """`text` is known to be ASCII decimal digits where x is evaluated: isdecimal(), or isdigit()
    together with isascii() (isdigit alone admits superscript digits, which int() rejects)."""
    ok, w = guarded(g, nid, root, x, {(f"{text}.isdecimal()", True)}, names)
    if ok:
        return True, None
    ok1, w1 = guarded(g, nid, root, x, {(f"{text}.isdigit()", True)}, names)
    ok2, w2 = guarded(g, nid, root, x, {(f"{text}.isascii()", True)}, names)
    return (ok1 and ok2), (w1 or w2)


def handler_catches(node, fn, names):
    """Is ``node`` inside a try body whose handlers catch one of ``names`` (or everything)
    without re-raising?"""
    p = getattr(node, "_parent", None)
    child = node
    while p is not None and p is not fn:
        if isinstance(p, ast.Try) and child in p.body:
            for h in p.handlers:
                hn = []
                if h.type is None:
                    hn = ["BaseException"]
                elif isinstance(h.type, ast.Tuple):
                    hn = [unparse(e).split(".")[-1] for e in h.type.elts]
                else:
                    hn = [unparse(h.type).split(".")[-1]]
                if set(hn) & (set(names) | {"Exception", "BaseException"}):
                    if not any(isinstance(x, ast.Raise) for st in h.body for x in walk_no_nested(st)):
                        return True
        child = p
        p = getattr(p, "_parent", None)
    return False


def callee_raises(repo, res, qual, depth=3, seen=None):
    """Exception class names a repo function may raise (own raise statements, transitively)."""
    seen = seen if seen is not None else set()
    if qual in seen or depth < 0:
        return set()
    seen.add(qual)
    fn = repo.functions.get(qual)
    out = set()
    if fn is None:
        return out
    for n in walk_no_nested(fn):
        if isinstance(n, ast.Raise) and n.exc is not None:
            e = n.exc.func if isinstance(n.exc, ast.Call) else n.exc
            out.add(unparse(e).split(".")[-1])
        if isinstance(n, ast.Call):
            kind, name = res.resolve(n, fn)
            if kind == "func":
                out |= callee_raises(repo, res, name, depth - 1, seen)
            elif kind == "class":
                out |= callee_raises(repo, res, f"{name}.__init__", depth - 1, seen)
    return out


def run(ctx):
    repo = ctx.repo
    res = Resolver(repo)
    dv = DecoderView(repo)
    fn, g = dv.fn, dv.cfg
    R1, R2, R3, R4, R4B, R5 = ("C10.escape", "C10.progress", "C10.reader-cannot-wedge", "C10.checksum-gates-return",
                               "C10.bodylength-gates-return", "C10.malformed-consumes-all")
    R6 = "C10.wait-only-for-open-frame"
    ctx.rule(R1, "with silent=True no exception can leave Codec.decode: every int()/unpack/index/dict lookup/raising callee/"
                 "group-context attribute access on attacker-controlled text has a dominating guard or an enclosing handler")
    ctx.rule(R2, "the consumed length is built from the frame start, non-negative frame lengths and the buffer length; a "
                 "message-returning path consumes a positive length; the reader's inner loop leaves only without progress or with an empty buffer")
    ctx.rule(R3, "either decode cannot raise (rule 1) or the reader's catch-all handler advances/clears the receive buffer")
    ctx.rule(R4, "a message is returned only under a flag that is set solely where the parsed CheckSum equals sum(ord)+SOH mod 256 over the fields before it")
    ctx.rule(R4B, "a message is returned only when a comparison ties the parsed BodyLength to the actual position of the CheckSum field")
    ctx.rule(R5, "a malformed-frame verdict after the frame start was found does not report the whole buffer as consumed")
    ctx.rule(R6, "a path that consumes nothing of the candidate frame (wait for more bytes) is taken only while the frame is not delimited by its trailer or by the next frame")
    ctx.assumptions += ["decode is analysed with silent=True (assert silent, ... cannot fail)",
                        "str/bytes methods find/split/join/isdigit/decode('latin-1') and logging calls do not raise (trusted catalogue)",
                        "the invariant 'group stack non-empty <=> current context is a group context' is the decoder's own discriminator; its maintenance is C01 rule 8"]

    escapes = []

    def report(node, construct, what, path=None):
        escapes.append((construct, what, loc(node), [repr(g.nodes[i]) for i in (path or [])][-8:]))

    ctx_only = group_ctx_attrs(repo)
    stack_vars = stack_names(fn)
    n_sites = 0
    for node in g.nodes:
        for root in node_exprs(node):
            if isinstance(root, ast.Assert):
                if dv.silent and isinstance(root.test, ast.Name) and root.test.id == dv.silent:
                    continue  # cannot fail under silent=True; the message expression is not evaluated
                n_sites += 1
                report(root, f"assert[{short(root.test, 40)}]", "assertion on message data can fail in silent mode")
                continue
            for x in walk_no_nested(root):
                n_sites += check_site(ctx, repo, res, dv, node, root, x, report, ctx_only, stack_vars)
    # one obligation per risky site examined; findings keyed by construct
    seen = set()
    for construct, what, where, path in escapes:
        if construct in seen:
            continue
        seen.add(construct)
        ctx.instance(R1, f"Codec.decode[{construct}]", False, what, where, path)
    for _ in range(max(0, n_sites - len(seen))):
        ctx.instance(R1, "Codec.decode[guarded site]", True)
    ctx.floor(R1, 12)

    # ------------------------------------------------------------------ rule 2 progress
    classes = {}
    for r in dv.returns:
        c = dv.length_class(r)
        classes[r.id] = c
        ok = c in ("ALL", "ALL-BUT-TAIL", "KEEP", "FRAME", "ALL-OR-KEEP")
        ctx.instance(R2, f"Codec.decode[return L-class {c.split(':')[0]}]" if ok else f"Codec.decode[return {short(r.ast.value.elts[1], 40)}]", ok,
                     f"consumed length `{short(r.ast.value.elts[1])}` is not built from frame start / frame length / buffer length: "
                     "0 <= consumed <= len(buffer) is no longer visible", loc(r.ast),
                     sample={"rule": R2, "return_line": r.line, "class": c, "message": dv.is_message_return(r)})
    # the BodyLength term is non-negative: int() of it sits under a digit guard (shared with rule 1) -> nothing extra.
    # ALL-BUT-TAIL: the kept tail is bounded by the buffer length
    for r in dv.returns:
        if classes[r.id] == "ALL-BUT-TAIL":
            keep = r.ast.value.elts[1].right
            ok = tail_bounded(dv, keep)
            ctx.instance(R2, "Codec.decode[kept tail bounded]", ok,
                         f"kept tail `{short(keep)}` is not visibly bounded by the buffer length (consumed could become negative)", loc(r.ast))
    # message return consumes > 0: FRAME class with a positive constant in the frame length
    for r in dv.returns:
        if dv.is_message_return(r):
            ok = classes[r.id] == "FRAME" and positive_frame_len(dv, r)
            ctx.instance(R2, "Codec.decode[message return consumes > 0]", ok,
                         "the message-returning path does not add a visibly positive frame length to the frame start: the reader's loop may spin", loc(r.ast))
    rv = ReaderView(repo)
    reader_progress(ctx, R2, rv)

    # ------------------------------------------------------------------ rule 3
    decode_total = not escapes
    h_ok, h_where = reader_handler_advances(rv)
    ctx.instance(R3, "socket_read_task[catch-all around decode]", decode_total or h_ok,
                 "Codec.decode can raise (rule C10.escape) and the reader's catch-all handler loops back with the receive buffer unchanged: "
                 "the same bytes raise again on every read and the connection stops processing input for good", h_where)

    # ------------------------------------------------------------------ rule 4
    checksum_rule(ctx, R4, dv)
    bodylength_rule(ctx, R4B, dv)

    # ------------------------------------------------------------------ rule 5
    sp = getattr(dv.start_search()[0], "_parent", None)
    if not (isinstance(sp, ast.Assign) and isinstance(sp.targets[0], ast.Name)):
        raise AnalysisError("decode: the frame-start search is not assigned to a local")
    sname = sp.targets[0].id
    marker_found_edges = fact_edges(g, {(f"{sname} != -1", True), (f"{sname} >= 0", True), (f"{sname} > -1", True)})
    for r in dv.returns:
        if dv.is_message_return(r):
            continue
        c = classes[r.id]
        # is this return reachable only after the marker was found?
        after_marker = unprotected_path(g, r.id, [], marker_found_edges, exc=False) is None
        if not after_marker:
            continue
        ok = c != "ALL"
        ctx.instance(R5, f"Codec.decode[{guard_label(g, r.id)}]", ok,
                     "a malformed-frame verdict reports len(buffer) as consumed: every valid frame already queued behind the bad one is discarded",
                     loc(r.ast), sample={"rule": R5, "return_line": r.line, "class": c})
    # ... and does not report more than up to the next frame start inside the bad frame's extent: the dropped length comes out of a
    # re-synchronisation scan - a ranged search (lower bound behind the frame's own marker) for the same marker the frame-start search uses
    _sc, _sr, start_lit = dv.start_search()
    start_txt = start_lit.decode("latin-1") if isinstance(start_lit, bytes) else start_lit
    resyncs = dv.resync_scans()
    # the scan starts strictly behind the frame's own start: `start + k`, k >= 1 over the buffer (k >= 1 alone over the text cut at the start);
    # from the start itself it finds the frame's own marker, the bad frame "ends" where it begins, nothing is consumed and the reader is stuck
    from sa.decoder import linear_forms
    for c_ in resyncs:
        cn = next((n.id for n in g.nodes if n.kind in ("stmt", "test") and n.ast is not None and any(x is c_ for x in ast.walk(n.ast))), None)
        if cn is None:
            continue
        forms = linear_forms(dv, c_.args[1], cn)
        if not forms:
            continue
        over_buf = unparse(c_.func.value) == dv.buf
        verdicts = []
        for terms, cst in forms:
            starts = [k for k in terms if dv.sources(ast.Name(id=k.split("@")[0], ctx=ast.Load()), cn) == {"START"}] if over_buf else []
            other = [k for k in terms if k not in starts]
            if other or (over_buf and (len(starts) != 1 or terms[starts[0]] != 1)):
                verdicts.append(None)
            else:
                verdicts.append(cst >= 1)
        if any(v is None for v in verdicts):
            continue
        ctx.instance(R5, f"Codec.decode[resync scan starts behind the frame start: {short(c_, 40)}]", all(verdicts),
                     f"`{short(c_)}` looks for the next frame start from the bad frame's own first byte (or before it): it finds the frame's own marker, "
                     "the length dropped for the bad frame is 0 and the reader sees the same bytes again and again", loc(c_))

    def derived_calls(e, at, seen=None, depth=0):
        seen = set() if seen is None else seen
        out = [x for x in ast.walk(e) if isinstance(x, ast.Call)]
        if depth > 6:
            return out
        for x in ast.walk(e):
            if isinstance(x, ast.Name) and x.id not in (dv.buf, "self"):
                for d in dv.rd[at].get(x.id, set()):
                    if (d, x.id) in seen:
                        continue
                    seen.add((d, x.id))
                    v = getattr(g.nodes[d].ast, "value", None)
                    if v is not None:
                        out += derived_calls(v, d, seen, depth + 1)
        return out
    n_drop = 0
    for r in dv.returns:
        if dv.is_message_return(r) or classes[r.id] in ("ALL", "ALL-BUT-TAIL", "KEEP"):
            continue
        if unprotected_path(g, r.id, [], marker_found_edges, exc=False) is not None:
            continue
        n_drop += 1
        ok = any(c_ in resyncs for c_ in derived_calls(r.ast.value.elts[1], r.id))
        ctx.instance(R5, f"Codec.decode[{guard_label(g, r.id)}: resync]", ok,
                     "the length dropped for a bad frame does not come out of a scan for the next frame start marker inside the frame's extent: a bad frame "
                     "whose closing SOH was corrupted takes the head of the following valid frame along", loc(r.ast))
    if n_drop < 3:
        raise AnalysisError(f"decode: only {n_drop} drop-the-bad-frame return paths found")
    # ... while a frame that IS returned as a message is consumed to its own end: the re-synchronisation point (an earlier marker-like
    # text inside the frame, e.g. a Text field quoting a header) is not its length
    for r in dv.returns:
        if dv.is_message_return(r):
            bad_ = any(c_ in resyncs for c_ in derived_calls(r.ast.value.elts[1], r.id))
            ctx.instance(R2, "Codec.decode[message return consumes the frame, not up to a resync point]", not bad_,
                         "the length reported with a decoded message can come out of the bad-frame re-synchronisation scan: a valid frame whose value contains the "
                         "marker text is consumed only up to that text, the rest of it is parsed again as garbage", loc(r.ast))
    ctx.floor(R5, 5)

    # ------------------------------------------------------------------ rule 6
    from sa.decoder import delimited_flags
    flags = delimited_flags(dv)
    n6 = 0
    for r in dv.returns:
        if dv.is_message_return(r) or classes[r.id] != "KEEP":
            continue
        if unprotected_path(g, r.id, [], marker_found_edges, exc=False) is not None:
            continue
        n6 += 1
        fs = set()
        for t, lab in g.guards(r.id, exc=False):
            fs |= facts(t, lab == "true")
        ok = any((f, False) in fs for f in flags)
        ctx.instance(R6, f"Codec.decode[{guard_label(g, r.id, flags)}]", ok,
                     "this path consumes nothing ('wait for more bytes') although the frame may already be delimited by its own trailer or by the next "
                     "frame: nothing more will arrive for it, so the same bytes are re-examined on every read and every frame behind them is blocked for good",
                     loc(r.ast), sample={"rule": R6, "return_line": r.line, "delimited_flags": sorted(flags)})
    # ... and the flag those paths trust says "delimited" wherever the closing SOH of the frame's own trailer was found: from the edge on which
    # that search hit, no path reaches a waiting return without (re)defining the flag, unless what the flag already holds there is implied
    # by the hit (a definition that mentions `<that search result> != -1` as a disjunct)
    end_vars = {nm for nm, ks in getattr(dv, "_search_kinds", {}).items() if "end" in ks}
    n6b = 0
    for t in g.nodes:
        if t.kind != "test":
            continue
        hit = [lab for lab in ("true", "false") if any(a.split(" ")[0] in end_vars and ((a.endswith("!= -1") and tv) or (a.endswith("== -1") and not tv))
                                                       for a, tv in facts(t.ast, lab == "true"))]
        for lab in hit:
            for f in sorted(flags):
                fdefs = {n.id for n in g.nodes if n.kind == "stmt" and isinstance(n.ast, ast.Assign) and any(unparse(x) == f for x in n.ast.targets)}
                n6b += 1
                implied = True
                for d in dv.rd[t.id].get(f, set()):
                    v = getattr(g.nodes[d].ast, "value", None)
                    disj = v.values if isinstance(v, ast.BoolOp) and isinstance(v.op, ast.Or) else [v]
                    if not ((isinstance(v, ast.Constant) and v.value is True) or any(
                            isinstance(x, ast.Compare) and len(x.ops) == 1 and isinstance(x.ops[0], ast.NotEq) and unparse(x.left) in end_vars
                            and unparse(x.comparators[0]) == "-1" for x in disj)):
                        implied = False
                if implied:
                    continue
                for r in dv.returns:
                    if dv.is_message_return(r) or classes[r.id] != "KEEP":
                        continue
                    fs = set()
                    for t2, lab2 in g.guards(r.id, exc=False):
                        fs |= facts(t2, lab2 == "true")
                    if (f, False) not in fs:
                        continue
                    w = None
                    for d2, l2 in g.succs(t.id, False):
                        if l2 == lab and d2 not in fdefs:
                            w = [d2] if d2 == r.id else g.witness_path(d2, [r.id], avoid=fdefs, exc=False)
                            if w:
                                break
                    ctx.instance(R6, f"Codec.decode[{f} set where the trailer's closing SOH was found: {guard_label(g, r.id, flags)}]", not w,
                                 f"the closing SOH of the frame's CheckSum trailer was found, but `{f}` is not set on the way to this waiting return: a complete "
                                 "frame that turns out too short / longer than its BodyLength says is kept in the buffer for good and blocks every frame behind it",
                                 loc(t.ast))
    if flags and end_vars and not n6b:
        raise AnalysisError("decode: the test on the search for the trailer's closing SOH was not found")
    # a delimited frame consumes its own extent, never a BodyLength-derived count
    augs = [n for n in g.nodes if n.kind == "stmt" and isinstance(n.ast, ast.AugAssign) and "BODYLEN" in dv.sources(n.ast.value, n.id)]
    for a in augs:
        lv = unparse(a.ast.target)
        fa = set()
        for t, lab in g.guards(a.id, exc=False):
            fa |= facts(t, lab == "true")
        if any((f, False) in fa for f in flags):
            # the BodyLength-derived count is added only where the frame is known NOT to be delimited
            ctx.instance(R5, "Codec.decode[delimited frame consumes its own extent]", True, "", loc(a.ast))
            continue
        fixes = []
        for n in g.nodes:
            if n.kind == "stmt" and isinstance(n.ast, ast.Assign) and unparse(n.ast.targets[0]) == lv and n.id != a.id:
                src = dv.sources(n.ast.value, n.id)
                fs = set()
                for t, lab in g.guards(n.id, exc=False):
                    fs |= facts(t, lab == "true")
                if "BODYLEN" not in src and "START" in src and any((f, True) in fs for f in flags):
                    fixes.append(n.id)
        open_edges = fact_edges(g, {(f, False) for f in flags})
        bad = None
        for r in dv.returns:
            if not g.reaches(a.id, r.id, exc=False):
                continue
            if lv not in {x.id for x in ast.walk(r.ast.value.elts[1]) if isinstance(x, ast.Name)}:
                continue
            w = unprotected_path(g, r.id, [a.id], open_edges, fixes, exc=False)
            if w is not None and w[0] == a.id:
                bad = (r, w)
                break
        ctx.instance(R5, "Codec.decode[delimited frame consumes its own extent]", bad is None,
                     f"after `{short(a.ast)}` a return reports the BodyLength-derived length although the frame is delimited in the buffer: a too large "
                     "BodyLength (one corrupted digit) makes the decoder swallow bytes of the following frame", loc(a.ast),
                     [repr(g.nodes[i]) for i in (bad[1] if bad else [])][-8:])
    if n6 < 2:
        raise AnalysisError(f"decode: only {n6} wait-for-more return paths found")


# ---------------------------------------------------------------------------- helpers
def group_ctx_attrs(repo):
    """Attributes only the group-context class has (assigned in its __init__, absent from FIXContainer)."""
    try:
        init = repo.func("_RepeatingGroupContext.__init__")
    except AnalysisError:
        return set()
    own = {t.attr for n in walk_no_nested(init) if isinstance(n, ast.Assign) for t in n.targets
           if isinstance(t, ast.Attribute) and isinstance(t.value, ast.Name) and t.value.id == "self"}
    base = set()
    for q, f in repo.functions.items():
        if q.startswith("FIXContainer."):
            for n in walk_no_nested(f):
                if isinstance(n, (ast.Assign, ast.AnnAssign)):
                    for t in (n.targets if isinstance(n, ast.Assign) else [n.target]):
                        if isinstance(t, ast.Attribute) and isinstance(t.value, ast.Name) and t.value.id == "self":
                            base.add(t.attr)
    base |= {q.split(".", 1)[1] for q in repo.functions if q.startswith("FIXContainer.")}
    return own - base


def stack_names(fn):
    """Locals initialised to an empty list and later `.append`ed a context: the group stack."""
    out = set()
    for n in walk_no_nested(fn):
        if isinstance(n, ast.Assign) and isinstance(n.value, ast.List) and not n.value.elts and isinstance(n.targets[0], ast.Name):
            nm = n.targets[0].id
            if any(isinstance(c, ast.Call) and unparse(c.func) == f"{nm}.append" for c in walk_no_nested(fn)):
                out.add(nm)
    return out


def fresh_ctx_names(fn):
    """Locals whose every definition is a group-context constructor call."""
    out = {}
    for n in walk_no_nested(fn):
        if isinstance(n, ast.Assign) and len(n.targets) == 1 and isinstance(n.targets[0], ast.Name):
            out.setdefault(n.targets[0].id, []).append(n.value)
    return {k for k, vs in out.items() if all(isinstance(v, ast.Call) and unparse(v.func) == "_RepeatingGroupContext" for v in vs)}


def check_site(ctx, repo, res, dv, node, root, x, report, ctx_only, stack_vars):
    """Examine one expression node; returns 1 if it was a risky site (guarded or not)."""
    g, fn = dv.cfg, dv.fn
    fresh = fresh_ctx_names(fn)
    # ---- int(text)
    if isinstance(x, ast.Call) and isinstance(x.func, ast.Name) and x.func.id == "int" and x.args:
        a = x.args[0]
        t = unparse(a)
        names = [n.id for n in ast.walk(a) if isinstance(n, ast.Name)]
        if isinstance(a, ast.Constant):
            return 0
        if handler_catches(x, fn, {"ValueError"}):
            return 1
        ok, w = digits_guarded(g, node.id, root, x, t, names)
        if not ok:
            report(x, f"int({t})", f"int({t}) on frame text without a dominating {t}.isdigit() guard or ValueError handler: raises on non-numeric text", w)
        return 1
    # ---- tuple unpack
    if isinstance(x, ast.Assign) and isinstance(x.targets[0], ast.Tuple) and not isinstance(x.value, ast.Tuple):
        n = len(x.targets[0].elts)
        v = x.value
        if isinstance(v, ast.Call) and isinstance(v.func, ast.Attribute) and unparse(v.func.value).endswith("decode") is False \
                and isinstance(v.func.value, ast.Attribute) and v.func.attr == "decode":
            return 0
        if isinstance(v, ast.Name):
            wanted = {(f"len({v.id}) == {n}", True)}
            ok, w = guarded(g, node.id, root, x, wanted, [v.id])
            if not ok:
                report(x, f"unpack[{v.id}]", f"`{short(x)}` unpacks {n} values without a dominating len({v.id}) == {n} test", w)
            return 1
        if isinstance(v, ast.Call) and isinstance(v.func, ast.Attribute) and v.func.attr in ("partition", "rpartition") and n == 3:
            return 1
        if isinstance(v, ast.Call) and isinstance(v.func, ast.Attribute) and v.func.attr == "split":
            ok = first_field_lemma(dv, v, node, root, x)
            if not ok:
                report(x, f"unpack[{short(v, 30)}]", f"`{short(x)}` unpacks a split() result whose length is not established "
                                                     "(the first-field lemma 'text starts at the marker, which contains the separator, and is cut only at SOH' does not apply)")
            return 1
        report(x, f"unpack[{short(v, 30)}]", f"`{short(x)}` unpacks a value of unknown length")
        return 1
    # ---- subscripts
    if isinstance(x, ast.Subscript) and not isinstance(x.slice, ast.Slice) and isinstance(x.value, ast.Name) \
            and not isinstance(getattr(x, "_parent", None), ast.Delete):
        nm = x.value.id
        if isinstance(x.ctx, ast.Store):
            return 0
        kconst = const_int(x.slice)
        if kconst is not None:
            k = kconst
            need = k + 1 if k >= 0 else -k
            wanted = set()
            for m in range(need, need + 8):
                wanted |= {(f"len({nm}) >= {m}", True), (f"len({nm}) > {m - 1}", True), (f"len({nm}) == {m}", True)}
            if need == 1:
                # a split() result always has at least one element
                rd = dv.rd[node.id].get(nm, set())
                if rd and all(is_split_def(g.nodes[d].ast) for d in rd):
                    return 1
                wanted |= {(nm, True)}
            ok, w = guarded(g, node.id, root, x, wanted, [nm])
            if not ok:
                report(x, f"index[{nm}[{k}]]", f"`{nm}[{k}]` without a dominating length test: IndexError on a short field list", w)
            return 1
        idx = unparse(x.slice)
        names = [n.id for n in ast.walk(x.slice) if isinstance(n, ast.Name)]
        ok, w = guarded(g, node.id, root, x, {(f"{idx} in {nm}", True)}, names + [nm])
        if not ok:
            report(x, f"lookup[{nm}[{idx}]]", f"`{nm}[{idx}]` without a dominating `{idx} in {nm}` test: KeyError/IndexError", w)
        return 1
    # ---- del stack[-1]
    if isinstance(x, ast.Delete):
        for t in x.targets:
            if isinstance(t, ast.Subscript) and isinstance(t.value, ast.Name):
                nm = t.value.id
                ok, w = guarded(g, node.id, root, x, {(nm, True)}, [],
                                extra_killers=[n.id for n in g.nodes if n is not node and any(isinstance(d, ast.Delete) for d in node_exprs(n))])
                # the same statement block may delete once after a test; the loop re-tests before the next one
                if not ok:
                    report(x, f"del[{nm}]", f"`{short(x)}` without a dominating non-empty test of {nm}", w)
                return 1
        return 0
    # ---- group-context-only attribute on a variable that may be the root message
    if isinstance(x, ast.Attribute) and isinstance(x.ctx, ast.Load) and x.attr in ctx_only and isinstance(x.value, ast.Name):
        nm = x.value.id
        if nm in fresh or nm == "self":
            return 0
        return check_ctx_attr(dv, node, root, x, nm, report, stack_vars, fresh)
    # ---- calls
    if isinstance(x, ast.Call):
        return check_call(ctx, repo, res, dv, node, root, x, report, fresh)
    # ---- % formatting arity
    if isinstance(x, ast.BinOp) and isinstance(x.op, ast.Mod) and isinstance(x.left, ast.Constant) and isinstance(x.left.value, str):
        nspec = len(re.findall(r"%(?!%)[-#0 +]*\d*(?:\.\d+)?[sdifrxXeEgGc]", x.left.value.replace("%%", "")))
        nargs = len(x.right.elts) if isinstance(x.right, ast.Tuple) else 1
        if nspec != nargs:
            report(x, f"format[{short(x.left, 24)}]", f"%-format with {nspec} specifier(s) and {nargs} argument(s): TypeError when evaluated")
        return 1
    return 0


def const_int(e):
    if isinstance(e, ast.Constant) and isinstance(e.value, int) and not isinstance(e.value, bool):
        return e.value
    if isinstance(e, ast.UnaryOp) and isinstance(e.op, ast.USub) and isinstance(e.operand, ast.Constant) and isinstance(e.operand.value, int):
        return -e.operand.value
    return None


def is_split_def(a):
    return isinstance(a, ast.Assign) and isinstance(a.value, ast.Call) and isinstance(a.value.func, ast.Attribute) \
        and a.value.func.attr in ("split", "rsplit")


_DEPTH_CACHE: dict = {}


def ctx_depth_states(dv, nm, stack_vars):
    """Typestate of the group parser, per CFG node (state on entry): (delta, lo) with
        delta = depth(nm) - len(stack)     (depth: 0 = the root message, k = a group context k levels down)
        lo    = a lower bound of len(stack) known from the tests passed
    plus, for locals that hold a context, their own delta.  `nm.parent` / `.tag` / `.repeating_group_tags` exist iff
    depth(nm) >= 1, i.e. lo + delta >= 1.  Effects: append -> (delta-1, lo+1); del stack[-1] / pop -> (delta+1, lo-1);
    nm = nm.parent -> delta-1; nm = <ctx built with parent P> -> delta(P)+1; a test of the stack narrows lo.
    None as a delta means 'not known' (different values meet).  Independent of the order in which a block performs
    its stack / current-context updates."""
    key = (id(dv.cfg), nm)
    if key in _DEPTH_CACHE:
        return _DEPTH_CACHE[key]
    g = dv.cfg
    stack = next(iter(stack_vars)) if len(stack_vars) == 1 else None
    TOP = "?"

    def depth_of(e, st):
        """delta of the context an expression denotes, else TOP"""
        d, lo, loc_ = st
        if isinstance(e, ast.Name):
            if e.id == nm:
                return d
            return loc_.get(e.id, TOP)
        if isinstance(e, ast.Attribute) and e.attr == "parent":
            b = depth_of(e.value, st)
            return TOP if b == TOP else b - 1
        if isinstance(e, ast.Call) and unparse(e.func) == "_RepeatingGroupContext" and len(e.args) == 3:
            b = depth_of(e.args[2], st)
            return TOP if b == TOP else b + 1
        return TOP

    def shift(st, k):
        d, lo, loc_ = st
        return (d if d == TOP else d + k, lo, {a: (b if b == TOP else b + k) for a, b in loc_.items()})

    def transfer(node, st):
        d, lo, loc_ = st
        for r in node_exprs(node):
            if node.kind == "test":
                continue
            if isinstance(r, ast.Expr) and isinstance(r.value, ast.Call) and isinstance(r.value.func, ast.Attribute) and unparse(r.value.func.value) == stack:
                if r.value.func.attr == "append":
                    d, lo, loc_ = shift((d, lo + 1, loc_), -1)
                elif r.value.func.attr == "pop":
                    d, lo, loc_ = shift((d, max(lo - 1, 0), loc_), +1)
                elif r.value.func.attr in ("clear", "insert", "extend", "remove"):
                    d, loc_ = TOP, {}
                    lo = 0
            elif isinstance(r, ast.Delete) and any(isinstance(t, ast.Subscript) and unparse(t.value) == stack for t in r.targets):
                d, lo, loc_ = shift((d, max(lo - 1, 0), loc_), +1)
            elif isinstance(r, ast.Assign) and len(r.targets) == 1 and isinstance(r.targets[0], ast.Name):
                t = r.targets[0].id
                if t == stack:
                    # the stack is (re)bound: only the empty display keeps anything known (handled by the caller: lo = 0)
                    d, lo, loc_ = TOP, 0, {}
                    continue
                v = depth_of(r.value, (d, lo, loc_))
                if t == nm:
                    d = v  # nm := the root message is given delta 0 by the caller (the stack is the empty display there)
                else:
                    loc_ = dict(loc_)
                    if v == TOP:
                        loc_.pop(t, None)
                    else:
                        loc_[t] = v
        return (d, lo, loc_)

    root_names = {n.targets[0].id for n in walk_no_nested(dv.fn) if isinstance(n, ast.Assign) and len(n.targets) == 1 and isinstance(n.targets[0], ast.Name)
                  and isinstance(n.value, ast.Call) and unparse(n.value.func) == "FIXMessage"}

    def join(a, b):
        if a is None:
            return b
        d1, lo1, l1 = a
        d2, lo2, l2 = b
        d = d1 if d1 == d2 else TOP
        loc_ = {k: l1[k] for k in l1 if k in l2 and l1[k] == l2[k]}
        return (d, min(lo1, lo2), loc_)

    state = {g.entry: (TOP, 0, {})}
    work = [g.entry]
    rounds = 0
    while work and rounds < 20000:
        rounds += 1
        nid = work.pop()
        st = state[nid]
        node = g.nodes[nid]
        # initial binding of nm to the root message while the stack is the empty literal: delta = 0
        out = transfer(node, st)
        a = node.ast
        if node.kind == "stmt" and isinstance(a, ast.Assign) and len(a.targets) == 1 and isinstance(a.targets[0], ast.Name):
            if a.targets[0].id == stack and isinstance(a.value, ast.List) and not a.value.elts:
                # stack := []: nm keeps its depth; the set-up code binds nm to the root next to it, see below
                out = (st[0], 0, out[2])
            if a.targets[0].id == nm and isinstance(a.value, ast.Name) and a.value.id in root_names:
                # nm := root message, depth 0.  delta = depth - len = 0 only if the stack is empty here: it is when nothing was
                # appended yet on any path to this node (lower bound 0 and no append reaches it)
                appended = any(isinstance(x.ast, ast.Expr) and isinstance(x.ast.value, ast.Call) and unparse(x.ast.value.func) == f"{stack}.append"
                               and g.reaches(x.id, nid, exc=False) for x in g.nodes if x.kind == "stmt" and x.ast is not None)
                out = (0 if not appended else TOP, out[1], out[2])
        for dst, lab in g.succs(nid, exc=True):
            o = out
            if node.kind == "test" and lab in ("true", "false") and stack is not None:
                fs = facts(node.ast, lab == "true")
                if (stack, True) in fs:
                    o = (o[0], max(o[1], 1), o[2])
            new = join(state.get(dst), o)
            if new != state.get(dst):
                state[dst] = new
                work.append(dst)
    _DEPTH_CACHE[key] = state
    return state


def check_ctx_attr(dv, node, root, x, nm, report, stack_vars, fresh):
    g = dv.cfg
    # typestate first: depth(nm) >= 1 at this node whatever order the block updates stack and context in
    st = ctx_depth_states(dv, nm, stack_vars).get(node.id)
    if st is not None and st[0] != "?" and st[1] + st[0] >= 1:
        return 1
    wanted = {(s, True) for s in stack_vars} | {(f"type({nm}) is _RepeatingGroupContext", True),
                                                 (f"isinstance({nm}, _RepeatingGroupContext)", True)}
    # without a stack: `nm is not <root message>` says the same, provided nm only ever holds the root message, a fresh group
    # context or the parent of a context (then "not the root" = "a group context")
    root_names = {n.targets[0].id for n in walk_no_nested(dv.fn) if isinstance(n, ast.Assign) and len(n.targets) == 1 and isinstance(n.targets[0], ast.Name)
                  and isinstance(n.value, ast.Call) and unparse(n.value.func) == "FIXMessage"}
    nm_values = [n.value for n in walk_no_nested(dv.fn) if isinstance(n, ast.Assign) and len(n.targets) == 1 and isinstance(n.targets[0], ast.Name)
                 and n.targets[0].id == nm]
    other_stores = sum(1 for n in walk_no_nested(dv.fn) if isinstance(n, ast.Name) and n.id == nm and isinstance(n.ctx, (ast.Store, ast.Del)))
    closed = other_stores == len(nm_values) and all(
        (isinstance(v, ast.Name) and (v.id in root_names or v.id in fresh))
        or (isinstance(v, ast.Call) and unparse(v.func) == "_RepeatingGroupContext")
        or (isinstance(v, ast.Attribute) and v.attr == "parent" and isinstance(v.value, ast.Name) and (v.value.id == nm or v.value.id in fresh))
        for v in nm_values)
    if closed:
        for r_ in root_names:
            wanted |= {(f"{nm} is not {r_}", True), (f"{r_} is not {nm}", True)}
    if local_facts(root, x) & wanted:
        return 1
    killers, est_nodes = set(), set()
    for n in g.nodes:
        if n is node:
            pass
        for r in node_exprs(n):
            if isinstance(r, ast.Delete) and any(isinstance(t, ast.Subscript) and isinstance(t.value, ast.Name) and t.value.id in stack_vars for t in r.targets):
                killers.add(n.id)
            if isinstance(r, ast.Assign) and len(r.targets) == 1 and isinstance(r.targets[0], ast.Name) and r.targets[0].id == nm:
                if isinstance(r.value, ast.Name) and r.value.id in fresh:
                    est_nodes.add(n.id)
                else:
                    killers.add(n.id)
            for c in walk_no_nested(r):
                if isinstance(c, ast.Call) and isinstance(c.func, ast.Attribute) and c.func.attr == "pop" and unparse(c.func.value) in stack_vars:
                    killers.add(n.id)
    killers.discard(node.id) if node.id in est_nodes else None
    w = unprotected_path(g, node.id, killers, fact_edges(g, wanted), est_nodes)
    if w is not None:
        report(x, f"attr[{nm}.{x.attr}@{stmt_label(node)}]",
               f"`{nm}.{x.attr}` is read where {nm} may be the root message (group stack possibly empty): AttributeError", w)
    return 1


def stmt_label(node):
    a = node.ast
    return short(a if node.kind != "test" else a, 36)


def check_call(ctx, repo, res, dv, node, root, x, report, fresh):
    g, fn = dv.cfg, dv.fn
    f = x.func
    if isinstance(f, ast.Name):
        if f.id in SAFE_BUILTINS or f.id == "int":
            return 0
        if f.id in repo.classes:
            # constructor: enum classes raise ValueError for unknown values
            if is_enum_class(repo, f.id):
                if not handler_catches(x, fn, {"ValueError"}):
                    report(x, f"call[{f.id}(...)]", f"{f.id}(<frame text>) raises ValueError for values outside the enum and no handler encloses it")
                return 1
            raises = callee_raises(repo, res, f"{f.id}.__init__", 3)
            args_const = all(isinstance(a, ast.Constant) for a in x.args)
            if raises and not args_const and f.id != "_RepeatingGroupContext" and not handler_catches(x, fn, raises):
                report(x, f"call[{f.id}(...)]", f"constructor {f.id}(...) may raise {sorted(raises)} and nothing catches it")
            return 1
        ctx.note(f"decode calls unknown function {f.id}() at line {x.lineno}: not modelled")
        return 0
    if isinstance(f, ast.Attribute):
        if f.attr == "decode" and isinstance(f.value, ast.Constant) and isinstance(f.value.value, bytes) and f.value.value.isascii():
            return 0  # a literal of ASCII bytes decodes under every codec the library could name
        if f.attr == "decode" and unparse(f.value) != "self":
            codec = x.args[0].value if x.args and isinstance(x.args[0], ast.Constant) else None
            lenient = any(k.arg == "errors" and isinstance(k.value, ast.Constant) and k.value.value in ("replace", "ignore") for k in x.keywords)
            if not (isinstance(codec, str) and codec.lower() in TOTAL_CODECS) and not lenient and not handler_catches(x, fn, {"UnicodeDecodeError", "ValueError"}):
                report(x, f"call[bytes.decode({codec!r})]", f"bytes.decode({codec!r}) is not total: UnicodeDecodeError on arbitrary bytes")
            return 1
        if f.attr == "set":
            return check_set(dv, node, root, x, report, fresh)
        if f.attr == "add_group":
            return check_add_group(dv, node, root, x, report)
        if f.attr in SAFE_METHODS:
            return 0
        kind, name = res.resolve(x, fn)
        if kind == "func":
            raises = callee_raises(repo, res, name, 3)
            if raises and not handler_catches(x, fn, raises):
                report(x, f"call[{name}]", f"{name} may raise {sorted(raises)} and nothing catches it")
            return 1
        ctx.note(f"decode calls unmodelled method .{f.attr}() at line {x.lineno}")
    return 0


def is_enum_class(repo, name):
    c = repo.classes[name]
    seen = set()
    while c is not None and c.name not in seen:
        seen.add(c.name)
        for b in c.bases:
            bn = unparse(b).split(".")[-1]
            if bn in ("Enum", "IntEnum", "StrEnum", "Flag"):
                return True
        nxt = None
        for b in c.bases:
            bn = unparse(b).split(".")[-1]
            if bn in repo.classes:
                nxt = repo.classes[bn]
        c = nxt
    return False


def check_set(dv, node, root, x, report, fresh):
    """X.set(tag, value[, replace]) - raise set of FIXContainer.set: non-integer tag, duplicate tag."""
    g, fn = dv.cfg, dv.fn
    recv = unparse(x.func.value)
    if not x.args:
        return 1
    tag = unparse(x.args[0])
    tnames = [n.id for n in ast.walk(x.args[0]) if isinstance(n, ast.Name)]
    ok, w = digits_guarded(g, node.id, root, x, tag, tnames)
    if not ok and not handler_catches(x, fn, {"FIXMessageError"}):
        report(x, f"set[{recv}:tag-not-numeric]", f"`{short(x)}`: FIXContainer.set raises FIXMessageError for a non-integer tag and `{tag}` has no dominating "
                                                f"{tag}.isdigit() guard", w)
    # duplicate
    replace = (len(x.args) > 2 and isinstance(x.args[2], ast.Constant) and x.args[2].value is True) or \
        any(k.arg == "replace" and isinstance(k.value, ast.Constant) and k.value.value is True for k in x.keywords)
    val_is_class = len(x.args) > 1 and isinstance(x.args[1], ast.Name) and x.args[1].id in dv.repo.classes
    if replace or val_is_class or handler_catches(x, fn, {"DuplicatedTagError"}):
        return 1
    wanted = {(f"{tag} in {recv}", False), (f"{tag} in {recv}.tags", False), (f"{tag} not in {recv}", True), (f"{tag} not in {recv}.tags", True)}
    if local_facts(root, x) & wanted:
        return 1
    killers, est_nodes = set(), set()
    for n in g.nodes:
        st = stores(n)
        if set(tnames) & st:
            killers.add(n.id)
        if recv in st:
            a = n.ast
            if isinstance(a, ast.Assign) and isinstance(a.value, ast.Name) and a.value.id in fresh:
                est_nodes.add(n.id)
            else:
                killers.add(n.id)
    w = unprotected_path(g, node.id, killers, fact_edges(g, wanted), est_nodes)
    if w is not None:
        report(x, f"set[{recv}:duplicate]", f"`{short(x)}` can hit a tag already present in {recv}: DuplicatedTagError", w)
    return 1


MODELLED_RAISES = {
    # callee -> the raise sites the escape analysis knows how to exclude, as (exception, atom that must guard it)
    "FIXContainer.add_group": [("FIXMessageError", r"isinstance\(\w+, FIXContainer\)"), ("FIXMessageError", r"isinstance\(\w+, _FIXRepeatingGroupContainer\)")],
    "FIXContainer.set": [("FIXMessageError", None), ("DuplicatedTagError", r"\w+ in self\.tags|self\.tags\.get\(\w+\) is not None")],  # (a value that is not None implies the key is present)
}


def unmodelled_raises(repo, qual):
    """Raise statements of a container method that are not in the modelled list (new failure modes the decoder does not guard)."""
    from sa.cfg import CFG as _CFG
    fn = repo.functions.get(qual)
    if fn is None:
        return []
    g = _CFG(fn)
    out = []
    for n in g.nodes:
        if n.kind == "stmt" and isinstance(n.ast, ast.Raise) and n.ast.exc is not None:
            e = n.ast.exc.func if isinstance(n.ast.exc, ast.Call) else n.ast.exc
            name = unparse(e).split(".")[-1]
            atoms = {a for t, lab in g.guards(n.id, exc=True) for a, tv in facts(t, lab == "true")}
            in_handler = any(isinstance(p, ast.ExceptHandler) for p in _ancestors(n.ast))
            ok = False
            for exc, atom in MODELLED_RAISES.get(qual, []):
                if exc == name and (atom is None and in_handler or atom is not None and any(re.search(atom, a) for a in atoms)):
                    ok = True
            if not ok:
                out.append((name, n.ast, sorted(atoms)[:3]))
    return out


def _ancestors(node):
    p = getattr(node, "_parent", None)
    while p is not None:
        yield p
        p = getattr(p, "_parent", None)


def check_add_group(dv, node, root, x, report):
    """add_group(tag, ctx) raises when the tag exists as a simple tag: group-opening tags must never be
    stored with set() - every set(tag) is dominated by the 'not a group tag' edge of the dispatch."""
    g, fn = dv.cfg, dv.fn
    for q in ("FIXContainer.add_group", "FIXContainer.set"):
        for name, rnode, atoms in unmodelled_raises(dv.repo, q):
            if not handler_catches(x, fn, {name}):
                report(x, f"callee[{q} raises {name}]", f"{q} has a failure mode the decoder does not exclude or catch: `{short(rnode)}` under {atoms} - "
                                                      "frame text that triggers it makes decode(silent=True) raise and wedges the reader", None)
    table_names = {unparse(n.targets[0]) for n in walk_no_nested(fn) if isinstance(n, ast.Assign) and "repeating_groups" in unparse(n.value)
                   and isinstance(n.targets[0], ast.Name)}
    bad = []
    for n in g.nodes:
        for r in node_exprs(n):
            for c in walk_no_nested(r):
                if isinstance(c, ast.Call) and isinstance(c.func, ast.Attribute) and c.func.attr == "set" and c.args:
                    tag = unparse(c.args[0])
                    wanted = set()
                    for tn in table_names:
                        wanted |= {(f"{tag} in {tn}", False), (f"{tag} not in {tn}", True)}
                    tnames = [m.id for m in ast.walk(c.args[0]) if isinstance(m, ast.Name)]
                    ok, w = guarded(g, n.id, r, c, wanted, tnames)
                    if not ok:
                        bad.append((c, w))
    if bad:
        c, w = bad[0]
        report(x, "add_group[group tag stored as simple tag]",
               f"`{short(c)}` can store a group-opening tag as a simple tag; a later add_group on it raises FIXMessageError", w)
    return 1


def first_field_lemma(dv, split_call, node, root, x):
    """`M[0].split(sep, 1)` has two parts: M is the SOH-split of text starting at the marker found
    on the buffer, the marker contains sep and no SOH, every cut of the text is at an SOH-anchored
    position, and the not-found case has returned."""
    fn = dv.fn
    if not (len(split_call.args) == 2 and isinstance(split_call.args[1], ast.Constant) and split_call.args[1].value == 1):
        return False
    sep = dv.fold_str(split_call.args[0])
    recv = split_call.func.value
    if not (isinstance(recv, ast.Subscript) and isinstance(recv.slice, ast.Constant) and recv.slice.value == 0 and isinstance(recv.value, ast.Name)):
        return False
    m = recv.value.id
    # the buffer search
    start, _r, marker = dv.start_search()
    if marker is None or sep is None:
        return False
    sepb = sep.encode() if isinstance(marker, bytes) and isinstance(sep, str) else sep
    sohb = dv.soh.encode() if isinstance(marker, bytes) else dv.soh
    if sepb not in marker or sohb in marker:
        return False
    # the not-found case has returned before the text is used
    sp = getattr(start, "_parent", None)
    if not (isinstance(sp, ast.Assign) and isinstance(sp.targets[0], ast.Name)):
        return False
    sn = sp.targets[0].id
    ok, _w = guarded(dv.cfg, node.id, root, x, {(f"{sn} != -1", True), (f"{sn} >= 0", True), (f"{sn} > -1", True)}, [sn])
    if not ok:
        return False
    # all text searches that can cut the frame are SOH-anchored
    rs_ = dv.resync_scans()
    for call, rtxt, lit in dv.searches():
        if rtxt == dv.buf or call in rs_:
            continue
        if lit is None or not lit.startswith(dv.soh):
            return False
    # M derives from a split on SOH
    from sa.guards import derivation
    vals = derivation(fn, m, 0).get(m, [])
    has_split = False
    for v in vals:
        if isinstance(v, ast.Call) and isinstance(v.func, ast.Attribute) and v.func.attr == "split" and v.args and dv.fold_str(v.args[0]) == dv.soh:
            has_split = True
        elif isinstance(v, ast.Subscript) and isinstance(v.value, ast.Name) and v.value.id == m and isinstance(v.slice, ast.Slice) and v.slice.lower is None:
            continue
        elif isinstance(v, ast.Call) and isinstance(v.func, ast.Attribute) and v.func.attr == "decode" and isinstance(v.func.value, ast.Subscript) \
                and unparse(v.func.value.value) == dv.buf and isinstance(v.func.value.slice, ast.Slice) and v.func.value.slice.lower is not None \
                and v.func.value.slice.upper is None and is_start_name(dv, v.func.value.slice.lower, start):
            continue  # the text itself: the buffer from the marker on
        else:
            return False
    return has_split


def is_start_name(dv, e, start_call):
    from sa.guards import derivation
    if not isinstance(e, ast.Name):
        return False
    vals = derivation(dv.fn, e.id, 0).get(e.id, [])
    # (re-assigning the "not found" value -1 where the search failed changes nothing)
    vals = [v for v in vals if not (unparse(v) == "-1")]
    return len(vals) == 1 and vals[0] is start_call


def tail_bounded(dv, keep_expr):
    if not isinstance(keep_expr, ast.Name):
        return False
    from sa.guards import derivation
    vals = derivation(dv.fn, keep_expr.id, 0).get(keep_expr.id, [])
    if not vals:
        return False
    for v in vals:
        if isinstance(v, ast.Constant) and v.value == 0:
            continue
        if isinstance(v, ast.Name):
            # loop variable of range(min(len(buf), k), 0, -1)
            lv = derivation(dv.fn, v.id, 0).get(v.id, [])
            if lv and all(f"min(len({dv.buf})" in unparse(e) for e in lv):
                continue
        return False
    return True


def positive_frame_len(dv, r):
    """The frame length added on the message path contains a positive constant / len of a literal."""
    from sa.guards import derivation
    e = r.ast.value.elts[1]
    names = {x.id for x in ast.walk(e) if isinstance(x, ast.Name)}
    for nm in names:
        for d in dv.rd[r.id].get(nm, set()):
            a = dv.cfg.nodes[d].ast
            added = None
            if isinstance(a, ast.AugAssign) and isinstance(a.op, ast.Add):
                added = a.value
            elif isinstance(a, ast.Assign) and isinstance(a.value, ast.BinOp) and isinstance(a.value.op, ast.Add):
                added = a.value  # `x = start + length`, the plain form of `x = start; x += length`
            if added is not None:
                for y in ast.walk(added):
                    if isinstance(y, ast.Name):
                        for v in derivation(dv.fn, y.id, 0).get(y.id, []):
                            for z in ast.walk(v):
                                if isinstance(z, ast.Constant) and isinstance(z.value, int) and z.value > 0:
                                    return True
                                if isinstance(z, ast.Call) and unparse(z.func) == "len" and z.args and isinstance(z.args[0], ast.Constant) and len(z.args[0].value) > 0:
                                    return True
    return False


def reader_progress(ctx, R2, rv):
    """Inner loop of the reader: leaves without a message only if nothing was consumed or the
    buffer is empty; the buffer is advanced by exactly the consumed length."""
    g = rv.cfg
    fn = rv.fn
    dn = rv.decode_nodes[0]
    a = g.nodes[dn].ast
    if not (isinstance(a, ast.Assign) and isinstance(a.targets[0], ast.Tuple) and len(a.targets[0].elts) == 3):
        raise AnalysisError("socket_read_task: the decode result is no longer unpacked into three names")
    msg_n, len_n, raw_n = [unparse(e) for e in a.targets[0].elts]
    buf = unparse(rv.decode_call.args[0]) if rv.decode_call.args else "?"
    # buffer advance
    adv = [n for n in g.nodes if n.kind == "stmt" and isinstance(n.ast, ast.Assign) and unparse(n.ast.targets[0]) == buf
           and isinstance(n.ast.value, ast.Subscript) and isinstance(n.ast.value.slice, ast.Slice)]
    ok = bool(adv) and all(unparse(n.ast.value.value) == buf and n.ast.value.slice.lower is not None and unparse(n.ast.value.slice.lower) == len_n
                           and n.ast.value.slice.upper is None for n in adv)
    ctx.instance(R2, "socket_read_task[buffer advanced by the consumed length]", ok,
                 f"the receive buffer is not replaced by its own suffix starting at the decoder's consumed length `{len_n}`", loc(a))
    # breaks reachable after the decode in the same loop with a positive length and a non-empty buffer
    breaks = [n for n in g.nodes if n.kind == "stmt" and isinstance(n.ast, ast.Break)]
    for b in breaks:
        if not g.reaches(dn, b.id, exc=False):
            continue
        gs = g.guards(b.id, exc=False)
        fs = set()
        for t, lab in gs:
            fs |= facts(t, lab == "true")
        if (f"{msg_n} is None", True) not in fs:
            continue
        stalled = (f"{len_n} > 0", False) in fs or (f"{len_n} == 0", True) in fs or (buf, False) in fs or (f"len({buf}) == 0", True) in fs
        # in general: the tests passed on the way to the break (flag locals read through their definition) cannot all hold
        # together with "bytes were consumed AND the buffer is not empty"
        if not stalled:
            stalled = not _satisfiable_with_progress(fn, gs, len_n, buf)
        # `if progress and buffer: continue` before the break
        cont_guard = False
        for n in g.nodes:
            if n.kind == "stmt" and isinstance(n.ast, ast.Continue) and g.reaches(dn, n.id, exc=False):
                fs2 = set()
                for t, lab in g.guards(n.id, exc=False):
                    fs2 |= facts(t, lab == "true")
                if (f"{msg_n} is None", True) in fs2 and (f"{len_n} > 0", True) in fs2:
                    cont_guard = True
        ctx.instance(R2, "socket_read_task[leaves the decode loop only without progress]", stalled or cont_guard,
                     "the decode loop breaks on 'no message' although bytes were consumed: valid frames queued behind a skipped bad frame wait for the next socket read",
                     loc(b.ast))


def _satisfiable_with_progress(fn, guards_, len_n, buf):
    """Can every (test, branch) in guards_ hold while `len_n > 0` and the buffer is non-empty?  Propositional check: the two
    progress atoms are fixed to True in all their spellings, every other atom is free (enumerated)."""
    import itertools
    from sa.guards import resolved
    P = {f"{len_n} > 0": True, f"{len_n} != 0": True, f"{len_n} >= 1": True, f"0 < {len_n}": True, len_n: True,
         f"{len_n} == 0": False, f"{len_n} <= 0": False, f"{len_n} < 1": False}
    Q = {buf: True, f"len({buf}) > 0": True, f"len({buf}) != 0": True, f"bool({buf})": True, f"len({buf})": True, f"0 < len({buf})": True,
         f"len({buf}) == 0": False, f"not {buf}": False, f"{buf} == b''": False, f"{buf} != b''": True}
    fixed = dict(P)
    fixed.update(Q)
    tests = [(resolved(fn, t), lab == "true") for t, lab in guards_ if lab in ("true", "false")]
    free = []

    def atoms(e):
        if isinstance(e, ast.BoolOp):
            for v in e.values:
                atoms(v)
        elif isinstance(e, ast.UnaryOp) and isinstance(e.op, ast.Not):
            atoms(e.operand)
        else:
            t = unparse(e)
            if t not in fixed and t not in free:
                free.append(t)
    for t, _ in tests:
        atoms(t)
    if len(free) > 10:
        return True

    def ev(e, asg):
        if isinstance(e, ast.BoolOp):
            vals = [ev(v, asg) for v in e.values]
            return all(vals) if isinstance(e.op, ast.And) else any(vals)
        if isinstance(e, ast.UnaryOp) and isinstance(e.op, ast.Not):
            return not ev(e.operand, asg)
        t = unparse(e)
        return fixed[t] if t in fixed else asg[t]
    for combo in itertools.product((True, False), repeat=len(free)):
        asg = dict(zip(free, combo))
        if all(ev(t, asg) == want for t, want in tests):
            return True
    return False


def reader_handler_advances(rv):
    g = rv.cfg
    p = getattr(rv.decode_call, "_parent", None)
    tr = None
    while p is not None and p is not rv.fn:
        if isinstance(p, ast.Try):
            tr = p
            break
        p = getattr(p, "_parent", None)
    if tr is None:
        return False, loc(rv.decode_call)
    for h in tr.handlers:
        nm = "BaseException" if h.type is None else unparse(h.type)
        if nm.split(".")[-1] in ("Exception", "BaseException"):
            writes = any(isinstance(x, ast.Attribute) and isinstance(x.ctx, ast.Store) and "buffer" in x.attr
                         for st in h.body for x in walk_no_nested(st))
            leaves = any(isinstance(x, (ast.Return, ast.Raise, ast.Break)) for st in h.body for x in walk_no_nested(st))
            return (writes or leaves), loc(h)
    return True, loc(tr)  # no catch-all: an exception ends the task visibly (not a silent wedge)


def checksum_rule(ctx, R4, dv):
    g, fn = dv.cfg, dv.fn
    from sa.guards import derivation

    def int_calls(expr_text):
        """int(X) calls the expression (or the locals it names) is computed from."""
        out = []
        try:
            e = ast.parse(expr_text, mode="eval").body
        except SyntaxError:
            return out
        todo = [e]
        for x in ast.walk(e):
            if isinstance(x, ast.Name):
                todo += derivation(fn, x.id, 0).get(x.id, [])
        for t in todo:
            for c in ast.walk(t):
                if isinstance(c, ast.Call) and isinstance(c.func, ast.Name) and c.func.id == "int" and c.args:
                    out.append(unparse(c.args[0]))
        return out

    def shape_ok(expr_text):
        try:
            e = ast.parse(expr_text, mode="eval").body
        except SyntaxError:
            return False
        if isinstance(e, ast.Name):
            vals = derivation(fn, e.id, 0).get(e.id, [])
            return bool(vals) and all(checksum_shape(dv, v) for v in vals)
        return checksum_shape(dv, e)

    for r in dv.returns:
        if not dv.is_message_return(r):
            continue
        gs = g.guards(r.id, exc=False)
        flags = [unparse(t) for t, lab in gs if isinstance(t, ast.Name) and lab == "true"]
        # ... or reached on the false edge of `not flag` (the bad verdict returned first, the message after it)
        for t, lab in gs:
            for a_, tv_ in facts(t, lab == "true"):
                if tv_ and re.fullmatch(r"\w+", a_) and a_ not in flags:
                    flags.append(a_)
        done = False
        for flag in flags:
            dn = [n for n in g.nodes if n.kind == "stmt" and flag in stores(n)]
            trues = [n for n in dn if isinstance(n.ast.value, ast.Constant) and n.ast.value.value is True]
            others = [n for n in dn if not (isinstance(n.ast.value, ast.Constant) and n.ast.value.value in (True, False))]
            if not trues or others:
                continue
            done = True
            ok, why = True, ""
            for tnode in trues:
                eq = None
                for t, lab in g.guards(tnode.id, exc=False):
                    for atom, tv in facts(t, lab == "true"):
                        m = re.fullmatch(r"(.+) == (.+)", atom)
                        if m and tv:
                            a, b = m.group(1).strip(), m.group(2).strip()
                            for parsed, comp in ((a, b), (b, a)):
                                if int_calls(parsed) and shape_ok(comp):
                                    eq = (parsed, comp, t)
                if eq is None:
                    ok, why = False, (f"`{flag} = True` at line {tnode.line} is not dominated by an equality test between int(<CheckSum text>) and "
                                      "(sum(ord(c) for c in <fields before CheckSum joined by SOH>) + 1) % 256")
                    break
                # the acceptor of the CheckSum text is lexically strict: exactly three ASCII digits
                calls = [c for c in ast.walk(eq[2]) if isinstance(c, ast.Call) and isinstance(c.func, ast.Name) and c.func.id == "int" and c.args]
                for x in ast.walk(eq[2]):
                    if isinstance(x, ast.Name):
                        for v in derivation(fn, x.id, 0).get(x.id, []):
                            calls += [c for c in ast.walk(v) if isinstance(c, ast.Call) and isinstance(c.func, ast.Name) and c.func.id == "int" and c.args]
                for c in calls:
                    for nid in g.ids_of(c):
                        n = g.nodes[nid]
                        root = node_exprs(n)[0] if node_exprs(n) else None
                        if root is None:
                            continue
                        t_ = unparse(c.args[0])
                        nm = [y.id for y in ast.walk(c.args[0]) if isinstance(y, ast.Name)]
                        strict, _w = digits_guarded(g, nid, root, c, t_, nm)
                        three, _w2 = guarded(g, nid, root, c, {(f"len({t_}) == 3", True)}, nm)
                        if not (strict and three) and ok:
                            ok, why = False, (f"int({t_}) parses the CheckSum text without a dominating 'exactly three ASCII digits' guard: int() also accepts "
                                              "signs, blanks, '_' and extra leading zeros, so a byte inserted into the CheckSum field still yields the right number")
            dom = g.dominators(exc=False)
            falses = [n.id for n in dn if isinstance(n.ast.value, ast.Constant) and n.ast.value.value is False]
            init_false = any(all(f in dom.get(t.id, ()) for t in trues) and f in dom.get(r.id, ()) for f in falses)
            if ok and not init_false:
                ok, why = False, f"`{flag}` is not initialised to False before the field loop"
            ctx.instance(R4, f"Codec.decode[{flag} set only on checksum equality]", ok,
                         why + ": a frame whose bytes do not match its CheckSum can be returned as a message", loc(r.ast),
                         sample={"rule": R4, "flag": flag, "true_assignments": [n.line for n in trues]})
        if not done:
            ctx.instance(R4, "Codec.decode[message return under the checksum flag]", False,
                         "no boolean flag with constant assignments gates the message return", loc(r.ast))
    ctx.floor(R4, 1)


def checksum_shape(dv, v):
    """v is (sum(ord(c) for c in SOH.join(fields[:-1])) + 1) % 256 up to arithmetic re-association: evaluated to the normal
    form (summed text, constant offset mod 256, reduced mod 256 at the top), through locals."""
    from sa.guards import derivation

    def through(e, depth=0):
        """the expressions a Name stands for (its definitions), else the expression itself"""
        if isinstance(e, ast.Name) and depth < 4:
            vals = derivation(dv.fn, e.id, 0).get(e.id, [])
            return vals or [e]
        return [e]

    def norm(e, depth=0):
        """-> (text expr, offset, reduced) or None"""
        if depth > 8:
            return None
        if isinstance(e, ast.Name):
            outs = [norm(x, depth + 1) for x in through(e) if x is not e]
            outs = [o for o in outs if o is not None]
            if not outs or any((unparse(o[0]), o[1], o[2]) != (unparse(outs[0][0]), outs[0][1], outs[0][2]) for o in outs):
                return None
            return outs[0]
        if isinstance(e, ast.BinOp) and isinstance(e.op, ast.Mod) and isinstance(e.right, ast.Constant) and e.right.value == 256:
            a = norm(e.left, depth + 1)
            return None if a is None else (a[0], a[1] % 256, True)
        if isinstance(e, ast.BinOp) and isinstance(e.op, ast.Add):
            for x, c in ((e.left, e.right), (e.right, e.left)):
                if isinstance(c, ast.Constant) and isinstance(c.value, int):
                    a = norm(x, depth + 1)
                    return None if a is None else (a[0], a[1] + c.value, False)
            return None
        if isinstance(e, ast.Call) and isinstance(e.func, ast.Name) and e.func.id == "sum" and len(e.args) == 1 and isinstance(e.args[0], (ast.ListComp, ast.GeneratorExp)):
            comp = e.args[0]
            if len(comp.generators) == 1 and not comp.generators[0].ifs and isinstance(comp.generators[0].target, ast.Name) \
                    and unparse(comp.elt) == f"ord({comp.generators[0].target.id})":
                return (comp.generators[0].iter, 0, False)
        return None

    n = norm(v)
    if n is None or not n[2]:
        return False
    text, off, _ = n
    for te in through(text):
        if isinstance(te, ast.Call) and isinstance(te.func, ast.Attribute) and te.func.attr == "join" and len(te.args) == 1 and dv.fold_str(te.func.value) == dv.soh \
                and unparse(te.args[0]).endswith("[:-1]"):
            # + the SOH that follows the last summed field
            return off % 256 == ord(dv.soh) % 256
    return False


def bodylength_rule(ctx, R4B, dv):
    g, fn = dv.cfg, dv.fn
    for r in dv.returns:
        if not dv.is_message_return(r):
            continue
        found = False
        for t, lab in g.guards(r.id, exc=False):
            for x in ast.walk(t):
                if isinstance(x, ast.Compare) and len(x.ops) == 1 and isinstance(x.ops[0], (ast.Eq, ast.NotEq)):
                    sides = [x.left, x.comparators[0]]
                    kinds = [dv.sources(s, r.id) for s in sides]
                    for a, b in ((0, 1), (1, 0)):
                        if "BODYLEN" in kinds[a] and ({"TEXTSEARCH", "TEXTLEN"} & kinds[b]) and "BODYLEN" not in kinds[b]:
                            found = True
        ctx.instance(R4B, "Codec.decode", found,
                     "no equality test ties the parsed BodyLength to the actual position of the CheckSum field: a corruption that keeps the byte sum "
                     "(e.g. an inserted NUL byte) is returned as a message", loc(r.ast))


def guard_label(g, nid, ignore=()):
    """Name a return path by the innermost branch condition that leads to it."""
    gs = [(t, lab) for t, lab in g.guards(nid, exc=False) if not (isinstance(t, ast.Name) and t.id in ignore)]
    if not gs:
        return "unconditional"
    # innermost = the dominating test closest to the node (largest line number below the node)
    from sa.core import positions
    _pos = positions(g.fn) if hasattr(g, "fn") else {}
    me = g.nodes[nid].ast
    line = _pos.get(id(me), g.nodes[nid].line) if me is not None else g.nodes[nid].line
    best = None
    for t, lab in gs:
        pt = _pos.get(id(t), t.lineno)
        if pt <= line and (best is None or pt >= _pos.get(id(best[0]), best[0].lineno)):
            best = (t, lab)
    t, lab = best or gs[-1]
    return ("" if lab == "true" else "not ") + short(t, 48)
