"""C18 - message containers are ordered tag maps with strict duplicate rules (structural clauses)."""
from __future__ import annotations

import ast
import re

from sa.cfg import CFG
from sa.guards import facts, reaching_defs
from sa.core import AnalysisError, loc, short, unparse, walk_no_nested
from sa.fold import EnumVal, Folder

CLS = "FIXContainer"


def _tags_accesses(fn):
    """(kind, key expr, node) for every keyed access to self.tags in fn."""
    out = []
    for n in walk_no_nested(fn):
        if isinstance(n, ast.Subscript) and unparse(n.value) == "self.tags":
            kind = "store" if isinstance(n.ctx, ast.Store) else "del" if isinstance(n.ctx, ast.Del) else "load"
            out.append((kind, n.slice, n))
        if isinstance(n, ast.Call) and isinstance(n.func, ast.Attribute) and unparse(n.func.value) == "self.tags" \
                and n.func.attr in ("get", "pop", "setdefault", "__getitem__", "__contains__") and n.args:
            out.append((n.func.attr, n.args[0], n))
        if isinstance(n, ast.Compare) and len(n.ops) == 1 and isinstance(n.ops[0], (ast.In, ast.NotIn)) \
                and unparse(n.comparators[0]) == "self.tags":
            out.append(("in", n.left, n))
    return out


def _is_tag_lookup(e):
    """``self.tags.get(...)`` / ``self.tags[...]`` / ``X.tags.get(...)``"""
    if isinstance(e, ast.Call) and isinstance(e.func, ast.Attribute) and e.func.attr == "get" and unparse(e.func.value).endswith(".tags"):
        return True
    if isinstance(e, ast.Subscript) and unparse(e.value).endswith(".tags") and isinstance(e.ctx, ast.Load):
        return True
    return False


def _local_assigned(fn, pred):
    for n in walk_no_nested(fn):
        if isinstance(n, ast.Assign) and len(n.targets) == 1 and isinstance(n.targets[0], ast.Name) and pred(n.value):
            return n.targets[0].id
    return None


def _is_str_call(e):
    return isinstance(e, ast.Call) and isinstance(e.func, ast.Name) and e.func.id == "str" and len(e.args) == 1


def _normalised(key, fn):
    if _is_str_call(key):
        return True
    if isinstance(key, ast.Name):
        defs = [n.value for n in walk_no_nested(fn) if isinstance(n, ast.Assign) and len(n.targets) == 1
                and isinstance(n.targets[0], ast.Name) and n.targets[0].id == key.id]
        # loop variables over self.tags itself are already normalised keys
        loops = [n for n in walk_no_nested(fn) if isinstance(n, (ast.For, ast.comprehension))
                 and key.id in {x.id for x in ast.walk(n.target) if isinstance(x, ast.Name)}]
        if loops and not defs:
            return all("self.tags" in unparse(l.iter) or ".items()" in unparse(l.iter) for l in loops)
        params = {a.arg for a in fn.args.args}
        if not defs:
            return False
        if key.id in params:
            # parameter rebound by `tag = str(tag)`: the rebinding must dominate the use (checked by caller through CFG)
            return all(_is_str_call(d) for d in defs)
        return all(_is_str_call(d) for d in defs)
    return False


def block_of_stmt(stmt):
    p = getattr(stmt, "_parent", None)
    for field in ("body", "orelse", "finalbody"):
        lst = getattr(p, field, None)
        if isinstance(lst, list) and stmt in lst:
            return lst
    return None


def run(ctx):
    repo = ctx.repo
    fold = Folder(repo)
    methods = repo.methods(CLS)
    ctx.rule("C18.spelling-independence", "every keyed access to self.tags uses str(<tag>) (directly or through a local defined only by it, defined before the use); FTag.__str__ yields the value; set() validates int(str(tag)) and converts only ValueError")
    ctx.rule("C18.atomic-refusal", "in set/set_group/add_group no raise is reachable after a mutation of the container")
    ctx.rule("C18.duplicate-rule", "set() stores only when replace is requested, the tag is absent, or the value is a class marker; add_group on an existing tag checks it is a group")
    ctx.rule("C18.stored-as-string", "set() stores str(value) for every non-class value; a replaced tag keeps its position (no delete/re-insert)")
    ctx.rule("C18.typed-lookups", "get / get_group_list / get_group_by_index map missing, marker, plain and group tags to the documented errors, index bound check is two-sided, first match wins")
    ctx.rule("C18.equality", "container equality compares content injectively; dict equality ignores exactly tags 8, 9, 10, 35")
    ctx.rule("C18.order-preserved", "tags is an insertion-ordered mapping created once; no method sorts or rebuilds it; group lists change only by append/insert")
    ctx.assumptions += ["dict/OrderedDict keep insertion order and a store to an existing key keeps its position (trusted)"]

    # ---- rule 1
    for name, fn in methods.items():
        acc = _tags_accesses(fn)
        g = None
        for kind, key, node in acc:
            ok = _normalised(key, fn)
            if ok and isinstance(key, ast.Name):
                # the normalising assignment must dominate the access
                g = g or CFG(fn)
                defs = [n for n in walk_no_nested(fn) if isinstance(n, ast.Assign) and len(n.targets) == 1
                        and isinstance(n.targets[0], ast.Name) and n.targets[0].id == key.id]
                if defs:
                    dom = g.dominators(exc=False)
                    use_nodes = g.ids_of(node)
                    def_nodes = [i for d in defs for i in g.ids_of(d)]
                    ok = all(any(d in dom[u] for d in def_nodes) for u in use_nodes)
            ctx.instance("C18.spelling-independence", f"{CLS}.{name}[{kind} self.tags[{short(key, 20)}]]", ok,
                         f"{name}() accesses self.tags with `{short(key, 30)}` which is not str(<tag>): an int / enum spelling of a tag misses the entry stored under its string form",
                         loc(node))
    ctx.floor("C18.spelling-independence", 8)
    fs = repo.func("FTag.__str__")
    rets = [r for r in walk_no_nested(fs) if isinstance(r, ast.Return)]
    ctx.instance("C18.spelling-independence", "FTag.__str__", len(rets) == 1 and unparse(rets[0].value) in ("str(self.value)", "self.value"),
                 "FTag.__str__ no longer returns the tag number", loc(fs))
    fe, fh = repo.func("FTag.__eq__"), repo.func("FTag.__hash__")
    o = fe.args.args[1].arg
    r1 = [r for r in walk_no_nested(fe) if isinstance(r, ast.Return)]
    r2 = [r for r in walk_no_nested(fh) if isinstance(r, ast.Return)]
    ctx.instance("C18.spelling-independence", "FTag.__eq__/__hash__",
                 len(r1) == 1 and unparse(r1[0].value) in (f"self.value == str({o})", f"str({o}) == self.value")
                 and len(r2) == 1 and unparse(r2[0].value) == "hash(self.value)",
                 "FTag no longer compares / hashes by value: a str tag does not hit an enum key", loc(fe))
    setf = methods.get("set")
    if setf is None:
        raise AnalysisError("FIXContainer.set vanished")
    trys = [t for t in walk_no_nested(setf) if isinstance(t, ast.Try)]
    ok = False
    for t in trys:
        from sa.guards import resolved as _resolved
        body_src = " ".join(unparse(_resolved(setf, s_)) if isinstance(s_, ast.Expr) else unparse(s_) for s_ in t.body)
        if "int(str(" in body_src:
            hs = [unparse(h.type) if h.type is not None else "<bare>" for h in t.handlers]
            raises = [r for h in t.handlers for r in walk_no_nested(h) if isinstance(r, ast.Raise)]
            ok = hs == ["ValueError"] and bool(raises) and all("FIXMessageError" in unparse(r.exc) for r in raises if r.exc is not None)
    ctx.instance("C18.spelling-independence", "set[int(str(tag)) validation]", ok,
                 "set() no longer validates the tag with int(str(tag)) converting only ValueError into FIXMessageError: non-integer tags are accepted or the wrong error escapes", loc(setf))

    # ---- rule 2: atomic refusal
    for name in ("set", "set_group", "add_group"):
        fn = methods.get(name)
        if fn is None:
            raise AnalysisError(f"FIXContainer.{name} vanished")
        g = CFG(fn)
        muts = []
        for n in g.nodes:
            if n.kind != "stmt":
                continue
            for x in walk_no_nested(n.ast):
                if isinstance(x, ast.Subscript) and unparse(x.value) == "self.tags" and isinstance(x.ctx, (ast.Store, ast.Del)):
                    muts.append(n.id)
                if isinstance(x, ast.Call) and isinstance(x.func, ast.Attribute) and unparse(x.func.value) == "self.tags" \
                        and x.func.attr in ("pop", "clear", "update", "setdefault", "popitem", "move_to_end"):
                    muts.append(n.id)
        # appending to an *existing* group container is a mutation too
        if name == "add_group":
            for n in g.nodes:
                if n.kind == "stmt" and "add_group(" in unparse(n.ast) and "self.tags" not in unparse(n.ast):
                    guards = [unparse(t) for t, lab in g.guards(n.id) if lab == "true"]
                    if any(" in self" in s for s in guards):
                        muts.append(n.id)
        raises = [n.id for n in g.nodes if n.kind == "stmt" and isinstance(n.ast, ast.Raise)]
        after = g.reach(muts, exc=False)
        bad = [r for r in raises if r in after]
        ctx.instance("C18.atomic-refusal", f"{CLS}.{name}", not bad and bool(muts),
                     f"{name}() can raise after it has already changed the container ({[repr(g.nodes[b]) for b in bad][:1]}): a refused write does not leave it unchanged",
                     loc(g.nodes[bad[0]].ast) if bad else loc(fn))

    # ---- rule 3 + stored-as-string
    g = CFG(setf)
    stores = [n.id for n in g.nodes if n.kind == "stmt" and isinstance(n.ast, ast.Assign)
              and any(isinstance(t, ast.Subscript) and unparse(t.value) == "self.tags" for t in n.ast.targets)]
    if not stores:
        raise AnalysisError("set(): no store into self.tags found")
    store = stores[-1]
    cls_tests = [n.id for n in g.nodes if n.kind == "test" and unparse(n.ast).startswith("_isclass(")]
    key_local = _local_assigned(setf, lambda v: isinstance(v, ast.Call) and unparse(v.func) == "str" and len(v.args) == 1) or "t"
    K = re.escape(key_local)
    present = rf"({K} in self\.tags(\.keys\(\))?|self\.tags\.get\({K}\) is not None)"
    absent = rf"({K} not in self\.tags(\.keys\(\))?|self\.tags\.get\({K}\) is None)"

    def _establishes(t_ast, lab):
        """leaving this test this way means: replace was requested, or the key is absent, or the value is a class marker"""
        fs_ = facts(t_ast, lab == "true")
        if any((tv and (a == "replace" or re.fullmatch(absent, a) or re.fullmatch(r"_isclass\(\w+\)", a))) or ((not tv) and re.fullmatch(present, a)) for a, tv in fs_):
            return True
        # the false edge of `not replace and <present>` (either order) / the true edge of `replace or <absent>`
        if isinstance(t_ast, ast.BoolOp):
            parts = [unparse(v) for v in t_ast.values]
            if lab == "false" and isinstance(t_ast.op, ast.And) and all(p_ == "not replace" or re.fullmatch(present, p_) for p_ in parts):
                return True
            if lab == "true" and isinstance(t_ast.op, ast.Or) and all(p_ == "replace" or re.fullmatch(absent, p_) for p_ in parts):
                return True
        return False
    est = {(n.id, lab) for n in g.nodes if n.kind == "test" for lab in ("true", "false") if _establishes(n.ast, lab)}
    from sa.guards import unprotected_path as _unprot
    leak = None
    for st_ in stores:
        w_ = _unprot(g, st_, [], est, exc=False)
        leak = leak or w_
    # the refusal is the library's duplicate error: a raise of DuplicatedTagError under `not replace` and <present>
    raises_dup = False
    for n in g.nodes:
        if n.kind == "stmt" and isinstance(n.ast, ast.Raise) and "DuplicatedTagError" in unparse(n.ast):
            fr_ = set()
            for t_, lab_ in g.guards(n.id, exc=False):
                fr_ |= facts(t_, lab_ == "true")
            if any(tv and re.fullmatch(present, a) for a, tv in fr_) and (("replace", False) in fr_ or ("not replace", True) in fr_):
                raises_dup = True
    ok = raises_dup and leak is None and bool(est)
    ctx.instance("C18.duplicate-rule", "set[store guarded]", ok,
                 "set() can overwrite an existing tag without replace=True (the duplicate test no longer guards the store, or no longer raises DuplicatedTagError)", loc(setf))
    ag = methods["add_group"]
    # wherever the container stored under the tag is asked to take the item, it is known to be a group container: checked by
    # isinstance (the other branch raises the library's message error) or built by the constructor on that path
    agg = CFG(ag)
    rda = reaching_defs(agg, exc=False)
    exists_branch_ok = True
    n_sites = 0
    raises_ok = False
    for n in agg.nodes:
        if n.kind not in ("stmt", "test") or n.ast is None:
            continue
        for c in walk_no_nested(n.ast):
            if isinstance(c, ast.Call) and isinstance(c.func, ast.Attribute) and c.func.attr == "add_group" and unparse(c.func.value) != "self":
                n_sites += 1
                R = unparse(c.func.value)
                fs = set()
                for t, lab in agg.guards(n.id, exc=False):
                    fs |= facts(t, lab == "true")
                checked = (f"isinstance({R}, _FIXRepeatingGroupContainer)", True) in fs or (f"type({R}) is _FIXRepeatingGroupContainer", True) in fs
                fresh_only = False
                if isinstance(c.func.value, ast.Name):
                    defs = rda[n.id].get(R, set())
                    fresh_only = bool(defs) and all(isinstance(getattr(agg.nodes[d].ast, "value", None), ast.Call)
                                                    and unparse(agg.nodes[d].ast.value.func) == "_FIXRepeatingGroupContainer" for d in defs)
                per_def = False
                if not (checked or fresh_only) and isinstance(c.func.value, ast.Name):
                    # per definition that reaches the call: built by the constructor, or followed - before the call - by the isinstance
                    # test whose failing edge cannot reach the call
                    tests_ = [t_ for t_ in agg.nodes if t_.kind == "test" and f"isinstance({R}, _FIXRepeatingGroupContainer)" in unparse(t_.ast)]

                    def failing_cannot_reach(t_):
                        for d_, lab_ in agg.succs(t_.id, exc=False):
                            fs_ = facts(t_.ast, lab_ == "true")
                            if (f"isinstance({R}, _FIXRepeatingGroupContainer)", False) in fs_ and (d_ == n.id or agg.reaches(d_, n.id, avoid={t_.id}, exc=False)):
                                return False
                        return True
                    good_tests = {t_.id for t_ in tests_ if failing_cannot_reach(t_)}
                    per_def = bool(defs) and all(
                        (isinstance(getattr(agg.nodes[d].ast, "value", None), ast.Call) and unparse(agg.nodes[d].ast.value.func) == "_FIXRepeatingGroupContainer")
                        or (good_tests and agg.witness_path(d, [n.id], avoid=good_tests, exc=False) is None) for d in defs)
                    if per_def and good_tests:
                        raises_ok = raises_ok or any(r.kind == "stmt" and isinstance(r.ast, ast.Raise) and "FIXMessageError" in unparse(r.ast) for r in agg.nodes)
                if not (checked or fresh_only or per_def):
                    exists_branch_ok = False
                if checked:
                    for r in agg.nodes:
                        if r.kind == "stmt" and isinstance(r.ast, ast.Raise) and "FIXMessageError" in unparse(r.ast):
                            fr = set()
                            for t, lab in agg.guards(r.id, exc=False):
                                fr |= facts(t, lab == "true")
                            if (f"isinstance({R}, _FIXRepeatingGroupContainer)", False) in fr or (f"type({R}) is _FIXRepeatingGroupContainer", False) in fr:
                                raises_ok = True
                else:
                    raises_ok = raises_ok or fresh_only
    exists_branch_ok = exists_branch_ok and n_sites > 0 and raises_ok
    ctx.instance("C18.duplicate-rule", "add_group[existing tag must be a group]", exists_branch_ok,
                 "add_group() on an existing tag does not check that it holds a group before appending: a plain tag yields AttributeError instead of the library's message error", loc(ag))
    # stored as string
    # by value: what is stored is str(<value parameter>) - or the parameter itself where it is known to be a class - at every store,
    # on every path, directly or through a local
    vparam = setf.args.args[2].arg if len(setf.args.args) > 2 else "value"
    rds = reaching_defs(g, exc=False)

    def as_stored(e, at, depth=0):
        if unparse(e) == f"str({vparam})":
            return True
        if unparse(e) == vparam:
            fs_ = set()
            for t_, lab_ in g.guards(at, exc=False):
                fs_ |= facts(t_, lab_ == "true")
            if any(tv and re.fullmatch(r"(_isclass|inspect\.isclass|\w+\._isclass)\(" + re.escape(vparam) + r"\)", a) for a, tv in fs_):
                return True
        if isinstance(e, ast.Name) and depth < 3:
            ds = rds[at].get(e.id, set())
            if e.id in [a_.arg for a_ in setf.args.args] and g.witness_path(g.entry, [at], avoid=ds, exc=False) is not None:
                return False  # the parameter as given reaches this point on a path that passes none of its re-definitions
            return bool(ds) and all(getattr(g.nodes[d].ast, "value", None) is not None and as_stored(g.nodes[d].ast.value, d, depth + 1) for d in ds)
        return False
    val_ok = all(as_stored(g.nodes[st_].ast.value, st_) for st_ in stores)
    ctx.instance("C18.stored-as-string", "set[value := str(value)]", val_ok,
                 "a non-class value can reach the store without str(value): what is read back is not the string form of what was written (e.g. str-subclass enums)", loc(setf))
    dels = [n for n in walk_no_nested(setf) if isinstance(n, ast.Delete) or (isinstance(n, ast.Call) and isinstance(n.func, ast.Attribute)
            and n.func.attr in ("pop", "move_to_end", "popitem") and "self.tags" in unparse(n.func.value))]
    ctx.instance("C18.stored-as-string", "set[replace keeps position]", not dels,
                 "set() deletes / moves the entry before storing: a replaced tag loses its position in the order", loc(dels[0]) if dels else loc(setf))

    # ---- rule 4 typed lookups
    getf = methods["get"]
    src = unparse(getf)
    R = _local_assigned(getf, lambda v: isinstance(v, ast.Call) and unparse(v.func) == "self.tags.get") or "result"
    pairs = [(f"{R} is TagNotFoundError", "TagNotFoundError"), (f"{R} is RepeatingTagError", "RepeatingTagError"),
             (f"isinstance({R}, _FIXRepeatingGroupContainer)", "FIXMessageError")]
    gg = CFG(getf)
    grd = reaching_defs(gg, exc=False)

    def raised_classes(e, at, depth=0):
        """class names an expression raised at node `at` may be an instance of (through the locals it was built in)"""
        if isinstance(e, ast.Call) and isinstance(e.func, ast.Name):
            return {e.func.id}
        if isinstance(e, ast.Name) and depth < 3:
            out = set()
            for d in grd[at].get(e.id, set()):
                v = getattr(gg.nodes[d].ast, "value", None)
                out |= raised_classes(v, d, depth + 1) if v is not None else {"?"}
            return out or {"?"}
        return {"?"}
    for test, err in pairs:
        ok = False
        for n in gg.nodes:
            if n.kind == "stmt" and isinstance(n.ast, ast.Raise) and n.ast.exc is not None and raised_classes(n.ast.exc, n.id) == {err}:
                fs_ = set()
                for t_, lab_ in gg.guards(n.id, exc=False):
                    fs_ |= facts(t_, lab_ == "true")
                if (test, True) in fs_:
                    ok = True
        # ... and whenever the test holds: no path to a normal return on which the test was not seen to fail
        from sa.guards import unprotected_path as _unprot, fact_edges as _fact_edges
        failed_edges = _fact_edges(gg, {(test, False)})
        leak = None
        for n in gg.nodes:
            if n.kind == "stmt" and isinstance(n.ast, ast.Return):
                w = _unprot(gg, n.id, [], failed_edges, exc=False)
                if w is not None:
                    leak = w
        ctx.instance("C18.typed-lookups", f"get[{err}]", ok and leak is None, f"get() no longer maps `{test}` to {err}" +
                     (" on every path: the value can be returned although the test would hold" if ok else ""), loc(getf), gg.describe(leak or [])[-6:])
    ggl = methods["get_group_list"]
    ok1 = ok2 = False
    IG = _local_assigned(ggl, lambda v: isinstance(v, ast.Call) and unparse(v.func) == "self.is_group") or "is_group"
    for n in walk_no_nested(ggl):
        if isinstance(n, ast.If) and unparse(n.test) == f"{IG} is None":
            ok1 = any(isinstance(x, ast.Raise) and unparse(x.exc).startswith("TagNotFoundError(") for x in n.body)
        if isinstance(n, ast.If) and unparse(n.test) == f"not {IG}":
            ok2 = any(isinstance(x, ast.Raise) and unparse(x.exc).startswith("UnmappedRepeatedGrpError(") for x in n.body)
    if not (ok1 and ok2):
        # by facts on the CFG: TagNotFoundError is raised exactly where the lookup verdict is None, UnmappedRepeatedGrpError where it is
        # not None but false, and the list is returned only where it is true
        gl = CFG(ggl)

        def pf_(nid):
            fs_ = set()
            for t_, lab_ in gl.guards(nid, exc=False):
                fs_ |= facts(t_, lab_ == "true")
            return fs_
        r_nf = [n for n in gl.nodes if n.kind == "stmt" and isinstance(n.ast, ast.Raise) and unparse(n.ast.exc).startswith("TagNotFoundError(")]
        r_un = [n for n in gl.nodes if n.kind == "stmt" and isinstance(n.ast, ast.Raise) and unparse(n.ast.exc).startswith("UnmappedRepeatedGrpError(")]
        rets_ = [n for n in gl.nodes if n.kind == "stmt" and isinstance(n.ast, ast.Return)]
        ok1 = bool(r_nf) and all((f"{IG} is None", True) in pf_(n.id) for n in r_nf)
        ok2 = bool(r_un) and all(((f"{IG} is None", False) in pf_(n.id) or (f"{IG} is not None", True) in pf_(n.id)) and (IG, False) in pf_(n.id) for n in r_un) \
            and bool(rets_) and all((IG, True) in pf_(n.id) for n in rets_)
    ctx.instance("C18.typed-lookups", "get_group_list[missing/plain]", ok1 and ok2,
                 "get_group_list() no longer distinguishes a missing tag (TagNotFoundError) from a plain tag (UnmappedRepeatedGrpError)", loc(ggl))
    gi = methods["get_group_by_index"]
    tests = [unparse(n.test) for n in walk_no_nested(gi) if isinstance(n, ast.If)]
    G = _local_assigned(gi, lambda v: isinstance(v, ast.Call) and unparse(v.func) == "self.get_group_list") or "g"
    upper = any(f"index >= len({G})" in t or f"len({G}) <= index" in t for t in tests)
    lower = any(f"index < -len({G})" in t or "index < 0" in t or f"-len({G}) > index" in t or "0 > index" in t for t in tests)
    scan = False
    if not (upper and lower):
        # the same contract written as a scan: `pos = index if index >= 0 else <length> + index`, the item is returned where the running
        # index of a forward enumerate over the list equals pos, and running out of items raises the documented error
        gig = CFG(gi)
        grd_ = reaching_defs(gig, exc=False)
        from sa.guards import resolved as _res
        for lp in [n for n in gig.nodes if n.kind == "for" and isinstance(n.ast, ast.For)]:
            it, tg = lp.ast.iter, lp.ast.target
            if not (isinstance(it, ast.Call) and unparse(it.func) == "enumerate" and len(it.args) == 1 and "get_group_list(" in unparse(_res(gi, it.args[0]))
                    and "reversed" not in unparse(it) and isinstance(tg, ast.Tuple) and len(tg.elts) == 2 and all(isinstance(e_, ast.Name) for e_ in tg.elts)):
                continue
            i_n, item_n = tg.elts[0].id, tg.elts[1].id
            rets_ = [n for n in gig.nodes if n.kind == "stmt" and isinstance(n.ast, ast.Return) and n.ast.value is not None and unparse(n.ast.value) == item_n]
            good = bool(rets_)
            for r_ in rets_:
                fs_ = set()
                for t_, lab_ in gig.guards(r_.id, exc=False):
                    fs_ |= facts(t_, lab_ == "true")
                eqs = [a for a, tv in fs_ if tv and re.fullmatch(rf"{i_n} == \w+|\w+ == {i_n}", a)]
                if not eqs:
                    good = False
                    continue
                pos_n = [x for x in re.split(r" == ", eqs[0]) if x != i_n][0]
                ds = grd_[r_.id].get(pos_n, set())
                if not ds:
                    good = False
                for d in ds:
                    v = getattr(gig.nodes[d].ast, "value", None)
                    fd = set()
                    for t_, lab_ in gig.guards(d, exc=False):
                        fd |= facts(t_, lab_ == "true")
                    if isinstance(v, ast.Name) and v.id == "index" and ("index >= 0", True) in fd:
                        continue
                    if isinstance(v, ast.BinOp) and isinstance(v.op, ast.Add) and ("index >= 0", False) in fd:
                        parts = [unparse(_res(gi, v.left)), unparse(_res(gi, v.right))]
                        if "index" in parts and any(p_.startswith("len(") and "get_group_list(" in p_ for p_ in parts):
                            continue
                    if isinstance(v, ast.IfExp) and unparse(v.test) == "index >= 0" and unparse(v.body) == "index" and isinstance(v.orelse, ast.BinOp):
                        parts = [unparse(_res(gi, v.orelse.left)), unparse(_res(gi, v.orelse.right))]
                        if "index" in parts and any(p_.startswith("len(") and "get_group_list(" in p_ for p_ in parts):
                            continue
                    good = False
            # leaving the loop without a match ends in the documented error
            after = [d for d, lab in gig.succs(lp.id, exc=False) if lab == "done"]
            ends = bool(after) and all(isinstance(gig.nodes[d].ast, ast.Raise) and "TagNotFoundError" in unparse(gig.nodes[d].ast) for d in after)
            scan = scan or (good and ends)
    ctx.instance("C18.typed-lookups", "get_group_by_index[two-sided bound]", (upper and lower) or scan,
                 f"get_group_by_index() checks {tests}: an out-of-range {'negative ' if upper else ''}index escapes as IndexError instead of TagNotFoundError", loc(gi))
    gt = methods["get_group_by_tag"]
    loops = [n for n in walk_no_nested(gt) if isinstance(n, ast.For)]
    # one forward loop over the list get_group_list returned (directly or through a local), left at the first match
    # (`return item` / `found = item; break`) under the equality test on the item's tag
    src_ok = False
    if len(loops) == 1:
        it = loops[0].iter
        it_txt = unparse(it)
        if isinstance(it, ast.Name):
            dd = [n.value for n in walk_no_nested(gt) if isinstance(n, ast.Assign) and len(n.targets) == 1 and unparse(n.targets[0]) == it.id]
            src_ok = len(dd) == 1 and "get_group_list(" in unparse(dd[0]) and "reversed" not in unparse(dd[0]) and "sorted" not in unparse(dd[0])
        else:
            src_ok = "get_group_list(" in it_txt and "reversed" not in it_txt and "sorted" not in it_txt
    leave = False
    tg_ = loops[0].target if len(loops) == 1 else None
    if isinstance(tg_, ast.Tuple) and len(tg_.elts) == 2 and isinstance(tg_.elts[1], ast.Name) and isinstance(loops[0].iter, ast.Call) \
            and unparse(loops[0].iter.func) == "enumerate":
        tg_ = tg_.elts[1]  # `for i, item in enumerate(<list>)`: the same forward scan
    if len(loops) == 1 and isinstance(tg_, ast.Name):
        item = tg_.id
        for x in walk_no_nested(loops[0]):
            if isinstance(x, ast.Return) and x.value is not None and unparse(x.value) == item:
                leave = True
            if isinstance(x, ast.Break):
                blk = block_of_stmt(x)
                if blk and any(isinstance(y, ast.Assign) and unparse(y.value) == item for y in blk):
                    leave = True
    ok = len(loops) == 1 and src_ok and leave and not any(isinstance(x, (ast.Dict, ast.DictComp)) for x in walk_no_nested(gt))
    ctx.instance("C18.typed-lookups", "get_group_by_tag[first match in list order]", ok,
                 "get_group_by_tag() no longer scans the items in index order returning the first match", loc(gt))

    # ... and an item that does not carry the inner tag is passed over, not an error: a raising read of the item (`item.get(t)` without a
    # default, `item[t]`) inside the scan stands under the membership test on that item, or inside a `try` that catches the lookup error
    if len(loops) == 1 and isinstance(tg_, ast.Name):
        from sa.cfg import CFG as _CFG
        gtg = _CFG(gt)
        for n_ in gtg.nodes:
            if n_.ast is None or n_.kind not in ("stmt", "test"):
                continue
            for x in walk_no_nested(n_.ast):
                raising = None
                if isinstance(x, ast.Call) and isinstance(x.func, ast.Attribute) and x.func.attr == "get" and unparse(x.func.value) == item \
                        and len(x.args) == 1 and not x.keywords:
                    raising = x.args[0]
                elif isinstance(x, ast.Subscript) and unparse(x.value) == item and isinstance(x.ctx, ast.Load):
                    raising = x.slice
                if raising is None:
                    continue
                key = unparse(raising)
                fs_ = set()
                for t_, lab_ in gtg.guards(n_.id, exc=False):
                    fs_ |= facts(t_, lab_ == "true")
                # (within one test `a in item and item.get(a) == v` the left conjunct guards the right one)
                same_test = False
                if n_.kind == "test" and isinstance(n_.ast, ast.BoolOp) and isinstance(n_.ast.op, ast.And):
                    for i_, v_ in enumerate(n_.ast.values):
                        if any(y is x for y in ast.walk(v_)):
                            same_test = any(unparse(w_) in (f"{key} in {item}", f"str({key}) in {item}.tags") for w_ in n_.ast.values[:i_])
                guarded = same_test or any(tv and a in (f"{key} in {item}", f"str({key}) in {item}.tags") for a, tv in fs_) \
                    or any(not tv and a in (f"{key} not in {item}",) for a, tv in fs_)
                # (the early-continue form `if <other> and key not in item: continue`: on the way past it either the item carries the key or
                # <other> failed - a case this rule does not split; it is not judged)
                for t_, lab_ in gtg.guards(n_.id, exc=False):
                    if lab_ != "true" and isinstance(t_, ast.BoolOp) and isinstance(t_.op, ast.And) \
                            and any(unparse(w_) == f"{key} not in {item}" for w_ in t_.values):
                        guarded = True
                in_try = False
                p_ = getattr(x, "_parent", None)
                while p_ is not None and p_ is not gt:
                    if isinstance(p_, ast.Try) and any(h.type is None or "TagNotFoundError" in unparse(h.type) or "FIXMessageError" in unparse(h.type)
                                                       or unparse(h.type) in ("Exception", "KeyError") for h in p_.handlers):
                        in_try = True
                    p_ = getattr(p_, "_parent", None)
                ctx.instance("C18.typed-lookups", f"get_group_by_tag[items without the inner tag are passed over: {short(x, 30)}]", guarded or in_try,
                             f"`{short(x)}` raises for an item that does not carry `{key}` and is not guarded by `{key} in {item}`: the scan ends with "
                             "TagNotFoundError at the first such item although a later item matches", loc(x))
    # presence of a tag is decided by identity / membership, never by the truthiness of the stored value ("" is a legal value)
    n_tr = 0
    for q, f in sorted(repo.functions.items()):
        if not (q.startswith("FIXContainer.") or q.startswith("FIXMessage.")):
            continue
        looked = set()
        for n in walk_no_nested(f):
            if isinstance(n, ast.Assign) and len(n.targets) == 1 and isinstance(n.targets[0], ast.Name) and _is_tag_lookup(n.value):
                looked.add(n.targets[0].id)
        tests = []
        for n in walk_no_nested(f):
            if isinstance(n, (ast.If, ast.While, ast.IfExp)):
                tests.append(n.test)
            elif isinstance(n, ast.Assert):
                tests.append(n.test)
        atoms = []
        for t in tests:
            todo = [t]
            while todo:
                x = todo.pop()
                if isinstance(x, ast.BoolOp):
                    todo += x.values
                elif isinstance(x, ast.UnaryOp) and isinstance(x.op, ast.Not):
                    todo.append(x.operand)
                else:
                    atoms.append(x)
        for a in atoms:
            bad = (isinstance(a, ast.Name) and a.id in looked) or _is_tag_lookup(a)
            if isinstance(a, ast.Name) and a.id in looked or _is_tag_lookup(a):
                n_tr += 1
                ctx.instance("C18.typed-lookups", f"{q}[truthiness of stored value `{short(a, 30)}`]", not bad,
                             f"{q} decides on the truthiness of the value stored under a tag: a tag holding '' (a legal value) is treated as missing", loc(a))
    ctx.instance("C18.typed-lookups", "FIXContainer[presence by identity/membership]", True)

    # a group item is stored as the container that was given (a copy through the tag-map constructor would stringify nested groups)
    from sa.cfg import CFG as _CFG
    from sa.guards import reaching_defs as _rd, facts as _facts
    sg_loop = next((unparse(n.target) for n in walk_no_nested(methods["set_group"]) if isinstance(n, ast.For)), "m")
    for mname, var in (("add_group", methods["add_group"].args.args[2].arg), ("set_group", sg_loop)):
        f = methods[mname]
        g = _CFG(f)
        rd = _rd(g, exc=False)
        # whatever local carries it: what the group container receives is the given item itself, or FIXContainer(item) where the item is a dict
        sinks = []
        for n in g.nodes:
            if n.kind == "stmt" and n.ast is not None:
                for c in walk_no_nested(n.ast):
                    if isinstance(c, ast.Call) and isinstance(c.func, ast.Attribute) and c.func.attr == "add_group" and unparse(c.func.value) != "self" \
                            and c.args and isinstance(c.args[0], ast.Name):
                        sinks.append((n, c.args[0].id))
        ok = bool(sinks)
        why = ""
        def origin(name, at, depth=0):
            """None when the value `name` holds at node `at` is the given item (or FIXContainer(<the given item>) where that is a dict), else the offending text"""
            ds = rd[at].get(name, set())
            if not ds:
                return None if name == var else f"`{name}`"
            if depth > 4:
                return f"`{name}`"
            for d in ds:
                dn = g.nodes[d]
                if dn.kind == "for":
                    if name == var:
                        continue  # the loop variable over the caller's list
                    it = dn.ast.iter
                    if isinstance(it, (ast.List, ast.Tuple)) and all(isinstance(e_, ast.Name) for e_ in it.elts):
                        bad_ = next((origin(e_.id, d, depth + 1) for e_ in it.elts if origin(e_.id, d, depth + 1)), None)
                        if bad_:
                            return bad_
                        continue
                    return f"`{short(dn.ast)}`"
                val = getattr(dn.ast, "value", None)
                fs = set()
                for t, lab in g.guards(d, exc=False):
                    fs |= _facts(t, lab == "true")
                if isinstance(val, ast.Name):
                    bad_ = origin(val.id, d, depth + 1)
                    if bad_:
                        return bad_
                    continue
                if isinstance(val, ast.Call) and unparse(val.func) == "FIXContainer":
                    args_ = val.args + [k_.value for k_ in val.keywords]
                    if len(args_) == 1 and isinstance(args_[0], ast.Name) and (f"isinstance({args_[0].id}, dict)", True) in fs and origin(args_[0].id, d, depth + 1) is None:
                        continue
                return f"`{short(dn.ast)}`"
            return None
        for sk, argn in sinks:
            bad_ = origin(argn, sk.id)
            if bad_:
                ok = False
                why = bad_
        ctx.instance("C18.stored-as-string", f"{mname}[item stored as given]", ok,
                     f"{mname} replaces the item by {why} before storing it: a container item is rebuilt through the tag-map constructor, which stringifies nested groups "
                     "(the decoded structure of groups nested two deep is lost)", loc(f))

    # ---- rule 5 equality
    eq = methods["__eq__"]
    via_str = False
    for n in walk_no_nested(eq):
        if isinstance(n, ast.Return) and isinstance(n.value, ast.Compare) and "__str__()" in unparse(n.value):
            via_str = True
    ctx.instance("C18.equality", f"{CLS}.__eq__[container branch]", not via_str,
                 "container equality compares __str__() renderings, which is not injective ('1=a|2=b' renders a one-tag and a two-tag container alike): "
                 "equality can hold although the tag/value content differs", loc(eq))
    ign = None
    cands = [n.value for n in walk_no_nested(eq) if isinstance(n, ast.Assign) and isinstance(n.targets[0], ast.Name)]
    cands += [n.comparators[0] for n in ast.walk(eq) if isinstance(n, ast.Compare) and len(n.ops) == 1 and isinstance(n.ops[0], ast.NotIn)]
    for cv in cands:
        if isinstance(cv, (ast.Set, ast.List, ast.Tuple)):
            v = fold.fold(cv)
            if isinstance(v, (frozenset, list, tuple)) and v and all(getattr(x, "cls", None) == "FTag" for x in v):
                ign = {str(Folder.val(x)) for x in v}
    ctx.instance("C18.equality", f"{CLS}.__eq__[dict branch ignore set]", ign == {"8", "9", "10", "35"},
                 f"dict equality ignores tags {sorted(ign) if ign else ign}, expected exactly the four framing tags 8, 9, 10, 35", loc(eq))
    # the framing tags are ignored whatever the key's spelling: the filter tests the string form of the key (an int 8 is BeginString too)
    flt = []
    for n in ast.walk(eq):
        if isinstance(n, (ast.SetComp, ast.ListComp, ast.GeneratorExp)):
            for gen in n.generators:
                for cond in gen.ifs:
                    if isinstance(cond, ast.Compare) and len(cond.ops) == 1 and isinstance(cond.ops[0], ast.NotIn):
                        flt.append((gen, cond))
    ok_f = bool(flt) and all(isinstance(gen.target, ast.Name) and unparse(cond.left) == f"str({gen.target.id})" for gen, cond in flt)
    ctx.instance("C18.equality", f"{CLS}.__eq__[framing tags ignored by the key's string form]", ok_f,
                 "the framing-tag filter of dict equality does not test str(key): a framing tag given as int (8, 9, 10, 35) is not ignored", loc(eq))
    # the dict branch compares tag sets and every value
    s = unparse(eq)
    set_locals = [n.targets[0].id for n in walk_no_nested(eq) if isinstance(n, ast.Assign) and isinstance(n.targets[0], ast.Name)
                  and isinstance(n.value, ast.Call) and unparse(n.value.func) == "set"]
    cmp_sets = any(isinstance(n, ast.Compare) and isinstance(n.ops[0], ast.NotEq) and {unparse(n.left), unparse(n.comparators[0])} == set(set_locals) and len(set_locals) == 2
                   for n in walk_no_nested(eq))
    if not cmp_sets:
        # the same comparison with the two key sets written in place (or through other locals): each side is a set of str(k)
        # over the keys of one operand, the two operands being `other` and `self.tags`
        from sa.guards import resolved

        def key_set_of(e):
            e = resolved(eq, e)
            comp = e.args[0] if isinstance(e, ast.Call) and unparse(e.func) == "set" and len(e.args) == 1 else e
            if isinstance(comp, (ast.SetComp, ast.ListComp, ast.GeneratorExp)) and len(comp.generators) == 1:
                gen = comp.generators[0]
                if isinstance(gen.target, ast.Name) and unparse(comp.elt) == f"str({gen.target.id})":
                    it = unparse(gen.iter)
                    return "other" if it in ("other", "other.keys()") else ("self" if it in ("self.tags", "self.tags.keys()") else None)
            return None
        for n in ast.walk(eq):
            if isinstance(n, ast.Compare) and len(n.ops) == 1 and isinstance(n.ops[0], ast.NotEq):
                if {key_set_of(n.left), key_set_of(n.comparators[0])} == {"other", "self"}:
                    cmp_sets = True
    getk = set(re.findall(r"self\.get\((\w+)\)", s))
    othk = set(re.findall(r"str\(other\[(\w+)\]\)", s))
    ok = cmp_sets and bool(getk & othk)
    ctx.instance("C18.equality", f"{CLS}.__eq__[dict branch compares sets and values]", ok,
                 "dict equality no longer compares the tag sets and each value's string form", loc(eq))

    # ---- rule 6 order
    init = methods["__init__"]
    creates = [n for n in walk_no_nested(init) if isinstance(n, (ast.Assign, ast.AnnAssign)) and unparse(n.targets[0] if isinstance(n, ast.Assign) else n.target) == "self.tags"]
    ok = len(creates) == 1 and unparse(creates[0].value) in ("OrderedDict()", "{}", "dict()", "collections.OrderedDict()")
    ctx.instance("C18.order-preserved", "__init__[tags mapping]", ok, f"self.tags is created as {unparse(creates[0].value) if creates else '?'}", loc(init))
    for name, fn in methods.items():
        if name == "__init__":
            continue
        bad = []
        for n in walk_no_nested(fn):
            if isinstance(n, (ast.Assign, ast.AugAssign)):
                tg = n.targets if isinstance(n, ast.Assign) else [n.target]
                if any(unparse(t) == "self.tags" for t in tg):
                    bad.append(n)
            if isinstance(n, ast.Call) and isinstance(n.func, ast.Attribute) and unparse(n.func.value) == "self.tags" \
                    and n.func.attr in ("move_to_end", "popitem", "clear", "sort"):
                bad.append(n)
        if name in ("items", "__str__", "query") :
            for n in walk_no_nested(fn):
                if isinstance(n, ast.Call) and isinstance(n.func, ast.Name) and n.func.id in ("sorted", "reversed", "set", "frozenset") \
                        and "self.tags" in unparse(n):
                    bad.append(n)
        ctx.instance("C18.order-preserved", f"{CLS}.{name}", not bad,
                     f"{name}() rebuilds or reorders the tag map: {short(bad[0], 50) if bad else ''}", loc(bad[0]) if bad else loc(fn))
    gc = repo.methods("_FIXRepeatingGroupContainer")
    ag2 = gc.get("add_group")
    calls = {c.func.attr for c in walk_no_nested(ag2) if isinstance(c, ast.Call) and isinstance(c.func, ast.Attribute) and "groups" in unparse(c.func.value)}
    src = unparse(ag2)
    ok = calls <= {"append", "insert"} and "insert(index, group)" in src and "append(group)" in src
    ctx.instance("C18.order-preserved", "_FIXRepeatingGroupContainer.add_group", ok, f"group list is changed by {sorted(calls)}: items no longer keep insertion/index order", loc(ag2))
