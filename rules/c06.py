"""C06 - a ResendRequest is answered completely, in order and without side effects.

Bracket, effect and table clauses of ``_process_resend`` (CFG with exception edges, transitive
SQL effects of the calls it makes, folded tag sets compared with the encoder's).  Contiguity
arithmetic of the gap-fill chain over arbitrary journal content is value-level: not decided.
"""
from __future__ import annotations

import ast
import re

from sa.cfg import CFG
from sa.core import AnalysisError, loc, short, unparse, walk_no_nested
from sa.fold import EnumVal, Folder
from sa.guards import derivation, facts
from sa.resolve import Resolver
from sa.rewind import Rewind
from sa.sqltext import execute_sites

RESEND = "AsyncFIXConnection._process_resend"
ADMIN = {"LOGON", "LOGOUT", "RESENDREQUEST", "HEARTBEAT", "TESTREQUEST", "SEQUENCERESET"}


def run(ctx):
    repo = ctx.repo
    res = Resolver(repo)
    fo = Folder(repo)
    rw = Rewind(repo)
    fn, g = rw.fn, rw.cfg
    R1, R2, R3, R4, R5, R6, R7 = ("C06.bracket", "C06.no-destructive-effect", "C06.idempotent-marking", "C06.header-handover", "C06.admin-never-replayed",
                                  "C06.endseqno-reaches-tail", "C06.validation-before-mutation")
    ctx.rule(R1, "every path - normal and exceptional - from the rewind of next_num_out to a function exit passes the restoring write of the saved value; "
                 "RESENDREQ_HANDLING entered => left again on every exit")
    ctx.rule(R2, "the transitive effect of _process_resend contains no DELETE of journaled outbound messages")
    ctx.rule(R3, "every tag written into a copy decoded from the journal replaces or is guarded by an absence test (the output is re-journaled and is the next input)")
    ctx.rule(R4, "tags deleted from the replayed copy are exactly those the encoder writes itself and does not skip; 34 is kept, 43=Y set, OrigSendingTime read before 52 is deleted")
    ctx.rule(R5, "the no-replay set contains every session-level type; a copy is re-sent only under the negative membership test and a truthy should_replay answer")
    ctx.rule(R6, "the tail gap fill and the replay bound depend on the request's EndSeqNo")
    ctx.rule(R7, "no counter / journal / state write is reachable before BeginSeqNo and EndSeqNo have passed a range test")
    ctx.assumptions += ["exception edges are coarse: any call / subscript / assert inside a try may raise"]

    if not rw.rewinds:
        raise AnalysisError("_process_resend: no rewind of next_num_out found")

    # ------------------------------------------------------------------ rule 1
    for r in rw.rewinds:
        for exit_id, kind in ((g.exit, "normal"), (g.raise_exit, "exception")):
            # paths start after the rewinding statement completed or raised
            w = g.witness_path(r, [exit_id], avoid=set(rw.restores), exc=True)
            if w is not None and kind == "normal":
                # a normal exit reached through an exception edge still needs the restore
                pass
            ctx.instance(R1, f"_process_resend[rewind restored on {kind} exit]", w is None,
                         f"a path leaves _process_resend by {kind} exit with next_num_out still rewound to BeginSeqNo: the next new message re-uses a MsgSeqNum already sent",
                         loc(g.nodes[r].ast), g.describe(w or [])[-8:])
    saves = rw.save_nodes
    dom = g.dominators(exc=True)
    ctx.instance(R1, "_process_resend[saved value defined once, before the rewind]", len(saves) == 1 and all(saves[0] in dom.get(r, ()) for r in rw.rewinds),
                 "the saved next_num_out is (re)defined more than once or not before the rewind: the value restored is not the one to continue from", loc(fn))
    # state bracket
    enters = [n.id for n in g.nodes if n.kind == "stmt" and "_state_set(ConnectionState.RESENDREQ_HANDLING)" in unparse(n.ast)]
    leaves = [n.id for n in g.nodes if n.kind == "stmt" and re.search(r"_state_set\(ConnectionState\.(ACTIVE|DISCONNECTED\w*)\)", unparse(n.ast))]
    skip_edges = set()
    for n in g.nodes:
        if n.kind == "test":
            for lab in ("true", "false"):
                fs = facts(n.ast, lab == "true")
                if ("self._connection_state == ConnectionState.RESENDREQ_HANDLING", False) in fs or ("self._connection_state != ConnectionState.RESENDREQ_HANDLING", True) in fs:
                    skip_edges.add((n.id, lab))
    if not enters:
        raise AnalysisError("_process_resend: the RESENDREQ_HANDLING entry was not found")
    for e in enters:
        for exit_id, kind in ((g.exit, "normal"), (g.raise_exit, "exception")):
            w = _path(g, e, exit_id, set(leaves), skip_edges)
            ctx.instance(R1, f"_process_resend[RESENDREQ_HANDLING left on {kind} exit]", w is None,
                         f"a path leaves _process_resend by {kind} exit with the state still RESENDREQ_HANDLING (stuck until the next resend)", loc(g.nodes[e].ast),
                         g.describe(w or [])[-8:])

    # ------------------------------------------------------------------ rule 2
    reach, _hooks = res.transitive(RESEND)
    dels = []
    # which journaler methods are called from the handler itself (not through send_msg's persist, which only inserts)
    for call, (kind, name) in res.callees(RESEND):
        if kind == "func" and name.startswith("Journaler."):
            jf = repo.func(name)
            for site in execute_sites(jf):
                st = site.stmt
                if st.kind == "DELETE" and st.table == "message":
                    txt = unparse(call)
                    # the delete on the OUTBOUND direction is driven by the next_num_out argument
                    if "next_num_out" in txt:
                        dels.append((name, call, site))
    seen = set()
    for name, call, site in dels:
        k = (name, short(call, 60))
        if k in seen:
            continue
        seen.add(k)
        rewinding = any(call is c for r in rw.rewinds for c in walk_no_nested(g.nodes[r].ast))
        if not rewinding:
            continue
        ctx.instance(R2, f"_process_resend->{name.split('.')[-1]}[DELETE FROM message]", False,
                     f"`{short(call)}` rewinds through {name}, whose `DELETE FROM message WHERE seqNo >= ?` removes every journaled outbound message from BeginSeqNo on - "
                     "including the ones after EndSeqNo of a bounded request and the ones should_replay declines; they can never be resent again", loc(call))
    if not dels:
        ctx.instance(R2, "_process_resend[no journal delete]", True)

    # ------------------------------------------------------------------ rule 3
    loops = [n for n in walk_no_nested(fn) if isinstance(n, (ast.For, ast.AsyncFor))]
    if len(loops) != 1:
        raise AnalysisError(f"_process_resend: expected one replay loop, found {len(loops)}")
    lp = loops[0]
    copy = None
    for n in walk_no_nested(lp):
        if isinstance(n, ast.Assign) and isinstance(n.value, ast.Call) and unparse(n.value.func).endswith("_codec.decode"):
            t = n.targets[0]
            copy = unparse(t.elts[0]) if isinstance(t, ast.Tuple) else unparse(t)
    if copy is None:
        raise AnalysisError("_process_resend: the decode of the journaled copy was not found")
    from sa.guards import reaching_defs as _rdefs
    _rd = _rdefs(g, exc=False)

    def _leaves(e, at, depth=0):
        """value expressions a local stands for at node `at` (through its reaching definitions), with the node where each is evaluated"""
        if isinstance(e, ast.Name) and depth < 4:
            ds = _rd.get(at, {}).get(e.id, set())
            out = []
            for d in ds:
                v = getattr(g.nodes[d].ast, "value", None)
                if isinstance(g.nodes[d].ast, ast.Assign) and len(g.nodes[d].ast.targets) == 1 and isinstance(g.nodes[d].ast.targets[0], ast.Name) and v is not None:
                    out += _leaves(v, d, depth + 1)
                else:
                    out.append((e, at))
            return out or [(e, at)]
        return [(e, at)]
    n3 = 0
    for n in walk_no_nested(lp):
        tag = val = None
        node = n
        if isinstance(n, ast.Assign) and isinstance(n.targets[0], ast.Subscript) and unparse(n.targets[0].value) == copy:
            tag, how = fo.tag(n.targets[0].slice), "item"
        elif isinstance(n, ast.Call) and unparse(n.func) == f"{copy}.set" and n.args:
            tag = fo.tag(n.args[0])
            how = "replace" if any(k.arg == "replace" and isinstance(k.value, ast.Constant) and k.value.value is True for k in n.keywords) or \
                (len(n.args) > 2 and isinstance(n.args[2], ast.Constant) and n.args[2].value is True) else "set"
        else:
            continue
        n3 += 1
        # guarded by an absence test?
        absent = False
        p = getattr(node, "_parent", None)
        child = node
        while p is not None and p is not lp:
            if isinstance(p, ast.If) and any(child is x or any(child is y for y in ast.walk(x)) for x in p.body):
                fs = facts(p.test, True)
                if any(tv and re.fullmatch(rf"FTag\.\w+ not in {copy}", a) and fo.tag(ast.parse(a.split(' ')[0], mode='eval').body) == tag for a, tv in fs):
                    absent = True
            child = p
            p = getattr(p, "_parent", None)
        # ... or the written value is the present one: `copy.set(T, copy.get(T, <default>), replace=True)` (through locals)
        if not absent and how == "replace" and isinstance(n, ast.Call) and len(n.args) >= 2:
            nid_ = next((x.id for x in g.nodes if x.kind == "stmt" and x.ast is not None and any(n is y for y in ast.walk(x.ast))), None)
            for leaf, _at in (_leaves(n.args[1], nid_) if nid_ is not None else []):
                if isinstance(leaf, ast.Call) and unparse(leaf.func) == f"{copy}.get" and len(leaf.args) == 2 and fo.tag(leaf.args[0]) == tag:
                    absent = True
                else:
                    absent = False
                    break
        ok = how == "replace" or absent
        ctx.instance(R3, f"_process_resend[{copy}[{tag}] marking]", ok,
                     f"`{short(node)}` writes tag {tag} into the journaled copy without replace=True or an absence guard: the copy re-journaled by an earlier resend of "
                     "the same range already carries it, DuplicatedTagError aborts the replay half-way", loc(node))
        if tag == "122":
            # the copy re-journaled by an earlier resend carries the ORIGINAL time in 122 and the resend's time in 52: 122 is written only when absent
            ctx.instance(R3, f"_process_resend[{copy}[122] kept when present]", absent,
                         f"`{short(node)}` overwrites an OrigSendingTime the journaled copy already carries: from the second resend of a range on, tag 122 is the time of the "
                         "previous retransmission, not of the original message", loc(node))
    if n3 < 2:
        raise AnalysisError("_process_resend: the PossDupFlag / OrigSendingTime marking was not found")

    # ------------------------------------------------------------------ rule 4
    deleted = []
    for n in walk_no_nested(lp):
        if isinstance(n, ast.Delete):
            for t in n.targets:
                if isinstance(t, ast.Subscript) and unparse(t.value) == copy:
                    deleted.append((fo.tag(t.slice), n))
    dset = {t for t, _ in deleted}
    from rules.c01 import emitted_fields
    enc = repo.func("Codec.encode")
    em = emitted_fields(enc, fo)
    if not {"34", "52"} <= {t for t, e, c, lst in em}:
        raise AnalysisError("Codec.encode: the fields the encoder emits itself are not recognised (no `'%s=%s' % (FTag.MsgSeqNum, …)` / SendingTime emission found): "
                            "which header tags a replayed copy must lose is not visible")
    emitted = {t for t, e, c, lst in em} | {"10", "35"}  # CheckSum / MsgType are emitted through string formatting
    from rules.c01 import encoder_skip_set
    skip = encoder_skip_set(enc, fo) or set()
    must = emitted - skip
    ctx.instance(R4, "_process_resend[deleted ⊇ emitted-not-skipped]", must <= dset,
                 f"the replayed copy keeps tag(s) {sorted(must - dset)} that the encoder writes itself and does not skip: they go out twice", loc(lp),
                 sample={"rule": R4, "deleted": sorted(dset), "encoder_emits": sorted(emitted), "encoder_skips": sorted(skip)})
    ctx.instance(R4, "_process_resend[deleted ⊆ emitted]", dset <= emitted,
                 f"the replay deletes tag(s) {sorted(dset - emitted)} that the encoder does not regenerate: the retransmitted body differs from the original", loc(lp))
    ctx.instance(R4, "_process_resend[MsgSeqNum kept]", "34" not in dset, "the replayed copy loses its MsgSeqNum: it cannot go out under its original number", loc(lp))
    # PossDupFlag = Y
    poss = [n for n in walk_no_nested(lp) if (isinstance(n, ast.Call) and unparse(n.func) == f"{copy}.set" and n.args and fo.tag(n.args[0]) == "43"
                                              and len(n.args) > 1 and isinstance(n.args[1], ast.Constant) and n.args[1].value == "Y")
            or (isinstance(n, ast.Assign) and isinstance(n.targets[0], ast.Subscript) and unparse(n.targets[0].value) == copy and fo.tag(n.targets[0].slice) == "43"
                and isinstance(n.value, ast.Constant) and n.value.value == "Y")]
    ctx.instance(R4, "_process_resend[PossDupFlag=Y]", len(poss) == 1, "the replayed copy is not marked PossDupFlag=Y", loc(lp))
    # OrigSendingTime from tag 52, read before 52 is deleted
    lg = g
    def _orig_value(n):
        """value expression written to tag 122 by statement node n (item assignment or .set call), else None"""
        a = n.ast
        if isinstance(a, ast.Assign) and isinstance(a.targets[0], ast.Subscript) and unparse(a.targets[0].value) == copy and fo.tag(a.targets[0].slice) == "122":
            return a.value
        c = a.value if isinstance(a, ast.Expr) else None
        if isinstance(c, ast.Call) and unparse(c.func) == f"{copy}.set" and len(c.args) >= 2 and fo.tag(c.args[0]) == "122":
            return c.args[1]
        return None
    orig = [n for n in g.nodes if n.kind == "stmt" and n.ast is not None and _orig_value(n) is not None]
    del52 = [n for n in g.nodes if n.kind == "stmt" and isinstance(n.ast, ast.Delete) and any(isinstance(t, ast.Subscript) and fo.tag(t.slice) == "52" for t in n.ast.targets)]
    # the value, through locals and through `copy.get(122, <default>)`, is copy[52]; the place where copy[52] is READ precedes its deletion
    reads = []
    ok = bool(orig)
    for n in orig:
        for leaf, at in _leaves(_orig_value(n), n.id):
            if isinstance(leaf, ast.Call) and unparse(leaf.func) == f"{copy}.get" and len(leaf.args) == 2 and fo.tag(leaf.args[0]) == "122":
                sub = _leaves(leaf.args[1], at)
            else:
                sub = [(leaf, at)]
            for l2, at2 in sub:
                if isinstance(l2, ast.Subscript) and unparse(l2.value) == copy and fo.tag(l2.slice) == "52":
                    reads.append(at2)
                else:
                    ok = False
    if ok and del52:
        ok = not any(g.reaches(d.id, r_, avoid=[n.id for n in g.nodes if n.kind == "for"], exc=False) for d in del52 for r_ in reads)
    ctx.instance(R4, "_process_resend[OrigSendingTime := SendingTime before it is deleted]", ok,
                 "OrigSendingTime is not assigned from the copy's SendingTime (tag 52) before tag 52 is deleted", loc(orig[0].ast) if orig else loc(lp))

    # ------------------------------------------------------------------ rule 5
    noreply = None
    for n in walk_no_nested(fn):
        if isinstance(n, ast.Assign) and isinstance(n.value, ast.Set) and isinstance(n.targets[0], ast.Name):
            vals = [fo.fold(e) for e in n.value.elts]
            if vals and all(isinstance(v, EnumVal) and v.cls == "FMsg" for v in vals):
                noreply = (n.targets[0].id, {v.name for v in vals}, n)
    if noreply is None:
        # written in place: `<copy>[MsgType] in {FMsg.A, ...}`
        for n in walk_no_nested(lp):
            if isinstance(n, ast.Compare) and len(n.ops) == 1 and isinstance(n.ops[0], ast.In) and isinstance(n.comparators[0], (ast.Set, ast.Tuple, ast.List)):
                vals = [fo.fold(e) for e in n.comparators[0].elts]
                if vals and all(isinstance(v, EnumVal) and v.cls == "FMsg" for v in vals):
                    noreply = (unparse(n.comparators[0]), {v.name for v in vals}, n)
    if noreply is None:
        raise AnalysisError("_process_resend: the no-replay set was not found")
    nm, members, node = noreply
    ctx.instance(R5, "_process_resend[no-replay set ⊇ session-level types]", ADMIN <= members,
                 f"the no-replay set lacks {sorted(ADMIN - members)}: such session-level messages are retransmitted", loc(node), evals=len(members))
    # the membership test and its polarity (as a local flag, or written in place)
    member = None
    for n in walk_no_nested(lp):
        if isinstance(n, ast.Compare) and len(n.ops) == 1 and isinstance(n.ops[0], ast.In) and unparse(n.comparators[0]) == nm:
            member = n
    if member is None:
        raise AnalysisError("_process_resend: the membership test against the no-replay set was not found")
    ok_t = isinstance(member.left, ast.Subscript) and unparse(member.left.value) == copy and fo.tag(member.left.slice) == "35"
    ctx.instance(R5, "_process_resend[membership tested on the copy's MsgType]", ok_t, f"`{short(member)}` does not test the decoded copy's MsgType (tag 35)", loc(member))
    admin_atoms = {unparse(member)}
    par = getattr(member, "_parent", None)
    if isinstance(par, ast.Assign) and par.value is member and isinstance(par.targets[0], ast.Name):
        admin_atoms.add(par.targets[0].id)
    resend_calls = [n for n in g.nodes if n.kind == "stmt" and f"self.send_msg({copy})" in unparse(n.ast)]
    if not resend_calls:
        raise AnalysisError("_process_resend: the re-send of the copy was not found")
    for n in resend_calls:
        fs = set()
        for t, lab in g.guards(n.id, exc=False):
            fs |= facts(t, lab == "true")
        ok = any((a, False) in fs for a in admin_atoms) and any(a.startswith("await self.should_replay(") and tv is True for a, tv in fs)
        ctx.instance(R5, "_process_resend[re-send only for non-admin copies the application agrees to]", ok,
                     "the copy is re-sent on a path where it may be a session-level message or should_replay answered False", loc(n.ast))
    numv = next((n.targets[0].id for n in walk_no_nested(lp) if isinstance(n, ast.Assign) and isinstance(n.targets[0], ast.Name)
                 and "FTag.MsgSeqNum" in unparse(n.value) and copy in unparse(n.value)), None)
    if numv is None:
        raise AnalysisError("_process_resend: the copy's number was not found by role")
    # the gap fill in front of a re-sent copy runs to that copy's own number: numbers without a journal row (a lost row, the
    # numbers a multi-slot gap fill of an earlier resend stands for) are covered too
    for n in walk_no_nested(lp):
        if isinstance(n, ast.Assign) and isinstance(n.targets[0], ast.Subscript) and fo.tag(n.targets[0].slice) == "36":
            names = {x.id for x in ast.walk(n.value) if isinstance(x, ast.Name)} - {"str", "int"}
            gnode = next((x for x in g.nodes if x.kind == "stmt" and x.ast is n), None)
            fs = set()
            if gnode is not None:
                for t, lab in g.guards(gnode.id, exc=False):
                    fs |= facts(t, lab == "true")
            guard_ok = any(tv and re.fullmatch(rf"\w+ < {numv}", a) for a, tv in fs) or any(tv and re.fullmatch(rf"{numv} > \w+", a) for a, tv in fs)
            ctx.instance(R5, "_process_resend[gap fill before a re-sent copy ends at the copy's number]", names == {numv} and guard_ok,
                         f"the gap fill in front of a re-sent copy ends at `{short(n.value)}` (guard facts {sorted(a for a, tv in fs if tv)[:3]}), not at the copy's own MsgSeqNum: "
                         "a number that has no journal row is covered by nothing (1, GapFill(2->3), 4)", loc(n))
    eqh = [repo.functions.get("FMsg.__eq__"), repo.functions.get("FMsg.__hash__")]
    ok = all(f is not None for f in eqh) and "self.value" in unparse(eqh[0]) and "hash(self.value)" in unparse(eqh[1])
    ctx.instance(R5, "FMsg[__eq__/__hash__ by value]", ok, "FMsg does not compare/hash by value: the decoded MsgType string misses the enum members of the no-replay set",
                 loc(eqh[0]) if eqh[0] is not None else "")

    # ------------------------------------------------------------------ rule 6
    endv = None
    for n in walk_no_nested(fn):
        if isinstance(n, ast.Assign) and isinstance(n.targets[0], ast.Name) and "FTag.EndSeqNo" in unparse(n.value):
            endv = n.targets[0].id
    if endv is None:
        raise AnalysisError("_process_resend: EndSeqNo is not read")
    tail_ops = []
    for n in walk_no_nested(fn):
        if isinstance(n, ast.Assign) and isinstance(n.targets[0], ast.Subscript) and fo.tag(n.targets[0].slice) == "36" and not _inside(n, lp):
            tail_ops.append(n)
    dep = False
    for n in tail_ops:
        names = {x.id for x in ast.walk(n.value) if isinstance(x, ast.Name)}
        for nmx in list(names):
            for vals in derivation(fn, nmx).values():
                for v in vals:
                    names |= {x.id for x in ast.walk(v) if isinstance(x, ast.Name)}
        dep = dep or endv in names
    ctx.instance(R6, "_process_resend[tail NewSeqNo depends on EndSeqNo]", dep and bool(tail_ops),
                 "the final gap fill always runs to the last sent number: a bounded request (EndSeqNo below the last sent number) is answered with a gap fill over "
                 "messages it did not ask to skip, and they are deleted from the journal", loc(tail_ops[0]) if tail_ops else loc(fn))

    # the tail gap fill is sent only when it skips something: on every path to it its MsgSeqNum operand is known to be below its NewSeqNo operand
    # (a SequenceReset N -> N is numbered with a number that was never sent, is journaled under it, and the next fresh message takes it again)
    for n in tail_ops:
        gnode = next((x for x in g.nodes if x.kind == "stmt" and x.ast is n), None)
        new_names = {x.id for x in ast.walk(n.value) if isinstance(x, ast.Name)} - {"str", "int"}
        blk = getattr(n, "_parent", None)
        seq_names = set()
        for fld in ("body", "orelse", "finalbody"):
            lst = getattr(blk, fld, None)
            if isinstance(lst, list) and n in lst:
                for st in lst:
                    if isinstance(st, ast.Assign) and isinstance(st.targets[0], ast.Subscript) and fo.tag(st.targets[0].slice) == "34":
                        seq_names |= {x.id for x in ast.walk(st.value) if isinstance(x, ast.Name)} - {"str", "int"}
        if gnode is None or len(new_names) != 1 or len(seq_names) != 1:
            continue
        lo_, hi_ = next(iter(seq_names)), next(iter(new_names))
        fs = set()
        for t, lab in g.guards(gnode.id, exc=False):
            fs |= facts(t, lab == "true")
        strict = any((a in (f"{lo_} < {hi_}", f"{hi_} > {lo_}", f"{lo_} != {hi_}", f"{hi_} != {lo_}") and tv)
                     or (a in (f"{lo_} >= {hi_}", f"{hi_} <= {lo_}", f"{lo_} == {hi_}", f"{hi_} == {lo_}") and not tv) for a, tv in fs)
        ctx.instance(R6, "_process_resend[tail gap fill only when numbers remain]", strict,
                     f"the final gap fill (34={lo_}, 36={hi_}) is sent without `{lo_} < {hi_}` being established: when the replay ended at the last sent number an empty "
                     "SequenceReset N -> N goes out under a number that was never used, is journaled under it, and the next fresh message is numbered N again",
                     loc(n))
    # the bound of the journal query: the request's EndSeqNo, and "everything" exactly when EndSeqNo is 0 (FIX: 0 = infinity).  Decided on the
    # definitions of the bound that reach the query: the field's own value must reach it (on the non-zero side), and a definition made under
    # the zero test that is not a small number must reach it too; `x or BIG` / a definition from the field inside one expression is read as both.
    from sa.guards import reaching_defs
    rd6 = reaching_defs(g, exc=False)
    qcalls = [(n, c) for n in g.nodes if n.kind in ("stmt", "test") and n.ast is not None for c in walk_no_nested(n.ast)
              if isinstance(c, ast.Call) and isinstance(c.func, ast.Attribute) and c.func.attr == "recover_messages"]
    if len(qcalls) != 1:
        raise AnalysisError(f"_process_resend: expected one recover_messages call, found {len(qcalls)}")
    qn, qc = qcalls[0]
    bound = qc.args[3] if len(qc.args) >= 4 else next((k.value for k in qc.keywords if k.arg == "end_seq_no"), None)
    if bound is None:
        raise AnalysisError("_process_resend: the upper bound of the journal query was not found")

    def zero_fact(a, tv, nm):
        return (a in (f"{nm} == 0", f"{nm} <= 0", f"{nm} < 1", f"not {nm}") and tv) or (a in (f"{nm} != 0", f"{nm} > 0", f"{nm} >= 1", nm) and not tv)
    field_ok = inf_ok = False
    unknown = None
    if isinstance(bound, ast.Name):
        cands = set(rd6[qn.id].get(bound.id, set()))
        for d in sorted(cands):
            others = cands - {d}
            if others and g.witness_path(d, [qn.id], avoid=others, exc=False) is None:
                continue
            dv_ = getattr(g.nodes[d].ast, "value", None)
            if dv_ is None or not isinstance(g.nodes[d].ast, ast.Assign):
                unknown = g.nodes[d].ast
                continue
            txt = unparse(dv_)
            fsd = set()
            for t, lab in g.guards(d, exc=False):
                fsd |= facts(t, lab == "true")
            if "FTag.EndSeqNo" in txt or endv in {x.id for x in ast.walk(dv_) if isinstance(x, ast.Name)} - {bound.id}:
                field_ok = True
                if isinstance(dv_, ast.BoolOp) and isinstance(dv_.op, ast.Or) and len(dv_.values) == 2:
                    inf_ok = inf_ok or not (isinstance(dv_.values[1], ast.Constant) and isinstance(dv_.values[1].value, int) and dv_.values[1].value < 2 ** 31)
                continue
            small = isinstance(dv_, ast.Constant) and isinstance(dv_.value, int) and dv_.value < 2 ** 31
            if any(zero_fact(a, tv, endv) or zero_fact(a, tv, bound.id) for a, tv in fsd) and not small:
                inf_ok = True
    else:
        txt = unparse(bound)
        if isinstance(bound, ast.BoolOp) and isinstance(bound.op, ast.Or) and endv in txt:
            field_ok = inf_ok = True
        else:
            unknown = bound
    if unknown is not None and not (field_ok and inf_ok):
        raise AnalysisError(f"_process_resend: how the bound of the journal query is computed (`{short(unknown)}`) is not of a form this rule knows")
    ctx.instance(R6, "_process_resend[journal query bounded by the request's EndSeqNo]", field_ok,
                 "the value of EndSeqNo does not reach the upper bound of the journal query: a bounded request is replayed to the end of the journal", loc(qc))
    ctx.instance(R6, "_process_resend[EndSeqNo = 0 means everything]", inf_ok,
                 "no 'unbounded' value is substituted exactly when EndSeqNo is 0: the journal query for (BeginSeqNo, 0) returns nothing, and every application "
                 "message the peer asked for is covered by a gap fill instead of being retransmitted", loc(qc))

    # ------------------------------------------------------------------ rule 7
    beginv = None
    for n in walk_no_nested(fn):
        if isinstance(n, ast.Assign) and isinstance(n.targets[0], ast.Name) and "FTag.BeginSeqNo" in unparse(n.value):
            beginv = n.targets[0].id
    first_mut = rw.rewinds[0]
    fs = set()
    for t, lab in g.guards(first_mut, exc=False):
        fs |= facts(t, lab == "true")
    ranged = any(tv and re.search(rf"\b{beginv}\b", a) and re.search(r"(<=|<|>=|>)", a) and ("next_num_out" in a or endv in a) for a, tv in fs)
    ctx.instance(R7, "_process_resend[range test before the rewind]", ranged,
                 f"next_num_out is rewound to `{beginv}` before it was compared with the last sent number / EndSeqNo: an out-of-range request mutates counter and journal first",
                 loc(g.nodes[first_mut].ast))


def _inside(node, anc):
    p = getattr(node, "_parent", None)
    while p is not None:
        if p is anc:
            return True
        p = getattr(p, "_parent", None)
    return False


def _path(g, src, dst, avoid_nodes, avoid_edges):
    prev = {src: None}
    todo = [src]
    while todo:
        nxt = []
        for n in todo:
            for d, lab in g.succs(n, True):
                if (n, lab.replace("exc:", "")) in avoid_edges or d in avoid_nodes:
                    continue
                if d == dst:
                    path = [d, n]
                    while prev[path[-1]] is not None:
                        path.append(prev[path[-1]])
                    return list(reversed(path))
                if d in prev:
                    continue
                prev[d] = n
                nxt.append(d)
        todo = nxt
    return None
