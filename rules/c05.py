"""C05 - outbound numbering consecutive, journaled under that number (structural clauses)."""
from __future__ import annotations

import ast

from sa import journal
from sa.cfg import CFG
from sa.core import AnalysisError, enclosing_func, loc, qualname, short, unparse, walk_no_nested
from sa.fold import Folder
from sa.resolve import Resolver
from sa.sendpath import SendPath

EXCLUDED_MODULES = {"asyncfix/fix_tester.py"}  # bundled test helper (installs mocks); see C20


def _mod(node):
    return getattr(node, "_module").rel


def run(ctx):
    repo = ctx.repo
    res = Resolver(repo)
    fold = Folder(repo)
    sp = SendPath(repo, res)
    g = sp.cfg
    ctx.rule("C05.sole-allocator", "allocate_next_num_out is called only from Codec.encode; Codec.encode only from send_msg (test helper excluded); allocator returns pre-increment and adds literal 1")
    ctx.rule("C05.refusal-precedes-allocation", "no state-gating raise in send_msg is reachable after the encode call (a refused send consumes no number, reaches neither write nor journal)")
    ctx.rule("C05.same-bytes", "write() and persist_msg(OUTBOUND) receive the same single-definition local value derived from encode; both occur on every completed send")
    ctx.rule("C05.key-agreement", "find_seq_no scans SOH+'34=' and the encoder emits 34= after only the session CompIDs, before any caller-controlled field")
    ctx.rule("C05.stored-equals-last", "persist_msg stores the inserted row's own number as outboundSeqNo in the same transaction")
    ctx.rule("C05.counter-writers", "every writer of next_num_out other than the allocator is the journaler (durable twin) or a constructor")
    ctx.assumptions += ["FIXTester (asyncfix/fix_tester.py) is a test helper and excluded from who-may-call rules"]

    # ---- rule 1
    n_alloc = 0
    for mod in repo.modules.values():
        if mod.rel in EXCLUDED_MODULES:
            continue
        for c in ast.walk(mod.tree):
            if isinstance(c, ast.Call) and isinstance(c.func, ast.Attribute) and c.func.attr == "allocate_next_num_out":
                n_alloc += 1
                f = enclosing_func(c)
                q = qualname(f) if f else "<module>"
                ctx.instance("C05.sole-allocator", f"allocate@{q}", q == "Codec.encode",
                             f"{q} allocates an outbound number outside the encoder: the message it numbers bypasses the single numbering path", loc(c))
    if n_alloc == 0:
        raise AnalysisError("no call of allocate_next_num_out found")
    enc_sites = res.call_sites("Codec.encode")
    for q, c in enc_sites:
        if _mod(c) in EXCLUDED_MODULES:
            continue
        ctx.instance("C05.sole-allocator", f"encode@{q}", q == "AsyncFIXConnection.send_msg",
                     f"{q} calls Codec.encode directly: frames numbered there are neither gated nor journaled by send_msg", loc(c))
    # name-based fallback for calls the resolver cannot type
    for mod in repo.modules.values():
        if mod.rel in EXCLUDED_MODULES:
            continue
        for c in ast.walk(mod.tree):
            if isinstance(c, ast.Call) and isinstance(c.func, ast.Attribute) and c.func.attr == "encode" \
                    and "codec" in unparse(c.func.value).lower():
                f = enclosing_func(c)
                q = qualname(f) if f else "<module>"
                if q != "AsyncFIXConnection.send_msg":
                    ctx.instance("C05.sole-allocator", f"encode@{q}(by-name)", False,
                                 f"{q} calls the codec's encode directly", loc(c))
    # allocator shape
    al = repo.func("FIXSession.allocate_next_num_out")
    writes = res.attr_writes("FIXSession.allocate_next_num_out", "next_num_out")
    ok = len(writes) == 1 and isinstance(writes[0], ast.AugAssign) and isinstance(writes[0].op, ast.Add) \
        and isinstance(writes[0].value, ast.Constant) and writes[0].value.value == 1
    rets = [n for n in walk_no_nested(al) if isinstance(n, ast.Return)]
    pre = False
    if ok and len(rets) == 1 and isinstance(rets[0].value, ast.Name):
        ag = CFG(al)
        defs = [n for n in walk_no_nested(al) if isinstance(n, ast.Assign) and isinstance(n.targets[0], ast.Name)
                and n.targets[0].id == rets[0].value.id]
        if len(defs) == 1 and "self.next_num_out" in unparse(defs[0].value):
            d, w = ag.ids_of(defs[0])[0], ag.ids_of(writes[0])[0]
            pre = ag.reaches(d, w, exc=False) and not ag.reaches(w, d, exc=False)
    ctx.instance("C05.sole-allocator", "allocator-shape", ok and pre,
                 "allocate_next_num_out no longer returns the pre-increment value and adds exactly 1", loc(al))

    # ---- rule 2
    enc = sp.encode_nodes
    gating = [r for r in sp.raise_nodes if (sp.raised_class(r) or "").endswith("FIXConnectionError")]
    if not gating:
        raise AnalysisError("send_msg: no state-gating raise found")
    after = g.reach(enc, exc=False)
    for r in gating:
        ok = r not in after
        ctx.instance("C05.refusal-precedes-allocation", f"send_msg[raise@{short(g.nodes[r].ast.exc, 50)}]", ok,
                     "a refusal of send_msg is reachable after Codec.encode has allocated the MsgSeqNum: the refused send consumes a number",
                     loc(g.nodes[r].ast), g.describe(g.witness_path(enc[0], [r], exc=False) or []))
    # gates dominate the encode: every test whose branch raises FIXConnectionError is evaluated before encode
    dom = g.dominators(exc=False)
    tests_with_raise = []
    for n in g.nodes:
        if n.kind == "test":
            for d, lab in g.succs(n.id, exc=False):
                if g.nodes[d].kind == "stmt" and isinstance(g.nodes[d].ast, ast.Raise) and d in gating:
                    tests_with_raise.append(n.id)
    ctx.instance("C05.refusal-precedes-allocation", "send_msg[gates-before-encode]",
                 bool(tests_with_raise) and all(not g.reaches(enc[0], t, exc=False) for t in tests_with_raise),
                 "a state gate of send_msg is evaluated after the encode call", loc(sp.fn))

    # ---- rule 3
    w_arg = sp.write_calls[0].args[0] if sp.write_calls[0].args else None
    p_arg = sp.persist_calls[0].args[0] if sp.persist_calls[0].args else None
    same = isinstance(w_arg, ast.Name) and isinstance(p_arg, ast.Name) and w_arg.id == p_arg.id
    chain = sp.value_flow(w_arg) if isinstance(w_arg, ast.Name) else []
    from_encode = any(v is not None and v != "multiple" and any(c is sp.encode_calls[0] for c in ast.walk(v)) for _, v in chain)
    single = all(v is not None and v != "multiple" for _, v in chain)
    ctx.instance("C05.same-bytes", "send_msg[write-arg == persist-arg]", same and from_encode and single,
                 f"write({short(w_arg) if w_arg else '?'}) and persist_msg({short(p_arg) if p_arg else '?'}) do not receive the same "
                 "single-definition value produced by Codec.encode: the journal no longer holds the exact bytes sent", loc(sp.write_calls[0]),
                 sample={"rule": "C05.same-bytes", "flow": [(n, short(v, 50) if v is not None and v != "multiple" else v) for n, v in chain]})
    if len(sp.persist_calls) > 0:
        dirs = [fold.fold(a) for c in sp.persist_calls for a in c.args[2:3]] + \
               [fold.fold(k.value) for c in sp.persist_calls for k in c.keywords if k.arg == "direction"]
        ctx.instance("C05.same-bytes", "send_msg[persist direction]", all(getattr(d, "name", None) == "OUTBOUND" for d in dirs) and bool(dirs),
                     f"sent frames are journaled under direction {dirs}", loc(sp.persist_calls[0]))
    for label, nodes in (("write", sp.write_nodes), ("persist_msg", sp.persist_nodes)):
        ok = g.must_pass(enc[0], nodes, [g.exit], exc=False)
        p = None if ok else g.witness_path(enc[0], [g.exit], avoid=nodes, exc=False)
        ctx.instance("C05.same-bytes", f"send_msg[every completed send passes {label}]", ok,
                     f"send_msg can complete after allocating a number without calling {label}", loc(sp.fn), g.describe(p) if p else None)

    # ---- rule 4
    fs = repo.func("Journaler.find_seq_no")
    lits = [c.args[0].value for c in walk_no_nested(fs) if isinstance(c, ast.Call) and isinstance(c.func, ast.Attribute)
            and c.func.attr in ("index", "find") and c.args and isinstance(c.args[0], ast.Constant) and isinstance(c.args[0].value, bytes)]
    if not lits:
        # no literal search at all: tag 34 is located by some other algorithm (a field scan, a regular expression ...) - whether it
        # finds the field the encoder wrote is not something this rule can read
        raise AnalysisError("find_seq_no no longer locates tag 34 by a literal search for its marker: the agreement of the scanner with the encoder's field layout is not visible")
    ok = bool(lits) and lits[0] == b"\x0134="
    ctx.instance("C05.key-agreement", "find_seq_no[marker]", ok,
                 f"find_seq_no scans for {lits[0] if lits else None!r}; without the leading SOH a value such as '134=' or text containing '34=' is taken for the sequence number", loc(fs))
    # offset arithmetic: int(msg[i_start + len(marker) : i_end])
    offs = [n for n in walk_no_nested(fs) if isinstance(n, ast.Slice) and isinstance(n.lower, ast.BinOp) and isinstance(n.lower.right, ast.Constant)]
    ok = bool(offs) and bool(lits) and offs[0].lower.right.value == len(lits[0])
    ctx.instance("C05.key-agreement", "find_seq_no[offset]", ok, "the digits slice does not start right after the scanned marker", loc(fs))
    encf = repo.func("Codec.encode")
    eg = CFG(encf)
    loops = [n for n in eg.nodes if n.kind == "for" and "tags" in unparse(n.ast.iter)]
    seq_appends = []
    pre_tags = []
    for n in eg.nodes:
        if n.kind == "stmt" and isinstance(n.ast, ast.Expr) and isinstance(n.ast.value, ast.Call) \
                and isinstance(n.ast.value.func, ast.Attribute) and n.ast.value.func.attr == "append":
            arg = n.ast.value.args[0] if n.ast.value.args else None
            tag = _fmt_tag(arg, fold)
            if tag == "34":
                seq_appends.append(n.id)
            elif tag is not None:
                pre_tags.append((n.id, tag, arg))
    if len(seq_appends) != 1 or len(loops) != 1:
        raise AnalysisError(f"Codec.encode: MsgSeqNum append ({len(seq_appends)}) / body loop ({len(loops)}) not identified")
    dom = eg.dominators(exc=False)
    ok = seq_appends[0] in dom[loops[0].id]
    ctx.instance("C05.key-agreement", "encode[34 before caller fields]", ok,
                 "the MsgSeqNum field is not emitted before the caller-controlled body fields: find_seq_no may read a caller value", loc(eg.nodes[seq_appends[0]].ast))
    before = [(t, a) for nid, t, a in pre_tags if eg.reaches(nid, seq_appends[0], exc=False) and nid in dom[seq_appends[0]]]
    from sa.guards import resolved as _resolved
    okb = all(t in ("49", "56") and "session." in unparse(_resolved(encf, a)) for t, a in before)
    ctx.instance("C05.key-agreement", "encode[only session fields precede 34]", okb,
                 f"fields {[t for t, _ in before]} precede MsgSeqNum in the body; only the session's CompIDs may", loc(encf))

    # ---- rule 5
    views = journal.journaler_methods(repo)
    pv = views["persist_msg"]
    ins = [s for s in pv.sites if s.stmt.kind == "INSERT" and s.stmt.table == "message"]
    upd = [s for s in pv.sites if s.stmt.kind == "UPDATE" and any(c == "outboundSeqNo" for c, _ in s.stmt.set_cols)]
    if len(ins) != 1 or len(upd) != 1:
        raise AnalysisError("persist_msg: INSERT / outbound UPDATE not identified")
    ok = unparse(ins[0].args[0]) == unparse(upd[0].args[0]) and not any(
        pv.cfg.reaches(a, c, exc=False) and pv.cfg.reaches(c, b, exc=False)
        for a in pv.site_nodes[ins[0]] for b in pv.site_nodes[upd[0]] for c in pv.commit_nodes)
    ctx.instance("C05.stored-equals-last", "persist_msg[outboundSeqNo]", ok,
                 "the stored outbound counter is not the inserted row's own number within the same transaction", loc(upd[0].call))

    # ---- rule 6
    allowed = {"FIXSession.__init__", "FIXSession.allocate_next_num_out"}
    writers = res.writers_of("next_num_out")
    for q, nodes in writers.items():
        if _mod(nodes[0]) in EXCLUDED_MODULES:
            continue
        if q in allowed:
            ok = True
        elif q.startswith("Journaler."):
            # loader (reads the stored value) or renumbering with a durable twin in the same call
            v = views.get(q.split(".", 1)[1])
            has_sql = bool(v and v.sites)
            ok = has_sql
        else:
            ok = False
        ctx.instance("C05.counter-writers", f"{q}[next_num_out]", ok,
                     f"{q} writes the outbound counter directly ({short(nodes[0], 60)}): the stored counter and the journal rows are not updated with it",
                     loc(nodes[0]))
    ctx.floor("C05.counter-writers", 4)


def _fmt_tag(arg, fold):
    """``"%s=%s" % (FTag.X, v)`` / f-string -> tag number"""
    if isinstance(arg, ast.BinOp) and isinstance(arg.op, ast.Mod) and isinstance(arg.left, ast.Constant) \
            and isinstance(arg.left.value, str) and arg.left.value.startswith("%s=") and isinstance(arg.right, ast.Tuple):
        return fold.tag(arg.right.elts[0])
    if isinstance(arg, ast.JoinedStr) and arg.values and isinstance(arg.values[0], ast.FormattedValue):
        return fold.tag(arg.values[0].value)
    return None
