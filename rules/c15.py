"""C15 - schema validation accepts exactly what the dictionary allows (structural clauses).

Decides whether each class of single fault has a rejecting check at both nesting levels,
whether required members are checked for both member kinds, whether a rejection can leave as
the wrong exception type, and whether the dictionary loader is declaration-order independent.
That every valid instance of every message type validates is behaviour: not decided.
"""
from __future__ import annotations

import ast
import re

from sa.cfg import CFG
from sa.core import AnalysisError, loc, short, unparse, walk_no_nested
from sa.guards import assert_facts, facts, guarded
from sa.resolve import Resolver

VALIDATE = "FIXSchema.validate"
HEADER = "FIXSchema._validate_header"
GROUP = "SchemaGroup.validate_group"
VALUE = "SchemaField.validate_value"


def path_facts(g, nid):
    fs = set()
    for t, lab in g.guards(nid, exc=False):
        fs |= facts(t, lab == "true")
    # `assert isinstance(field, SchemaField)` after the group arm of a guard-clause validator is the same knowledge as an `elif`
    fs |= assert_facts(g, nid)
    # a local that carries a finding out of a search loop (`found = None; for ..: if <cond>: found = x; break` ... `if found is not None:`):
    # where it is known not to be None, the facts of the place(s) where it was given a value hold for that value
    for atom, tv in list(fs):
        m = re.fullmatch(r"(\w+) is not None", atom) if tv else re.fullmatch(r"(\w+) is None", atom) if not tv else None
        if not m:
            continue
        v = m.group(1)
        defs = [n for n in g.nodes if n.kind == "stmt" and isinstance(n.ast, ast.Assign) and len(n.ast.targets) == 1 and unparse(n.ast.targets[0]) == v]
        valued = [n for n in defs if not (isinstance(n.ast.value, ast.Constant) and n.ast.value.value is None)]
        if not valued or len(valued) == len(defs):
            continue
        carried = None
        for n in valued:
            f2 = set()
            for t, lab in g.guards(n.id, exc=False):
                f2 |= facts(t, lab == "true")
            carried = f2 if carried is None else (carried & f2)
        fs |= {(a, t) for a, t in (carried or set())}
    return fs


def raises_of(g):
    out = []
    for n in g.nodes:
        if n.kind == "stmt" and isinstance(n.ast, ast.Raise) and n.ast.exc is not None:
            e = n.ast.exc.func if isinstance(n.ast.exc, ast.Call) else n.ast.exc
            out.append((n, unparse(e).split(".")[-1], path_facts(g, n.id)))
    return out


def calls_of(g, attr):
    out = []
    for n in g.nodes:
        if n.kind not in ("stmt", "test"):
            continue
        for c in walk_no_nested(n.ast):
            if isinstance(c, ast.Call) and isinstance(c.func, ast.Attribute) and c.func.attr == attr:
                out.append((n, c, path_facts(g, n.id)))
    return out


def has(fs, pattern, truth=True):
    return any(tv is truth and re.fullmatch(pattern, a) for a, tv in fs)


def _assigned(fn, pred):
    """Names of locals assigned (Assign / for target) from a value satisfying pred(value_ast)."""
    out = []
    for n in walk_no_nested(fn):
        if isinstance(n, ast.Assign) and len(n.targets) == 1 and isinstance(n.targets[0], ast.Name) and pred(n.value):
            out.append(n.targets[0].id)
    return out


def group_roles(gfn):
    """Locals of validate_group by role (independent of how they are spelled)."""
    r = {}
    order = _assigned(gfn, lambda v: isinstance(v, ast.DictComp) and "enumerate(" in unparse(v.generators[0].iter))
    fields = _assigned(gfn, lambda v: isinstance(v, ast.DictComp) and "enumerate(" not in unparse(v.generators[0].iter))
    r["ORDER"] = order[0] if order else "?"
    r["FIELDS"] = fields[0] if fields else "?"
    ordv = _assigned(gfn, lambda v: isinstance(v, ast.Subscript) and unparse(v.value) == r["ORDER"])
    # `idx = order.get(t)` + `if idx is None: raise` is the same lookup-with-membership-test in one step
    ordg = _assigned(gfn, lambda v: isinstance(v, ast.Call) and unparse(v.func) == r["ORDER"] + ".get" and len(v.args) == 1 and not v.keywords)
    r["ORD"] = ordv[0] if ordv else (ordg[0] if ordg else "?")
    r["ORD_VIA_GET"] = bool(ordg) and not ordv
    r["ENTRY"] = None
    merged = [n for n in walk_no_nested(gfn) if isinstance(n, ast.Assign) and unparse(n.targets[0]) == r["ORDER"] and isinstance(n.value, ast.DictComp)
              and isinstance(n.value.value, ast.Tuple) and len(n.value.value.elts) == 2]
    if merged and r["FIELDS"] == "?":
        # ... or taken apart at the lookup itself: `idx, member = table[t]`
        for n in walk_no_nested(gfn):
            if isinstance(n, ast.Assign) and isinstance(n.targets[0], ast.Tuple) and len(n.targets[0].elts) == 2 and all(isinstance(e, ast.Name) for e in n.targets[0].elts) \
                    and isinstance(n.value, ast.Subscript) and unparse(n.value.value) == r["ORDER"]:
                r["ORD"] = n.targets[0].elts[0].id
                r["FIELDS"] = r["ORDER"]
    if merged and r["FIELDS"] == "?":
        # one table {tag: (position, member)}: the entry local is looked up once and unpacked into (index, member)
        entry = ordg[0] if ordg else (ordv[0] if ordv else None)
        for n in walk_no_nested(gfn):
            if entry and isinstance(n, ast.Assign) and isinstance(n.targets[0], ast.Tuple) and len(n.targets[0].elts) == 2 and unparse(n.value) == entry \
                    and all(isinstance(e, ast.Name) for e in n.targets[0].elts):
                r["ENTRY"] = entry
                r["ORD"] = n.targets[0].elts[0].id
                r["FIELDS"] = r["ORDER"]
    prev = [n for n in _assigned(gfn, lambda v: unparse(v) == r["ORD"])]
    # the previous-index local is the one the order test compares with the current index (`prev > idx`)
    cmp_txt = " ".join(unparse(n.test) for n in walk_no_nested(gfn) if isinstance(n, ast.If))
    prev_cmp = [p_ for p_ in prev if re.search(rf"\b{re.escape(p_)} > {re.escape(r['ORD'])}\b|\b{re.escape(r['ORD'])} < {re.escape(p_)}\b", cmp_txt)]
    r["PREV"] = (prev_cmp or prev or ["?"])[0]
    first = [n for n in _assigned(gfn, lambda v: isinstance(v, ast.Constant) and v.value is True) if n in _assigned(gfn, lambda v: isinstance(v, ast.Constant) and v.value is False)]
    r["FIRST"] = first[0] if first else "?"
    r["FIRST_IS_INDEX"] = False
    if not first:
        # the same bookkeeping as 'index of the item's first member': assigned the current index only while it is still None, tested != 0
        idx_first = [p_ for p_ in prev if p_ != r["PREV"] and re.search(rf"\b{re.escape(p_)} != 0\b|\b{re.escape(p_)} == 0\b", cmp_txt)]
        if idx_first:
            r["FIRST"] = idx_first[0]
            r["FIRST_IS_INDEX"] = True
    return r


def message_roles(fn):
    r = {}
    sm = _assigned(fn, lambda v: unparse(v).startswith("self._messages_types[") or unparse(v) == "self._header")
    r["SM"] = sm[0] if sm else "?"
    r["REQ"] = "?"
    for n in walk_no_nested(fn):
        if isinstance(n, ast.For) and unparse(n.iter) == f"{r['SM']}.required.items()" and isinstance(n.target, ast.Tuple) and len(n.target.elts) == 2:
            r["REQ"] = unparse(n.target.elts[1])
    return r


def run(ctx):
    repo = ctx.repo
    res = Resolver(repo)
    R1, R2, R3, R4, R5 = "C15.member-kinds", "C15.check-matrix", "C15.error-discipline", "C15.declaration-order", "C15.required-flag-boolean"
    ctx.rule(R1, "every 'required member missing' rejection covers both member kinds of a schema set (fields and groups): it is not restricted to SchemaField")
    ctx.rule(R2, "the message-level and the item-level validator each contain a rejecting branch for every applicable fault class (2 x 10 matrix, recognised by effect)")
    ctx.rule(R3, "only FIXMessageError (and subclasses) can leave validation on message-controlled data: no assert on message data, no unguarded lookup keyed by it")
    ctx.rule(R4, "component resolution retries with a fresh container, registers only complete components, stops on no progress, and messages are parsed after it")
    ctx.rule(R5, "the 'required' flag passed to SchemaSet.add is a boolean expression, never the dict-typed .required attribute of a set")
    ctx.assumptions += ["the XML dictionary itself is trusted input (asserts on schema structure are not message data)"]

    graphs = {q: CFG(repo.func(q)) for q in (VALIDATE, HEADER, GROUP, VALUE)}

    # per-instance caches keyed by an equality that identifies different sets: the layout of one group would be served for another group of the same name
    for cname, c in repo.classes.items():
        if not getattr(c, "_module").rel.endswith("protocol/schema.py"):
            continue
        cached = [m for m in c.body if isinstance(m, (ast.FunctionDef, ast.AsyncFunctionDef)) and any(re.search(r"(lru_cache|\bcache\b|cached_property)", unparse(d)) and "cached_property" not in unparse(d) for d in m.decorator_list)]
        if not cached:
            continue
        eqf = repo.mro_func(cname, "__eq__")
        same_family = eqf is not None and re.search(r"isinstance\(\w+, (SchemaSet|SchemaGroup|SchemaComponent|SchemaMessage)\)", unparse(eqf)) is not None
        ctx.instance(R2, f"{cname}.{cached[0].name}[cache keyed by a name-based equality]", not same_family,
                     f"{cname}.{cached[0].name} is memoised per instance with functools, but {cname}.__eq__/__hash__ identify different sets of the same name: the result "
                     "computed for the first group validated is served for every other group with that name (other messages, other dictionaries)", loc(cached[0]))


    # ------------------------------------------------------------------ rule 1
    n1 = 0
    # a validator that calls through a local (a handler picked from a table at run time) is not modelled: the matrix below reads the
    # rejecting branches off the validator's own control flow and would report them missing - say so instead of guessing
    for q_ in (VALIDATE, HEADER, GROUP):
        f_ = repo.func(q_)
        locals_ = {x.id for x in walk_no_nested(f_) if isinstance(x, ast.Name) and isinstance(x.ctx, ast.Store)}
        for c_ in walk_no_nested(f_):
            if isinstance(c_, ast.Call) and isinstance(c_.func, ast.Name) and c_.func.id in locals_:
                raise AnalysisError(f"{q_} dispatches through the local `{c_.func.id}` (a handler chosen at run time): the validator's branches are not visible to the check matrix")
    roles_g = group_roles(repo.func(GROUP))
    roles_v = message_roles(repo.func(VALIDATE))
    roles_h = message_roles(repo.func(HEADER))
    req_names = {VALIDATE: roles_v["REQ"], HEADER: roles_h["REQ"], GROUP: "?"}
    for q in (VALIDATE, HEADER, GROUP):
        g = graphs[q]
        for n, exc, fs in raises_of(g):
            if not (has(fs, r"\w+\.tag not in \w+") and (has(fs, re.escape(req_names[q])) or has(fs, r"self\.required\[\w+\]"))):
                continue
            n1 += 1
            only_fields = has(fs, r"isinstance\(\w+, SchemaField\)")
            ctx.instance(R1, f"{q}[required member missing]", not only_fields,
                         f"the 'required member missing' rejection in {q} sits under isinstance(.., SchemaField): a message that lacks a required repeating group is accepted",
                         loc(n.ast), sample={"rule": R1, "function": q, "line": n.line, "kind_agnostic": not only_fields})
    if n1 < 3:
        raise AnalysisError(f"only {n1} 'required member missing' rejections recognised (message, header and group-item level expected)")

    # the header validator checks the VALUE of a required field that is present (as the body and group-item validators do for theirs): a
    # validate_value call on the header's path, not under a test that excludes plain fields
    ch_val = calls_of(graphs[HEADER], "validate_value")
    ok_h = any(not has(fs, r"isinstance\(\w+, SchemaField\)", truth=False) for _n, _c, fs in ch_val)
    ctx.instance(R1, f"{HEADER}[value of a present required field is validated]", ok_h,
                 "the header validator no longer passes the value of a required header field through validate_value (or only where the member is not a plain "
                 "field): a header value outside its type / enumeration is accepted", loc(repo.func(HEADER)))
    # every tag of the message is examined: the scan over the message's tags is left only by a rejection or at its end - a `break` / `return`
    # inside it (e.g. at the first header tag or at the CheckSum) lets everything behind that tag through unvalidated
    vf = repo.func(VALIDATE)
    scans = [n for n in walk_no_nested(vf) if isinstance(n, ast.For) and re.search(r"\b(msg|message)\b.*\b(tags|items)\b", unparse(n.iter))]
    if len(scans) != 1:
        raise AnalysisError(f"{VALIDATE}: expected one scan over the message's tags, found {len(scans)}")

    def own_exits(loop):
        out = []
        def rec(stmts, inner):
            for st in stmts:
                if isinstance(st, ast.Break) and not inner:
                    out.append(st)
                elif isinstance(st, ast.Return):
                    out.append(st)
                elif isinstance(st, (ast.For, ast.While, ast.AsyncFor)):
                    rec(st.body, True)
                    rec(st.orelse, inner)
                elif isinstance(st, (ast.FunctionDef, ast.AsyncFunctionDef, ast.ClassDef)):
                    continue
                else:
                    for fld in ("body", "orelse", "finalbody"):
                        rec(getattr(st, fld, []) or [], inner)
                    for h in getattr(st, "handlers", []) or []:
                        rec(h.body, inner)
        rec(loop.body, False)
        return out
    ex_ = own_exits(scans[0])
    ctx.instance(R1, f"{VALIDATE}[every tag of the message is examined]", not ex_,
                 "the scan over the message's tags can be left by `break` / `return` before its end: the tags behind that point are accepted unexamined "
                 "(a decoded message starts with its header tags)", loc(ex_[0]) if ex_ else loc(scans[0]))
    # ------------------------------------------------------------------ rule 2
    gv, gg = graphs[VALIDATE], graphs[GROUP]
    rv, rg = raises_of(gv), raises_of(gg)
    cv_val, cg_val = calls_of(gv, "validate_value"), calls_of(gg, "validate_value")
    cv_grp, cg_grp = calls_of(gv, "validate_group"), calls_of(gg, "validate_group")

    def any_raise(rs, pred):
        return any(exc == "FIXMessageError" and pred(fs) for n, exc, fs in rs)

    ORDER, FIELDS, ORD, PREV, FIRST = (roles_g[k] for k in ("ORDER", "FIELDS", "ORD", "PREV", "FIRST"))
    SM = roles_v["SM"]
    if "?" in (ORDER, FIELDS, ORD, PREV, FIRST, SM, roles_v["REQ"], roles_h["REQ"]):
        raise AnalysisError(f"validator locals not recognised by role: group {roles_g}, message {roles_v}, header {roles_h}")
    def not_member(fs):
        return has(fs, rf"\w+ not in {ORDER}") or has(fs, rf"\w+ not in {FIELDS}") or (roles_g["ORD_VIA_GET"] and has(fs, rf"{ORD} is None")) \
            or (roles_g.get("ENTRY") and has(fs, rf"{roles_g['ENTRY']} is None"))
    matrix = {
        "unknown tag": (any_raise(rv, lambda fs: has(fs, r"\w+ not in self\._tag2field")),
                        any_raise(rg, not_member)),
        "tag not allowed here": (any_raise(rv, lambda fs: has(fs, rf"\w+ not in {SM}")),
                                 any_raise(rg, not_member)),
        "field given as group": (any_raise(rv, lambda fs: has(fs, r"isinstance\(\w+, SchemaField\)") and has(fs, r"\w+\.is_group\(\w+\)")),
                                 any_raise(rg, lambda fs: has(fs, r"isinstance\(\w+, SchemaField\)") and has(fs, r"\w+\.is_group\(\w+\)"))),
        "group given as field": (any_raise(rv, lambda fs: has(fs, r"\w+\.is_group\(\w+\)", False) and (has(fs, r"isinstance\(\w+, SchemaGroup\)") or has(fs, r"isinstance\(\w+, SchemaField\)", False))),
                                 any_raise(rg, lambda fs: has(fs, r"\w+\.is_group\(\w+\)", False) and (has(fs, r"isinstance\(\w+, SchemaGroup\)") or has(fs, r"isinstance\(\w+, SchemaField\)", False)))),
        "value check": (any(has(fs, r"isinstance\(\w+, SchemaField\)") and not has(fs, r"\w+\.is_group\(\w+\)") for n, c, fs in cv_val),
                        any(has(fs, r"isinstance\(\w+, SchemaField\)") and not has(fs, r"\w+\.is_group\(\w+\)") for n, c, fs in cg_val)),
        "required member missing": (any_raise(rv, lambda fs: has(fs, r"\w+\.tag not in \w+") and has(fs, re.escape(roles_v["REQ"]))),
                                    any_raise(rg, lambda fs: has(fs, r"\w+\.tag not in \w+") and has(fs, r"self\.required\[\w+\]"))),
        "recursion into groups": (any(has(fs, r"\w+\.is_group\(\w+\)", False) is False for n, c, fs in cv_grp) and bool(cv_grp),
                                  any(True for n, c, fs in cg_grp if unparse(c.func.value) != "self") and bool(cg_grp)),
        "member order": (None, any_raise(rg, lambda fs: has(fs, rf"{PREV} > {ORD}") or has(fs, rf"{ORD} < {PREV}"))),
        "first member present": (None, any_raise(rg, (lambda fs: has(fs, rf"{re.escape(FIRST)} != 0") or has(fs, rf"{re.escape(FIRST)} == 0", False))
                                                  if roles_g.get("FIRST_IS_INDEX") else (lambda fs: has(fs, re.escape(FIRST), False)))),
        "unknown message type": (any_raise(rv, lambda fs: has(fs, r"msg\.msg_type not in self\._messages_types")), None),
    }
    for cell, (m_ok, g_ok) in matrix.items():
        for level, ok in (("message", m_ok), ("group item", g_ok)):
            if ok is None:
                continue
            ctx.instance(R2, f"{cell}[{level} level]", bool(ok),
                         f"the {level}-level validator has no rejecting branch for the fault class '{cell}': such a message is accepted", loc(repo.func(VALIDATE if level == "message" else GROUP)),
                         sample={"rule": R2, "cell": cell, "level": level, "present": bool(ok)})
    ctx.extra["check_matrix"] = {k: {"message": v[0], "group_item": v[1]} for k, v in matrix.items()}
    # the value check is not optional: every way through the 'plain field' branch back to the loop passes validate_value
    for q, g, calls in ((VALIDATE, gv, cv_val), (GROUP, gg, cg_val)):
        call_nodes = {n.id for n, c, fs in calls}
        heads = [n.id for n in g.nodes if n.kind == "for"]
        bad = None
        for t in g.nodes:
            if t.kind == "test" and re.fullmatch(r"isinstance\(\w+, SchemaField\)", unparse(t.ast)):
                for d, lab in g.succs(t.id, exc=False):
                    if lab != "true":
                        continue
                    for h in heads:
                        w = g.witness_path(d, [h], avoid=call_nodes, exc=False) if d not in call_nodes else None
                        if d == h:
                            w = [d]
                        bad = bad or w
        ctx.instance(R2, f"{q}[value check on every path of the field branch]", bad is None and bool(call_nodes),
                     f"a path through the plain-field branch of {q} reaches the next tag without calling validate_value: some field values are accepted unchecked "
                     "(e.g. a cache of earlier verdicts that ignores per-tag special cases)", loc(repo.func(q)), g.describe(bad or [])[-6:])
    # the order bookkeeping that makes the order / first-member cells meaningful
    gfn = repo.func(GROUP)
    upd = [n for n in gg.nodes if n.kind == "stmt" and isinstance(n.ast, ast.Assign) and unparse(n.ast.targets[0]) == PREV and unparse(n.ast.value) == ORD]
    first = [n for n in gg.nodes if n.kind == "stmt" and isinstance(n.ast, ast.Assign) and unparse(n.ast.targets[0]) == FIRST and unparse(n.ast.value) == "True"]
    # every way through one member of the item (loop head to loop head, not raising) passes an update of the previous index
    inner = [n.id for n in gg.nodes if n.kind == "for" and isinstance(n.ast, ast.For) and isinstance(n.ast.target, ast.Tuple)
             and any(x.ast in n.ast.body or any(x.ast is y for b in n.ast.body for y in ast.walk(b)) for x in upd if x.ast is not None)]
    ok = bool(upd) and bool(inner)
    stale = None
    for h in inner:
        for d, lab in gg.succs(h, exc=False):
            nd = gg.nodes[d]
            if nd.ast is None or not any(nd.ast is y for b in gg.nodes[h].ast.body for y in ast.walk(b)):
                continue
            stale = stale or (gg.witness_path(d, [h], avoid={n.id for n in upd}, exc=False) if d not in {n.id for n in upd} else None)
    ok = ok and stale is None
    ctx.instance(R2, "validate_group[previous index updated for every member]", ok,
                 "the previous-index local is not updated to the current member's index for every member kind: the order test compares with a stale index", loc(gfn))
    ok = bool(first) and all(has(path_facts(gg, n.id), rf"{ORD} == 0") for n in first)
    if roles_g.get("FIRST_IS_INDEX"):
        # index form: it takes the current member's index only while it has none yet (so it is the index of the item's first member)
        firsts_ = [n for n in gg.nodes if n.kind == "stmt" and isinstance(n.ast, ast.Assign) and unparse(n.ast.targets[0]) == FIRST and unparse(n.ast.value) == ORD]
        ok = bool(firsts_) and all(has(path_facts(gg, n.id), rf"{re.escape(FIRST)} is None") for n in firsts_)
    ctx.instance(R2, "validate_group[first member flag only for index 0]", ok, "the first-member flag is set for a member that is not the first of the group", loc(gfn))
    resets = [n for n in gg.nodes if n.kind == "stmt" and isinstance(n.ast, ast.Assign) and unparse(n.ast.targets[0]) in (PREV, FIRST)
              and unparse(n.ast.value) in ("-1", "False", "None")]
    loops = [n for n in walk_no_nested(gfn) if isinstance(n, ast.For)]
    inner_ok = len(resets) >= 2 and all(any(r.ast in lp.body for lp in loops) for r in resets)
    ctx.instance(R2, "validate_group[order state reset per item]", inner_ok, "the previous-index / first-member locals are not reset for every group item", loc(gfn))
    # tag_order enumerates the members in declaration order
    decl = [n for n in walk_no_nested(gfn) if isinstance(n, ast.Assign) and unparse(n.targets[0]) == ORDER]
    ok = False
    if len(decl) == 1 and isinstance(decl[0].value, ast.DictComp):
        dc = decl[0].value
        gen = dc.generators[0]
        if unparse(gen.iter) == "enumerate(self.members.values())" and isinstance(gen.target, ast.Tuple) and len(gen.target.elts) == 2 and not gen.ifs:
            i_n, f_n = (unparse(e) for e in gen.target.elts)
            ok = unparse(dc.key) == f"{f_n}.tag" and unparse(dc.value) in (i_n, f"({i_n}, {f_n})")
    ctx.instance(R2, "validate_group[order index = declaration order]", ok, "the order index is not {member.tag: position in the declared member list}", loc(gfn))

    # ------------------------------------------------------------------ rule 3
    error_discipline(ctx, R3, repo, res, graphs)

    # ------------------------------------------------------------------ rule 4
    declaration_order(ctx, R4, repo, res)

    # ------------------------------------------------------------------ rule 5
    add_sites = []
    for q, f in repo.functions.items():
        if not getattr(f, "_module").rel.endswith("protocol/schema.py"):
            continue
        for c in walk_no_nested(f):
            if isinstance(c, ast.Call) and isinstance(c.func, ast.Attribute) and c.func.attr == "add" and (len(c.args) == 2 or any(k.arg == "required" for k in c.keywords)):
                add_sites.append((q, c))
    n5 = 0
    for q, call in add_sites:
        if len(call.args) < 2 and not any(k.arg == "required" for k in call.keywords):
            continue
        n5 += 1
        flag = call.args[1] if len(call.args) > 1 else next(k.value for k in call.keywords if k.arg == "required")
        ok = isinstance(flag, ast.Compare) or (isinstance(flag, ast.Constant) and isinstance(flag.value, bool)) \
            or (isinstance(flag, ast.Attribute) and flag.attr == "field_required") \
            or (isinstance(flag, ast.Subscript) and unparse(flag.value).endswith(".required"))
        if isinstance(flag, ast.Name):
            ok = flag.id in ("required", "req")
        ctx.instance(R5, f"{q}[add(..., {short(flag, 40)})]", ok,
                     f"`{short(call)}` passes `{short(flag)}` as the required flag: it is not a boolean (a set's .required is its member dict - truthy for every non-empty group)", loc(call))
    ctx.floor(R5, 3)
    # SchemaGroup keeps its own flag
    gi = repo.func("SchemaGroup.__init__")
    ctx.instance(R5, "SchemaGroup.__init__[field_required := required]", "self.field_required = required" in unparse(gi), "SchemaGroup no longer records its own required flag", loc(gi))


def error_discipline(ctx, R3, repo, res, graphs):
    # exception classes of the message API are FIXMessageError subclasses
    errs = {}
    for name, c in repo.classes.items():
        if getattr(c, "_module").rel.endswith("errors.py"):
            errs[name] = [unparse(b).split(".")[-1] for b in c.bases]

    def is_fix_error(n, seen=()):
        if n == "FIXMessageError":
            return True
        return any(is_fix_error(b, seen + (n,)) for b in errs.get(n, []) if b not in seen)
    reach, _ = res.transitive(VALIDATE)
    reach = {q for q in reach if q.startswith(("FIXSchema.", "SchemaGroup.", "SchemaField.", "SchemaSet.", "FIXContainer.", "FIXMessage."))}
    raised = set()
    for q in sorted(reach):
        fn = repo.func(q)
        for n in walk_no_nested(fn):
            if isinstance(n, ast.Raise) and n.exc is not None:
                e = n.exc.func if isinstance(n.exc, ast.Call) else n.exc
                nm = unparse(e).split(".")[-1]
                raised.add((q, nm, n))
    for q, nm, n in sorted(raised, key=lambda x: (x[0], x[1], x[2].lineno)):
        if q in ("SchemaSet.tag", "SchemaSet.add", "SchemaSet.__init__"):
            continue  # dictionary construction errors, not message data
        if nm == "ValueError" and _caught_locally(n, "ValueError"):
            continue
        ctx.instance(R3, f"{q}[raise {nm}]", is_fix_error(nm) or nm in ("ValueError",) and q.startswith("SchemaField._validate_value"),
                     f"{q} raises {nm}, which is not a FIXMessageError: a rejection leaves validation as the wrong exception type", loc(n))
    # asserts on message data
    msg_params = {VALIDATE: {"msg"}, HEADER: {"msg"}, GROUP: {"groups"}, VALUE: {"value"},
                  "SchemaField._validate_value_str": {"value"}, "SchemaField._validate_value_number": {"value"},
                  "SchemaField._validate_value_datetime": {"value"}, "SchemaField._validate_value_monthyear": {"value"}}
    vg = graphs[VALUE]
    vfn = repo.func(VALUE)
    for q, params in msg_params.items():
        if not repo.has_func(q):
            continue
        fn = repo.func(q)
        tainted = set(params)
        for n in walk_no_nested(fn):
            if isinstance(n, (ast.For,)):
                if any(isinstance(x, ast.Name) and x.id in tainted for x in ast.walk(n.iter)):
                    tainted |= {x.id for x in ast.walk(n.target) if isinstance(x, ast.Name)}
        for n in walk_no_nested(fn):
            if isinstance(n, ast.Assert):
                used = {x.id for x in ast.walk(n.test) if isinstance(x, ast.Name)} & tainted
                if not used:
                    continue
                # helper asserts are fine when validate_value has already rejected the same condition for every caller
                ok = False
                if q.startswith("SchemaField._validate_value_"):
                    ok = _helper_assert_covered(repo, res, vg, vfn, q, n)
                ctx.instance(R3, f"{q}[assert {short(n.test, 40)}]", ok,
                             f"`{short(n)}` in {q} asserts on message data: a bad message raises AssertionError instead of FIXMessageError", loc(n))
    # lookups keyed by message data
    for q in (VALIDATE, HEADER, GROUP):
        g = graphs[q]
        fn = repo.func(q)
        tainted = set(msg_params[q])
        changed = True
        while changed:
            changed = False
            for n in walk_no_nested(fn):
                if isinstance(n, ast.For) and any(isinstance(x, ast.Name) and x.id in tainted for x in ast.walk(n.iter)):
                    new = {x.id for x in ast.walk(n.target) if isinstance(x, ast.Name)} - tainted
                    if new:
                        tainted |= new
                        changed = True
        for node in g.nodes:
            if node.kind not in ("stmt", "test"):
                continue
            for x in walk_no_nested(node.ast):
                if isinstance(x, ast.Subscript) and isinstance(x.ctx, ast.Load) and isinstance(x.slice, ast.Name) and x.slice.id in tainted:
                    d = unparse(x.value)
                    if d in tainted or d.split(".")[0] in tainted:
                        continue  # reading the message itself: FIXContainer raises FIXMessageError subclasses
                    idx = x.slice.id
                    sib = _sibling_dicts(fn, d)
                    wanted = {(f"{idx} in {k}", True) for k in sib} | {(f"{idx} not in {k}", False) for k in sib}
                    # `v = k.get(idx)` followed by a test of `v is None` is the membership test of k in one step
                    via = []
                    for a in walk_no_nested(fn):
                        if isinstance(a, ast.Assign) and len(a.targets) == 1 and isinstance(a.targets[0], ast.Name) and isinstance(a.value, ast.Call) \
                                and isinstance(a.value.func, ast.Attribute) and a.value.func.attr == "get" and unparse(a.value.func.value) in set(sib) | {d} \
                                and len(a.value.args) == 1 and unparse(a.value.args[0]) == idx and not a.value.keywords:
                            via.append(a.targets[0].id)
                    for v in via:
                        wanted |= {(f"{v} is not None", True), (f"{v} is None", False)}
                    ok, w = guarded(g, node.id, node.ast, x, wanted, [idx] + via)
                    if not ok:
                        ok, w = guarded(g, node.id, node.ast, x, {(f"{idx} not in {d}", False), (f"{idx} in {d}", True)}, [idx])
                    ctx.instance(R3, f"{q}[{d}[{idx}]]", ok,
                                 f"`{d}[{idx}]` in {q} is keyed by message data without a dominating membership test: KeyError instead of FIXMessageError", loc(x),
                                 g.describe(w or [])[-5:])
    # value handed to validate_value may be a group container: needs the is_group guard (cell 'field given as group') - checked by the matrix


def _caught_locally(raise_node, name):
    p = getattr(raise_node, "_parent", None)
    child = raise_node
    while p is not None and not isinstance(p, (ast.FunctionDef, ast.AsyncFunctionDef)):
        if isinstance(p, ast.Try) and child in p.body:
            for h in p.handlers:
                if h.type is not None and name in unparse(h.type):
                    return True
        child = p
        p = getattr(p, "_parent", None)
    return False


def _helper_assert_covered(repo, res, vg, vfn, q, assert_node):
    """`assert value` / `assert type(value) is str` in a helper: every call site in validate_value passes
    `value` unchanged and is dominated by validate_value's own rejections of the same condition."""
    t = unparse(assert_node.test)
    if t == "num_type in (int, float)":
        return all(len(c.args) > 1 and unparse(c.args[1]) in ("int", "float") for qq, c in res.call_sites(q))
    sites = res.call_sites(q)
    if not sites:
        # no call is visible: either nothing uses the helper any more, or it is reached through a name picked at run time
        short_name = q.split(".")[-1]
        mod = getattr(repo.func(q), "_module")
        dyn = any((isinstance(x, ast.Constant) and x.value == short_name) or (isinstance(x, ast.Attribute) and x.attr == short_name and not isinstance(getattr(x, "_parent", None), ast.Call))
                  for x in ast.walk(mod.tree))
        if dyn:
            raise AnalysisError(f"{q} is only referred to by name (a handler chosen at run time): its callers are not visible, the assert on message data cannot be decided")
        return True
    for caller, call in sites:
        if caller not in (VALUE, "SchemaField._validate_value_monthyear"):
            return False
        if not call.args or unparse(call.args[0]) != "value":
            return False
    # validate_value rejects non-str and empty values before any helper call
    rej = set()
    for n in vg.nodes:
        if n.kind == "stmt" and isinstance(n.ast, ast.Raise):
            rej |= {a for a, tv in path_facts(vg, n.id) if tv}
    need = {"not isinstance(value, str)": ("isinstance(value, str)", False), "not value": ("value", False)}
    rejected_nonstr = any(has(path_facts(vg, n.id), r"isinstance\(value, str\)", False) for n in vg.nodes if n.kind == "stmt" and isinstance(n.ast, ast.Raise))
    rejected_empty = any(has(path_facts(vg, n.id), r"value", False) for n in vg.nodes if n.kind == "stmt" and isinstance(n.ast, ast.Raise))
    if t in ("value",):
        return rejected_empty
    if t in ("type(value) is str", "isinstance(value, str)"):
        return rejected_nonstr
    return False


def _sibling_dicts(fn, d):
    """Locals built by comprehensions over the same iterable with the same key share their key set."""
    out = {d}
    defs = {}
    for n in walk_no_nested(fn):
        if isinstance(n, ast.Assign) and isinstance(n.targets[0], ast.Name) and isinstance(n.value, ast.DictComp):
            gen = n.value.generators[0]
            it = unparse(gen.iter)
            it = re.sub(r"^enumerate\((.*)\)$", r"\1", it)
            defs[n.targets[0].id] = (unparse(n.value.key), it)
    if d in defs:
        out |= {k for k, v in defs.items() if v == defs[d]}
    return out


def block_of_node(stmt):
    p = getattr(stmt, "_parent", None)
    for field in ("body", "orelse", "finalbody"):
        lst = getattr(p, field, None)
        if isinstance(lst, list) and stmt in lst:
            return lst
    return None


def declaration_order(ctx, R4, repo, res):
    pc = repo.func("FIXSchema._parse_component")
    fresh = any(isinstance(c, ast.Call) and unparse(c.func) == "SchemaComponent" for c in walk_no_nested(pc))
    ctx.instance(R4, "_parse_component[fresh container per attempt]", fresh,
                 "_parse_component does not build a fresh SchemaComponent for each attempt: members added by a failed attempt are added again", loc(pc))
    g = CFG(pc)
    comp = _assigned(pc, lambda v: isinstance(v, ast.Call) and unparse(v.func).endswith("_parse_msg_set"))
    comp = comp[0] if comp else "?"
    regs = [n for n in g.nodes if n.kind == "stmt" and isinstance(n.ast, ast.Assign) and unparse(n.ast.targets[0]).startswith("self._components[")]
    ok = bool(regs) and all(has(path_facts(g, n.id), re.escape(comp)) and unparse(n.ast.value) == comp for n in regs)
    ctx.instance(R4, "_parse_component[registers only a completely resolved component]", ok,
                 "a component is registered although _parse_msg_set reported unresolved references: later users merge a partial member list", loc(pc))
    ms = repo.func("FIXSchema._parse_msg_set")
    mg = CFG(ms)
    # the unresolved-reference mark: the local V under whose truth `return None` stands (a flag set True, or a list / set that collects
    # the postponed elements).  Every unresolved branch (component not declared yet / nested group came back None) marks V before the
    # loop goes on, and nothing inside the loop clears V.
    rets = [n for n in mg.nodes if n.kind == "stmt" and isinstance(n.ast, ast.Return)]
    flag = "?"
    for r in rets:
        if r.ast.value is None or unparse(r.ast.value) == "None":
            for a_, tv_ in path_facts(mg, r.id):
                if tv_ and re.fullmatch(r"\w+", a_):
                    flag = a_
    def is_mark(n):
        a_ = n.ast
        if n.kind != "stmt":
            return False
        if isinstance(a_, ast.Assign) and unparse(a_.targets[0]) == flag and unparse(a_.value) == "True":
            return True
        if isinstance(a_, ast.Expr) and isinstance(a_.value, ast.Call) and isinstance(a_.value.func, ast.Attribute) and unparse(a_.value.func.value) == flag \
                and a_.value.func.attr in ("append", "add") and a_.value.args:
            return True
        if isinstance(a_, ast.AugAssign) and unparse(a_.target) == flag and isinstance(a_.op, ast.Add) and isinstance(a_.value, ast.Constant) and a_.value.value:
            return True
        return False
    flag_sets = [n for n in mg.nodes if is_mark(n)]
    marks = {n.id for n in flag_sets}
    loops = [n for n in mg.nodes if n.kind == "for"]
    grp = _assigned(ms, lambda v: isinstance(v, ast.Call) and unparse(v.func).endswith("_parse_group"))
    unresolved = []
    for t in mg.nodes:
        if t.kind != "test":
            continue
        for lab in ("true", "false"):
            fs_ = facts(t.ast, lab == "true")
            if has(fs_, r".+ not in self\._components") or any(has(fs_, rf"{re.escape(g_)} is None") for g_ in grp):
                unresolved.append((t, lab))
    marked = bool(unresolved) and bool(loops)
    for t, lab in unresolved:
        for d, l2 in mg.succs(t.id, False):
            if l2 == lab and d not in marks:
                # from the unresolved branch the loop head / the exit is reached only through a mark
                if mg.reach([d], avoid=marks, exc=False, include_src=True) & ({x.id for x in loops} | {mg.exit} | {r.id for r in rets}):
                    marked = False
    cleared = [n for n in mg.nodes if n.kind == "stmt" and isinstance(n.ast, (ast.Assign, ast.AugAssign, ast.Delete)) and not is_mark(n) and loops
               and mg.reaches(loops[0].id, n.id, exc=False) and flag in
               [unparse(t_) for t_ in (n.ast.targets if isinstance(n.ast, (ast.Assign, ast.Delete)) else [n.ast.target])]]
    ok = len(unresolved) >= 2 and marked and not cleared and any((r.ast.value is None or unparse(r.ast.value) == "None") and has(path_facts(mg, r.id), re.escape(flag)) for r in rets)
    ctx.instance(R4, "_parse_msg_set[unresolved reference => None]", ok,
                 "_parse_msg_set does not report an unresolved component / group reference to its caller", loc(ms))
    lookups = [n for n in mg.nodes if n.kind == "stmt" and "self._components[" in unparse(n.ast)]
    ok = bool(lookups) and all(has(path_facts(mg, n.id), r".+ not in self\._components", False) for n in lookups)
    ctx.instance(R4, "_parse_msg_set[component looked up only when declared]", ok, "a referenced component is looked up without the 'already parsed' test: KeyError for forward references", loc(ms))
    pf = repo.func("FIXSchema._parse")
    pg = CFG(pf)
    pending = _assigned(pf, lambda v: (isinstance(v, ast.ListComp) or (isinstance(v, ast.Call) and unparse(v.func) == "list")) and "components" in unparse(v))
    pending = pending[0] if pending else "?"
    cnts = [n for n in _assigned(pf, lambda v: unparse(v) == f"len({pending})")]
    whiles = [n for n in pg.nodes if n.kind == "test" and unparse(n.ast) == pending]
    msgs = [n for n in pg.nodes if n.kind == "stmt" and "self._parse_message(" in unparse(n.ast)]
    raises = [n for n in pg.nodes if n.kind == "stmt" and isinstance(n.ast, ast.Raise) and any(has(path_facts(pg, n.id), rf"len\({pending}\) == {c}") for c in set(cnts))]
    ok = bool(whiles) and bool(msgs) and all(pg.dominated_by(m.id, whiles[0].id, "false", exc=False) or not pg.reaches(pg.entry, m.id, avoid={whiles[0].id}, exc=False) for m in msgs)
    ctx.instance(R4, "_parse[messages after the component fixpoint]", ok, "messages are parsed before every component is resolved", loc(pf))
    # the same loop written with a per-round flag: cleared when a round starts, set exactly where an element is taken off the pending
    # list, error raised after the round when it is still clear
    removals = [n for n in pg.nodes if n.kind == "stmt" and ((isinstance(n.ast, ast.Delete) and any(unparse(t).startswith(f"{pending}[") for t in n.ast.targets))
                                                             or unparse(n.ast) .startswith(f"{pending}.remove("))]
    flag_ok = flag_upd = False
    if not raises and whiles:
        wnode = whiles[0].ast
        wstmt = getattr(wnode, "_parent", None)
        body0 = wstmt.body if isinstance(wstmt, ast.While) else []
        for st0 in body0[:1]:
            if isinstance(st0, ast.Assign) and isinstance(st0.targets[0], ast.Name) and isinstance(st0.value, ast.Constant) and st0.value.value is False:
                fl = st0.targets[0].id
                sets_ = [n for n in pg.nodes if n.kind == "stmt" and isinstance(n.ast, ast.Assign) and unparse(n.ast.targets[0]) == fl and unparse(n.ast.value) == "True"]
                rz = [n for n in pg.nodes if n.kind == "stmt" and isinstance(n.ast, ast.Raise) and has(path_facts(pg, n.id), re.escape(fl), False)
                      and isinstance(wstmt, ast.While) and any(n.ast is y for b in wstmt.body for y in ast.walk(b))]
                # the flag is set on every way through a removal, and nowhere else; it is not set unconditionally
                with_removal = bool(sets_) and bool(removals) and all(any(block_of_node(s_.ast) is block_of_node(r_.ast) for r_ in removals) for s_ in sets_) \
                    and all(any(block_of_node(s_.ast) is block_of_node(r_.ast) for s_ in sets_) for r_ in removals)
                others = [n for n in pg.nodes if n.kind == "stmt" and isinstance(n.ast, (ast.Assign, ast.AugAssign)) and fl in
                          [unparse(t) for t in (n.ast.targets if isinstance(n.ast, ast.Assign) else [n.ast.target])] and n.ast is not st0 and n not in sets_]
                flag_ok = bool(rz)
                flag_upd = with_removal and not others
    ctx.instance(R4, "_parse[no progress => error]", bool(raises) or flag_ok, "the deferred-resolution loop has no 'no progress' exit: a truly circular dictionary loops forever", loc(pf))
    prog = [c for c in set(cnts) if any(has(path_facts(pg, n.id), rf"len\({pending}\) == {c}") for n in raises)]
    upd = [n for n in pg.nodes if n.kind == "stmt" and isinstance(n.ast, ast.Assign) and prog and unparse(n.ast.targets[0]) == prog[0] and unparse(n.ast.value) == f"len({pending})"]
    # the counter compared at the 'no progress' test is the pending length at the start of the current round, on every path:
    #   (A) no removal between the loop head and a definition made inside the round that reaches the test without passing the head
    #   (B) no definition reaches the test across a removal and a later pass of the loop head
    tracks = False
    if prog and whiles and upd:
        W = whiles[0].id
        Dset = {n.id for n in upd}
        Ts = [n.id for n in pg.nodes if n.kind == "test" and re.search(rf"len\({pending}\) (==|!=|<|>=) {prog[0]}|{prog[0]} (==|!=|>|<=) len\({pending}\)", unparse(n.ast))]
        Ms = [n.id for n in removals] + [n.id for n in pg.nodes if n.kind == "stmt" and isinstance(n.ast, ast.Assign) and unparse(n.ast.targets[0]) == pending
                                          and pg.reaches(W, n.id, exc=False)]
        empties = {n.id for n in pg.nodes if n.kind == "test" and unparse(n.ast) == pending and n.id != W}

        def reach_(src, avoid):
            """reachability that does not leave an `if <pending>:` test through its false edge (the loop head would then be left as well)"""
            seen, todo = set(), [src]
            while todo:
                x = todo.pop()
                for d, lab in pg.succs(x, False):
                    if d in avoid or d in seen or (x in empties and lab == "false"):
                        continue
                    seen.add(d)
                    todo.append(d)
            return seen
        bad = False
        for T_ in Ts:
            for M_ in Ms:
                if M_ in reach_(W, {W}):
                    for D_ in Dset:
                        if D_ in reach_(M_, {W}) and T_ in reach_(D_, {W} | Dset):
                            bad = True  # (A)
                for D_ in Dset:
                    if M_ in reach_(D_, Dset) and W in reach_(M_, Dset) and T_ in reach_(W, Dset):
                        bad = True  # (B)
        tracks = bool(Ts) and bool(Ms) and not bad and any(T_ in reach_(D_, Dset - {D_}) for T_ in Ts for D_ in Dset)
    ctx.instance(R4, "_parse[progress counter updated]", tracks or flag_upd,
                 "the progress bookkeeping does not follow the rounds (counter not refreshed after a round that made progress / flag not set exactly where an element is "
                 "resolved): a round is taken for 'no progress' although it resolved something, or the other way round", loc(pf))
    hdr = [n for n in pg.nodes if n.kind == "stmt" and "self._parse_header(" in unparse(n.ast)]
    comp_n = [n for n in pg.nodes if n.kind in ("stmt", "test") and "self._parse_component(" in unparse(n.ast)]
    if hdr and comp_n and not pg.reaches(comp_n[0].id, hdr[0].id, exc=False):
        ctx.note("the header is parsed before the components: a header that references a component would be stored as None (no bundled dictionary has one)")
