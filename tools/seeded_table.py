#!/venv/bin/python
"""Print the markdown table 'seeded change -> what it breaks / needs -> checks that catch it' from seeded/*/meta.json and seeded/last_run.json."""
import glob, json, os, re
V = "/verif/seeded"
run = json.load(open(os.path.join(V, "last_run.json")))
print("| id | property | change (one line) | needs to manifest | caught by |")
print("|---|---|---|---|---|")
for d in sorted(glob.glob(os.path.join(V, "*/"))):
    sid = os.path.basename(d.rstrip("/"))
    m = json.load(open(os.path.join(d, "meta.json")))
    def one(s, n):
        s = re.sub(r"\s+", " ", str(s)).replace("|", "/")
        return s if len(s) <= n else s[: n - 1] + "…"
    hits = run.get(sid, "?")
    if isinstance(hits, list):
        rules = []
        for h in hits:
            pid, rest = h.split(":", 1)
            for r in rest.split(";"):
                rules.append(r.split("::")[0] if "::" in r else f"{pid}:{r}")
        hits = ", ".join(sorted(set(rules)))
    print(f"| {sid} | {m.get('property','?')} | {one(m.get('summary',''), 170)} | {one(m.get('needs',''), 150)} | {hits} |")
