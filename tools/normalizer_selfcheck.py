#!/venv/bin/python
"""Developer-side validation of the normaliser (sa/normalize*.py) itself - NOT a property check.

For every stored patch (benign refactorings, twins, restructurings, seeded changes) the patched tree is loaded the way the
checks load it, the *normalised* module trees are written back as source, and the library's own test-suite (and, for seeded
changes, their demo) is run on that normalised source:
  * the 192 tests must still pass                      (the normalisation is behaviour-preserving as far as the tests can tell)
  * a seeded demo must still FAIL, a twin's must PASS  (the normalisation neither hides nor invents the defect)

    tools/normalizer_selfcheck.py [--jobs 8] [ids ...]
"""
import argparse, ast, json, os, shutil, subprocess, sys
from concurrent.futures import ThreadPoolExecutor
sys.path.insert(0, "/verif")
V = "/verif"


def sh(cmd, cwd=None, env=None):
    p = subprocess.run(cmd, shell=True, cwd=cwd, capture_output=True, text=True, env={**os.environ, **(env or {})})
    return p.returncode, p.stdout + p.stderr


def one(kind, pid):
    d = os.path.join(V, kind, pid)
    wt = f"/tmp/nsc-{os.getpid()}-{pid}"
    sh(f"git -C /repo worktree remove --force {wt}")
    sh(f"git -C /repo worktree add -q --detach {wt} HEAD")
    try:
        rc, o = sh(f"git apply --whitespace=nowarn {d}/patch.diff", cwd=wt)
        if rc:
            return pid, "PATCH-DOES-NOT-APPLY"
        rc, o = sh(f"/venv/bin/python - <<'PY'\nimport sys, ast, os\nsys.path.insert(0, '/verif')\nfrom sa import core\nr = core.Repo('{wt}')\nn = 0\nfor rel, m in r.modules.items():\n    src = ast.unparse(m.tree) + '\\n'\n    open(os.path.join('{wt}', rel), 'w').write(src)\n    n += 1\nprint('normalised', n, 'modules;', len(r.normalization.lines()), 'steps')\nPY")
        if rc:
            return pid, "NORMALISE-ERROR " + o[-200:]
        steps = o.strip().splitlines()[-1]
        rc, o = sh("/venv/bin/python -m pytest -q -p no:cacheprovider -x 2>&1 | tail -1", cwd=wt)
        tests = o.strip().splitlines()[-1] if o.strip() else "?"
        res = [steps, tests]
        ok = "192 passed" in tests
        demo = None
        if kind == "seeded":
            demo = os.path.join(d, "demo.py")
            want_fail = True
        elif pid.endswith("-twin"):
            demo = os.path.join(V, "seeded", pid[:-5], "demo.py")
            want_fail = False
        dt = os.path.join(d, "difftest.py")
        if kind == "benign" and os.path.exists(dt):
            # the restructuring's own differential test (clean module vs working tree), now against the NORMALISED working tree
            import re as _re
            txt = _re.sub(r"/tmp/wt/rs-\w+", wt, open(dt).read())
            dt2 = f"{wt}/.difftest_{pid}.py"
            open(dt2, "w").write(txt)
            rc, o = sh(f"timeout 1500 /venv/bin/python {dt2}", cwd=wt, env={"PYTHONPATH": "."})
            os.remove(dt2)
            tail_ = " ".join(o.strip().splitlines()[-1:])[:110]
            if rc != 0:
                # is the difftest sensitive to source formatting alone?  Re-run it on the patched tree written back by ast.unparse WITHOUT
                # normalisation: if that differs as well, the result says nothing about the normaliser
                wt2 = wt + "-rt"
                sh(f"git -C /repo worktree remove --force {wt2}")
                sh(f"git -C /repo worktree add -q --detach {wt2} HEAD")
                sh(f"git apply --whitespace=nowarn {d}/patch.diff", cwd=wt2)
                sh(f"/venv/bin/python - <<'PY'\nimport ast, os\nfor dp, dn, fns in os.walk('{wt2}/asyncfix'):\n    for fn in fns:\n        if fn.endswith('.py'):\n            p = os.path.join(dp, fn)\n            open(p, 'w').write(ast.unparse(ast.parse(open(p).read())) + '\\n')\nPY")
                open(f"{wt2}/.dt.py", "w").write(_re.sub(r"/tmp/wt/rs-\w+", wt2, open(dt).read()))
                rc_rt, _o = sh(f"timeout 1500 /venv/bin/python {wt2}/.dt.py", cwd=wt2, env={"PYTHONPATH": "."})
                sh(f"git -C /repo worktree remove --force {wt2}")
                if rc_rt != 0:
                    res.append("difftest inconclusive: it compares source text (fails on a plain ast.unparse round trip of the un-normalised tree too)")
                    rc = 0
            if rc != 0 or "inconclusive" not in res[-1]:
                res.append(f"difftest exit {rc}: {tail_}")
            ok = ok and rc == 0
        if demo and os.path.exists(demo):
            rc, o = sh(f"/venv/bin/python {demo}", cwd=wt, env={"PYTHONPATH": "."})
            res.append(f"demo exit {rc}")
            ok = ok and ((rc != 0) == want_fail)
        return pid, ("ok: " if ok else "FAIL: ") + " | ".join(res)
    finally:
        sh(f"git -C /repo worktree remove --force {wt}")


def main():
    ap = argparse.ArgumentParser()
    ap.add_argument("--jobs", type=int, default=8)
    ap.add_argument("ids", nargs="*")
    a = ap.parse_args()
    jobs = []
    for kind in ("benign", "seeded"):
        for pid in sorted(os.listdir(os.path.join(V, kind))):
            if os.path.isdir(os.path.join(V, kind, pid)) and (not a.ids or pid in a.ids):
                jobs.append((kind, pid))
    bad = 0
    with ThreadPoolExecutor(max_workers=a.jobs) as ex:
        for pid, res in ex.map(lambda j: one(*j), jobs):
            if not res.startswith("ok"):
                bad += 1
            print(f"{pid:20s} {res}", flush=True)
    print(f"{len(jobs)} patches, {bad} not ok")


if __name__ == "__main__":
    main()
