#!/venv/bin/python
"""Developer side: behaviour-preserving refactors written by sub-agents (false-alarm controls).

  tools/benign.py confirm <srcdir> <id>   # patch applies on a scratch worktree of /repo HEAD, suite 192/192 -> store benign/<id>/
  tools/benign.py run [ids]               # apply each to /repo, run every registered quick check, undo; a finding is a FALSE ALARM candidate
"""
import json, os, shutil, subprocess, sys
V = "/verif"
B = os.path.join(V, "benign")


def sh(cmd, cwd=None):
    p = subprocess.run(cmd, shell=True, cwd=cwd, capture_output=True, text=True)
    return p.returncode, p.stdout + p.stderr


def confirm(src, bid):
    wt = f"/tmp/bn-{bid}"
    sh(f"git -C /repo worktree remove --force {wt}")
    rc, o = sh(f"git -C /repo worktree add -q --detach {wt} HEAD")
    try:
        rc, o = sh(f"git apply {src}/patch.diff", cwd=wt)
        if rc:
            print(bid, "PATCH-DOES-NOT-APPLY", o[:200]); return False
        rc, o = sh("/venv/bin/python -m pytest -q -p no:cacheprovider", cwd=wt)
        last = o.strip().splitlines()[-1]
        if rc or "192 passed" not in last:
            print(bid, "SUITE-FAILS", last); return False
        os.makedirs(os.path.join(B, bid), exist_ok=True)
        shutil.copy(f"{src}/patch.diff", os.path.join(B, bid, "patch.diff"))
        m = json.load(open(f"{src}/meta.json"))
        m["confirmed_by_me"] = {"base": sh("git -C /repo rev-parse --short HEAD")[1].strip(), "suite": last}
        json.dump(m, open(os.path.join(B, bid, "meta.json"), "w"), indent=1)
        print(bid, "stored")
        return True
    finally:
        sh(f"git -C /repo worktree remove --force {wt}")


def run(ids):
    man = json.load(open(os.path.join(V, "MANIFEST.json")))
    pids = [c["property_id"] for c in man["checks"]]
    only = [x for x in os.environ.get("ONLY_CHECKS", "").split(",") if x]
    if only:
        pids = [p for p in pids if p in only]  # a focused re-run after a rule change; its result is printed, last_run.json is left alone
    res = {}
    lr = os.path.join(B, "last_run.json")
    if os.path.exists(lr):
        res = json.load(open(lr))
    # a scratch worktree of /repo's HEAD: /repo's own working tree is never touched
    WT = f"/tmp/bn-run-{os.getpid()}"
    sh(f"git -C /repo worktree remove --force {WT}")
    sh(f"git -C /repo worktree add -q --detach {WT} HEAD")
    for bid in ids or sorted(os.listdir(B)):
        d = os.path.join(B, bid)
        if not os.path.isdir(d):
            continue
        rc, o = sh(f"git -C {WT} apply {d}/patch.diff")
        if rc:
            sh(f"git -C {WT} reset -q --hard HEAD")
            res[bid] = "PATCH-DOES-NOT-APPLY"; print(bid, res[bid]); continue
        try:
            hits = []
            procs = {p: subprocess.Popen(f"{V}/check {p} --tier quick --no-evidence --repo {WT}", shell=True, stdout=subprocess.PIPE, stderr=subprocess.STDOUT, text=True) for p in pids}
            for p, pr in procs.items():
                out = pr.communicate()[0]
                if pr.returncode == 1:
                    keys = [l.split("instance", 1)[-1].strip()[:110] for l in out.splitlines() if l.startswith(f"[{p}] rule")]
                    hits.append(f"{p}:VIOLATION " + " ; ".join(keys[:3]))
                elif pr.returncode != 0:
                    err = [l for l in out.splitlines() if "ANALYSIS-ERROR" in l][:1]
                    hits.append(f"{p}:" + (err[0][:160] if err else f"exit {pr.returncode}"))
            res[bid] = hits
            print(bid, hits if hits else "silent")
        finally:
            sh(f"git -C {WT} checkout -- .")
    if not only:
        json.dump(res, open(lr, "w"), indent=1, sort_keys=True)
    sh(f"git -C /repo worktree remove --force {WT}")


if __name__ == "__main__":
    if sys.argv[1] == "confirm":
        confirm(sys.argv[2], sys.argv[3])
    else:
        run(sys.argv[2:])
