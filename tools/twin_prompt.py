#!/venv/bin/python
"""Prompt for a sub-agent that writes the FAITHFUL twin of seeded refactoring-with-a-defect patches (precision controls)."""
import sys
wt, out = sys.argv[1], sys.argv[2]
ids = sys.argv[3:]
print(f"""You are a careful maintainer. You work ONLY inside the scratch git worktree {wt} (a checkout of the asyncio FIX-protocol library alexveden/asyncfix) and write results ONLY under {out}/ . Never read or modify /repo or /verif. There is no network.

How to run things: always with the worktree as current directory:
  cd {wt} && /venv/bin/python -m pytest -q -p no:cacheprovider        (192 tests pass on the clean tree)
A script run by path picks up the INSTALLED asyncfix unless it starts with `import os, sys; sys.path.insert(0, os.getcwd())` (the given demo.py files do).

Under {out}/ there is one directory per case: {', '.join(i + '/' for i in ids)} . Each contains
  seed/patch.diff  - a refactoring of the library that looks like a clean-up but contains ONE subtle behavioural defect
  seed/meta.json   - "summary" explains what the refactoring does and what exactly the defect is; "needs" what triggers it
  seed/demo.py     - exits 0 on the clean tree, non-zero with seed/patch.diff applied

Your task, per case: write the FAITHFUL TWIN of that refactoring - the same clean-up (same new helpers / constants / renames / restructuring, same names, as
close to the seed's diff as possible) but with the defect removed, so that the result is STRICTLY behaviour-preserving relative to the clean tree for every input,
state, exception path and await ordering. Typically you apply seed/patch.diff and then repair only the defective spot the way the original code behaved
(do not 'improve' anything else, do not simply revert the refactoring).
For each case <id> create {out}/<id>/twin/ with
  patch.diff - `git diff` of the twin against the CLEAN worktree
  meta.json  - {{"seed": "<id>", "kind": "faithful twin", "summary": "<what the refactoring does and how the defect was avoided>", "why_equivalent": "<short argument>", "ran": [...]}}
and verify, with the twin applied: the full suite passes (192), and `cd {wt} && /venv/bin/python {out}/<id>/seed/demo.py` exits 0.
Rules: make each patch against the clean tree (`git checkout -- .` between cases; NEVER use `git stash`), leave the worktree clean, never edit tests.
If a seed's refactoring cannot be made behaviour-preserving at all (the defect IS the refactoring), say so in your answer and skip that case.
In your final answer list one line per case: twin written yes/no, suite result, demo exit code.""")
