#!/usr/bin/env python3
"""Developer-side: validate MANIFEST.json and evidence/*.json against the schemas (tooling venv)."""
import json, glob, sys
import jsonschema
ok = True
def chk(path, schema):
    global ok
    try:
        jsonschema.validate(json.load(open(path)), json.load(open(schema)))
        print("valid  ", path)
    except Exception as e:
        ok = False
        print("INVALID", path, str(e)[:300])
chk('/verif/MANIFEST.json', '/root/.vp/MANIFEST.schema.json')
for p in sorted(glob.glob('/verif/evidence/C*.json')):
    chk(p, '/root/.vp/EVIDENCE.schema.json')
sys.exit(0 if ok else 1)
