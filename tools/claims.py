"""Per-property claims registered into MANIFEST.json (see gen_manifest.py)."""

NOTE_COMMON = ("Trusted base: CPython's ast, the idiom lists in /verif/rules, python dict/enum semantics. "
               "Decides the named structural clauses for every path/input at once; it does not decide the "
               "behavioural whole - see the 'Not decided' paragraph of the DESIGN section.")


def register(claim):
    claim("C16", "literal-table folding + exhaustive evaluation of the folded table; resolver shape by def-use and a 3-valued CFG walk",
          "Static, exhaustive over the finite domain: the three transition tables are folded from the AST, the resolver is "
          "shown structurally to be a pure lookup in them, and the folded table is evaluated on all 15x(4+unsupported)x18x15x2 "
          "points against the six lifecycle clauses (totality, absorbing, no way back, created, request permission, enum plumbing).",
          NOTE_COMMON + " Nine cancel-reject cells (acknowledged -> PENDING_NEW) are pinned by existing tests and listed as known findings.",
          "DESIGN.md#c16")
