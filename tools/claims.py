"""Per-property claims registered into MANIFEST.json (see gen_manifest.py)."""

NOTE_COMMON = ("Trusted base: CPython's ast, the idiom lists in /verif/rules, python dict/enum semantics. "
               "Decides the named structural clauses for every path/input at once; it does not decide the "
               "behavioural whole - see the 'Not decided' paragraph of the DESIGN section. Before the rules run, the parsed "
               "sources are normalised (sa/normalize*.py: new helpers inlined, new constants folded, renames recognised, branch "
               "flags threaded - each step behaviour-preserving, listed in the evidence); clauses of sibling properties that are "
               "necessary conditions of this one are evaluated too (sa/shared.py).")


def register(claim):
    claim("C16", "literal-table folding + exhaustive evaluation of the folded table; resolver shape by def-use and a 3-valued CFG walk; "
          "when the function is not 'tables + canonical lookup': partial evaluation of its syntax tree over the whole finite domain (sa/minieval.py)",
          "Static, exhaustive over the finite domain: the three transition tables are folded from the AST, the resolver is "
          "shown structurally to be a pure lookup in them, and the folded table is evaluated on all 15x(4+unsupported)x18x15x2 "
          "points against the six lifecycle clauses (totality, absorbing, no way back, created, request permission, enum plumbing). "
          "A restructured function is folded by the checker's own evaluator for a fixed fragment of Python (nothing of the repository is run); "
          "code outside that fragment is an analysis error.",
          NOTE_COMMON + " Nine cancel-reject cells (acknowledged -> PENDING_NEW) are pinned by existing tests and listed as known findings.",
          "DESIGN.md#c16")

    claim("C08", "SQL text parsing + CFG must-pass-through (commit post-dominates DML), who-may-touch",
          "Static, all paths of every Journaler method: each INSERT/UPDATE/DELETE (classified from the parsed SQL text) is followed by "
          "conn.commit() on every non-raising path, no commit splits one operation, the connection stays in implicit-transaction mode, a "
          "key-violating statement is the first DML of its transaction, a message row is never committed without its counter update, no "
          "durability-lowering PRAGMA exists, and only journaler.py touches sqlite3/.conn/.cursor.",
          NOTE_COMMON + " SQLite's atomic commit and the OS are trusted; byte-for-byte retrievability after a real kill is not decided.",
          "DESIGN.md#c08")
    claim("C13", "SQL text parsing, placeholder/argument role binding, sibling loader cross-check",
          "Static over the journaler's 11 SQL statements: declared keys, session+direction isolation of every statement on message, role "
          "agreement of every '?' with its argument (incl. mirror-image CompIDs and FIXSession constructor order), one counter encoding "
          "across all writers and both loaders, inclusive ascending range query, paired unconditional truncation, duplicate store fails "
          "before the counter moves.",
          NOTE_COMMON + " Equality with a reference map over arbitrary operation sequences is not decided; SQLite semantics trusted.",
          "DESIGN.md#c13")

    claim("C05", "who-may-call + CFG reachability/dominance on send_msg and Codec.encode, def-use of the frame value, writer inventory of next_num_out",
          "Static, all paths: one allocation site and one encoder caller; no state refusal reachable after the allocation; write() and "
          "persist_msg(OUTBOUND) get the same single-definition value from encode and both lie on every completed send; the journal key "
          "scan (SOH 34=) agrees with the encoder's field order; the stored counter is the row's own number; nobody but the allocator and "
          "the journaler writes next_num_out.",
          NOTE_COMMON + " The arithmetic 'exactly one greater than the previous' across the resend rewind is C06/C14's bracket and is a known finding there.",
          "DESIGN.md#c05")
    claim("C09", "symbolic provenance of counter writes vs journaled tag, dominance (journal before wire), call-graph reachability from constructors, E9 reachability of counter advance + journal write per message class",
          "Static: every live counter write has a durable twin of the same provenance (tag 34 of the journaled frame or set_seq_num), "
          "persist_msg dominates the transport write, constructors/connect never write counters and bind the session with matching CompID "
          "roles, both loaders decode stored+1, renumbering commits, every accepted inbound message is journaled from a finally epilogue; for every message class a message at the "
          "expected number on an established session reaches the counter advance and the inbound journal write (E9); after a resend nothing is journaled behind the restore.",
          NOTE_COMMON + " 'Continues without loss after reconnect' for arbitrary histories is C07 territory and not decided. One pinned known finding (SequenceReset stored counter).",
          "DESIGN.md#c09")
    claim("C14", "suspension-point analysis (transitive await summaries) over CFG windows",
          "Static over all schedules: asyncio switches only at await, and every suspension point is enumerated; none lies between number "
          "allocation and journal/transport write, the frame is task-local, the numbering callees are synchronous; the resend rewind "
          "window is checked per suspension site (two known findings: the replay awaits inside the window).",
          NOTE_COMMON + " asyncio's one-task-at-a-time semantics trusted; FIFO wake-up order of drain is not modelled.",
          "DESIGN.md#c14")

    claim("C02", "abstract string building of the encoder (symbolic segments, linear length forms), who-may-call for transport writes, codec classification",
          "Static for every message: the encoder's return value is evaluated over an abstract string domain and shown to be "
          "8=..|9=L|35=..|body|10=c| with L the linear form of exactly the enclosed segment and c = sum(ord) % 256 over exactly the prefix, "
          "zero-padded to three digits; the only transport write is in send_msg, fed by encode through a strict single-byte transcoding; "
          "an encoding error cannot fall through to the write.",
          NOTE_COMMON + " That an independent parser accepts every frame for every value (SendingTime format, SOH inside values) is not decided.",
          "DESIGN.md#c02")

    claim("C18", "def-use of map keys (normalisation), CFG reachability (no raise after mutation), guard extraction around the store, sibling error mapping",
          "Static over all operation sequences: every keyed access to the tag map goes through str(tag) defined before the use; refused "
          "writes raise before any mutation; the store is guarded by the duplicate test or the class-marker test and stores str(value) "
          "without re-inserting; typed lookups map each case to its documented error with a two-sided index check and first-match scan; "
          "the dict-equality ignore set is exactly {8,9,10,35}; nothing reorders the map or the group lists.",
          NOTE_COMMON + " Known finding: container == container goes through a non-injective rendering. Step-by-step agreement with a reference model and pickling are not decided.",
          "DESIGN.md#c18")

    claim("C10", "exception-escape analysis over the decoder's CFG (guard facts, cut-reachability, callee raise sets, group-context typestate), return-path classification, dominance of the checksum test",
          "Static, all byte strings: with silent=True every int()/unpack/index/lookup/raising callee/group-context attribute access in "
          "Codec.decode is dominated by a guard that excludes the raising input or enclosed by a handler; each return path's consumed "
          "length is a sum of frame start, non-negative frame length or buffer length; the message path consumes > 0 and the reader "
          "leaves its decode loop only without progress; the message return is gated by a flag set only on checksum equality; "
          "malformed verdicts never report the whole buffer.",
          NOTE_COMMON + " Known finding (pinned by a test): BodyLength is not compared with the frame, so a sum-preserving corruption is returned. "
          "'No single-byte corruption is ever returned' as arithmetic over all frames is not decided.",
          "DESIGN.md#c10")

    claim("C03", "writer inventory + CFG path queries on the read loop, symbolic classification of the decoder's return paths, folded search literals (def-use to slice bounds)",
          "Static, all partitions: the receive buffer is only appended with the bytes just read and replaced by its suffix at the consumed "
          "length, before any await or re-decode; the decoder sees the whole buffer and is re-invoked until no message; every return taken "
          "because data is missing consumes nothing of the candidate frame (the no-marker path keeps the longest suffix that is a proper "
          "prefix of the marker); the incomplete test measures from the frame start; the frame extent is cut only at SOH-anchored patterns, "
          "so a verdict for a complete frame does not depend on how much of the next one has arrived.",
          NOTE_COMMON + " That the same messages come out for every partition of every stream is the behaviour itself and is not decided; "
          "the rules decide the contracts whose violation makes a partition matter.",
          "DESIGN.md#c03")

    claim("C01", "folded search literals + def-use to slice bounds, reaching definitions of the emitted MsgSeqNum with guard facts, exhaustive check of the folded group table (rows, nesting chains), "
          "block pairing/typestate rules on the group parser, per-iteration path enumeration",
          "Static, all messages: frame extent cut only at SOH-anchored patterns and returned bytes = that slice; '=' split keeps the value; one separator "
          "constant and a total single-byte codec on both sides; exactly one definition reaches 34= (allocation iff not raw, not SequenceReset, not "
          "PossDup; allocator returns the pre-increment value); 49/56 from the session, mirrored by validate_comp_ids; skip set = self-emitted tags; "
          "all 29 group rows duplicate-free, acyclic, chain-disjoint, no framing tag; _addTag recursive in container order; push/pop/item-split blocks "
          "paired and the field stored exactly once on every path of a loop iteration.",
          NOTE_COMMON + " Equality of arbitrary decoded values with the encoded ones is value-level behaviour and not decided; the parser-stack rule is "
          "phrased over this decoder's block structure (a restructured parser needs the rule re-confirmed: reported as ANALYSIS-ERROR where anchors vanish).",
          "DESIGN.md#c01")

    claim("C04", "finite abstract interpretation (E9) of the session dispatcher over (state, role, message class, MsgSeqNum order, integrity) with on-demand refinement; CFG dominance and who-writes rules",
          "Static, per message from every abstract pre-state: on_message is reachable only with the inbound number equal to the expected one and before "
          "any counter write (and is reachable for it); every next_num_in write on the inbound path is MsgSeqNum+1 at the expected number or the NewSeqNo "
          "of a SequenceReset (GapFill only at the expected number); nobody else writes the counter; the only ResendRequest site is dominated by "
          "number > expected and state != RESENDREQ_AWAITING, starts at the expected number and leaves RESENDREQ_AWAITING, which is left only at the "
          "watermark test or on disconnect; accepted messages are journaled.",
          NOTE_COMMON + " Known finding (pinned by a test): a SequenceReset may move the counter backwards. E9 base mode assumes hooks do not disconnect/reset "
          "from inside the callback; arithmetic over multi-message histories (watermark values) is not decided.",
          "DESIGN.md#c04")

    claim("C11", "finite abstract interpretation (E9) of _process_message / send_msg / disconnect over the full (state x role x message class x order x integrity x send kind) product; "
          "suspension-window and dominance rules on disconnect, the read loop and the subclass entry points",
          "Static, exhaustive over the abstract product: in every pre-Logon state an inbound non-Logon message reaches no hook but on_logout/on_disconnect, no "
          "encoder, counter, journal or ACTIVE - only disconnect (a first non-Logon message drops without Logout); send_msg reaches the encoder in no down or "
          "pre-Logon state for anything but Logon/Logout and refuses with FIXConnectionError; each integrity defect is silent to the application, ends "
          "disconnected and sends a Logout exactly when the peer is identifiable; disconnect ends down, closes its guard before the first await and "
          "reports once; the read loop re-tests the state before every decode; client/server entry points agree and never overwrite a live connection.",
          NOTE_COMMON + " E9 base mode (hooks do not disconnect/reset from inside the callback; no other task's disconnect is in flight at dispatch); "
          "bytes already buffered by asyncio's transport and value-level behaviour after the disconnect are not decided.",
          "DESIGN.md#c11")

    claim("C12", "E9 reachability for TestRequest/Heartbeat classes, def-use of the echoed TestReqID, suspension-window and who-writes rules for the outstanding id, "
          "linear-form folding of the timer thresholds (coefficient inequalities, no solver)",
          "Static: every inbound TestRequest at/above the expected number on an established session reaches a Heartbeat send echoing the request's TestReqID; "
          "TestRequests are built only in send_test_req behind a 'none outstanding' guard with no await before the assignment, send_msg refuses foreign ones, "
          "the id is cleared only on a matching Heartbeat or in disconnect; a wrong TestReqID ends in Logout + disconnect; the three thresholds fold to "
          "P-1 / 2P / 2P and satisfy: probe within one interval, cut-offs strictly later and >= one interval, dead-peer cut within 3P; accepted messages "
          "refresh the last-message time.",
          NOTE_COMMON + " The timing half of the property (never disconnects a responsive peer / always disconnects a dead one within ~3 intervals for every "
          "arrival pattern, interval and tick phase) is a timed-trace behaviour depending on wall-clock reads and sleep granularity: NOT decided by this check.",
          "DESIGN.md#c12")

    claim("C06", "CFG with exception edges (must-pass-through of the restoring writes), transitive SQL effects of the handler's journal calls, folded tag sets compared with the encoder's emitted/skipped sets, guard extraction",
          "Static, all journals/requests: every normal and exceptional path from the rewind of next_num_out to an exit passes the restore of the once-saved value, "
          "and RESENDREQ_HANDLING is left on every exit; tags written into a journaled copy replace or are absence-guarded; the deleted tags are exactly the "
          "encoder's own non-skipped ones, 34 kept, 43=Y, OrigSendingTime read from 52 before its deletion; the no-replay set covers all session types and a "
          "copy is re-sent only under the negative membership test and a truthy should_replay.",
          NOTE_COMMON + " Three known findings share one cause (the rewind goes through a journal-truncating renumbering): journaled messages after BeginSeqNo are "
          "deleted, EndSeqNo does not bound the tail gap fill, no range validation before mutation. Contiguity arithmetic of the gap-fill chain over arbitrary "
          "journal content is not decided.",
          "DESIGN.md#c06")

    claim("C15", "guard extraction per rejecting raise (effect-recognised 2x10 check matrix), sibling cross-check of the two validators, raise-set / assert / keyed-lookup escape analysis, "
          "provenance of the required flag, CFG ordering of the dictionary loader",
          "Static over all message shapes: every 'required member missing' rejection is kind-agnostic (fields and groups); the message-level and the group-item-level "
          "validators each have a rejecting branch for every applicable fault class (unknown tag, not allowed here, field<->group confusion both ways, value check, "
          "required missing, recursion, member order, first member, unknown type) and the order bookkeeping is per item and per member; only FIXMessageError "
          "subclasses are raised on message data, no assert or unguarded lookup is keyed by it; the required flag is always a boolean expression; component "
          "resolution retries with fresh containers, registers only complete components, stops on no progress and precedes message parsing.",
          NOTE_COMMON + " That every valid instance of every message type of the bundled dictionaries validates, value by value, is not decided.",
          "DESIGN.md#c15")

    claim("C19", "folding of the datatype dispatch chain and helper keyword options, dominance of lexical guards over accepting returns, regular-language inclusion of each guard "
          "(re._parser AST -> NFA, subset construction) in the FIX lexical space, XML datatype census read as data",
          "Static, all strings: every datatype name used by the bundled dictionaries has a dispatch branch; every accepting path through int()/float()/strptime is "
          "dominated by a regex guard on the same value whose language (folded per numeric type / per format incl. the fractional-second variant) is included in "
          "the catalogued FIX lexical space; per-datatype options (positive SeqNum/NumInGroup, DayOfMonth 1..31, Char 1, Boolean {Y,N}, bounded ASCII-alphanumeric "
          "codes, week codes w1..w5) fold to the required values and are enforced by the helper; enumerated fields accept by membership only; rejections are "
          "FIXMessageError; the EndSeqNo special case only clears for tag 16 value '0'.",
          NOTE_COMMON + " Two known findings pinned by tests: LENGTH is a no-op branch, String rejects '='. Calendar validity beyond strptime (leap seconds) and "
          "the 1..6 fractional digits tolerance are not decided against FIX 4.4's exact .sss.",
          "DESIGN.md#c19")

    claim("C17", "provenance of every status store, finite evaluation of the report handlers' guard facts against the folded C16 transition tables (ClOrdID pair typestate), "
          "def-use of the builders' tags with helper inlining, regex AST analysis of the root pattern, tag<->attribute agreement",
          "Static: every self.status store is an FOrdStatus member/conversion; for every (pending status, ExecType, OrdStatus) cell of the folded tables in which a report "
          "makes a request permitted again, the handler's guards prove orig_clord_id cleared (and clord_id restored first on a reject); builders start with the gate, fail "
          "only by the documented FIXError / idle-pair assert, write each tag once, save the live id before drawing the new one, write 11/41 from new/saved id and end "
          "in their PENDING status; clord_next is the sole id producer (+1, current root); the root regex is anchored at both string ends, greedy, ASCII-digit counter, "
          "DOTALL; the execution-report handler assigns 151/14/6/37 (and 44/38 on REPLACED) on every returning path and admits only reports quoting one of the two ids.",
          NOTE_COMMON + " Equality of status / quantities / price with a simulated exchange after arbitrary races and in-flight reordering is arithmetic over report "
          "values: NOT decided.",
          "DESIGN.md#c17")

    claim("C20", "must-pass-through of schema.validate on every factory's CFG, def-use of the reported quantities against the assertions, who-writes of the id counters, structural agreement of the simulated acceptor with the engine",
          "Static, every path of every factory (11 message factories + reply): the returned message has passed self.schema.validate under `if self.schema` and no tag is "
          "written afterwards; in fix_exec_report_msg CumQty+LeavesQty<=OrderQty and finished=>LeavesQty==0 lie on every path over the very locals written to tags "
          "14/151/38, with the finished set equal to the order's; ExecID is drawn once unconditionally from the sole +1 producer; OrderID is the order's own, else the "
          "remembered, else a new remembered id; the acceptor is an AsyncFIXConnection with mirrored CompIDs and crosswise counters, fed FIFO through _process_message only, "
          "with no session-type branching in the helper.",
          NOTE_COMMON + " That every fabricated message validates for all argument combinations, is processed by the order object without error, and that a session "
          "against the helper is frame-for-frame identical to one against a real acceptor endpoint needs execution: NOT decided.",
          "DESIGN.md#c20")
