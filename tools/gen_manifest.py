#!/venv/bin/python
"""Regenerate /verif/MANIFEST.json from the per-property table below (kept in one place)."""
import json
import os

VERIF = os.path.dirname(os.path.dirname(os.path.abspath(__file__)))

# pid -> (technique, level text, level note, design ref)
CLAIMS = {}

NOT_APPLICABLE = {
    "C07": "product of two endpoint state machines and a lossy channel with a liveness conclusion; "
           "no clause is visible in the shape of one function beyond what C04/C06/C09/C11 already "
           "claim - needs state exploration (a different technique family)",
}

PENDING = "static check for this property is not built yet (build in progress)"


def claim(pid, technique, text, note, ref):
    CLAIMS[pid] = (technique, text, note, ref)


# ---- filled in as checks are armed (see tools/claims.py)
try:
    from claims import register  # type: ignore
    register(claim)
except ImportError:
    pass


def main():
    ids = [json.loads(l)["id"] for l in open(os.path.join(VERIF, "properties.jsonl"))]
    checks = []
    na = []
    for pid in ids:
        if pid in CLAIMS:
            tech, text, note, ref = CLAIMS[pid]
            checks.append({
                "property_id": pid,
                "quick_cmd": f"./check {pid} --tier quick",
                "thorough_cmd": f"./check {pid} --tier thorough",
                "evidence_file": f"/verif/evidence/{pid}.json",
                "replay_cmd_template": f"./check {pid} --replay {{path}}",
                "engine": "sa",
                "level_claimed": {"category": "other", "text": text, "design_ref": ref},
                "level_note": note,
                "technique": tech,
            })
        else:
            na.append({"property_id": pid, "reason": NOT_APPLICABLE.get(pid, PENDING)})
    man = {
        "version": 1,
        "setup_cmd": "/venv/bin/python -c \"import ast, re._parser, sqlite3, json\"",
        "hooks": {
            "guard": "ASYNCFIX_VERIF",
            "enable": "none needed: the checks parse /repo's sources and never run them; no hook commits exist",
            "baseline_off_cmd": "cd /repo && /venv/bin/python -m pytest -ra -q -p no:cacheprovider --timeout=900 --continue-on-collection-errors",
            "source_commits": [],
            "add_only": True,
        },
        "engines": [{
            "name": "sa",
            "path": "/verif/sa",
            "serves_properties": sorted(CLAIMS),
            "kind_free_text": "repository-specific static analysis: ast loader/resolver, statement CFG with "
                              "exception edges, dominance / must-pass-through queries, literal-table folding, "
                              "SQL and regex text analysis, finite abstract interpretation of the session dispatcher",
        }],
        "checks": checks,
        "not_applicable": na,
        "notes": "All checks are static (technique family: static analysis). Exit 0 holds / only known findings, "
                 "1 VIOLATION, 2 ANALYSIS-ERROR. Known findings: /verif/known_findings.json. See DESIGN.md.",
    }
    with open(os.path.join(VERIF, "MANIFEST.json"), "w") as fh:
        json.dump(man, fh, indent=1)
        fh.write("\n")
    print(f"MANIFEST.json: {len(checks)} checks, {len(na)} not_applicable")


if __name__ == "__main__":
    import sys
    sys.path.insert(0, os.path.dirname(os.path.abspath(__file__)))
    main()
