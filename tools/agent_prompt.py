#!/venv/bin/python
"""Print the prompt given to a fresh sub-agent that seeds a breaking change for one property.
The agent gets only the property's text and a scratch worktree - nothing from /verif."""
import json, sys
pid, wt, out, n = sys.argv[1], sys.argv[2], sys.argv[3], int(sys.argv[4]) if len(sys.argv) > 4 else 3
wave2 = len(sys.argv) > 5 and sys.argv[5] == "wave2"
wave3 = len(sys.argv) > 5 and sys.argv[5] == "wave3"
wave4 = len(sys.argv) > 5 and sys.argv[5] == "wave4"
for l in open('/verif/properties.jsonl'):
    p = json.loads(l)
    if p['id'] == pid:
        break
print(f"""You are testing how robust a Python library is against subtle regressions. You work ONLY inside the scratch git worktree {wt} (a checkout of the asyncio FIX-protocol library alexveden/asyncfix) and write results ONLY under {out}/ . Never read or modify /repo or /verif.

How to run things: always with the worktree as current directory, e.g.
  cd {wt} && /venv/bin/python -m pytest -q -p no:cacheprovider        (192 tests pass on the clean tree, ~8 s)
  cd {wt} && /venv/bin/python {out}/m1/demo.py
IMPORTANT: a script run by path picks up the INSTALLED asyncfix (another checkout), not the worktree - every demo.py must start with `import os, sys; sys.path.insert(0, os.getcwd())` so that with the worktree as cwd `import asyncfix` resolves to the worktree copy (pytest run from the worktree already does). There is no network.

The semantic property you attack ({pid}: {p['title']}):
  {p['statement']}
It is meant to hold for: {p['quantifier']['text']}

Your task: produce {n} different, independent source changes to the library (files under {wt}/asyncfix/ only - never edit tests) such that for each one:
 (a) the library still imports and the full existing test suite still passes (all 192 tests, run it);
 (b) the change BREAKS the property above: there is some input / history / schedule / crash point for which the statement becomes false, although it was true for that case on the clean tree;
 (c) it is a realistic change a developer could plausibly make (a refactor gone slightly wrong, an 'optimisation', a dropped guard, a swapped argument, an off-by-one, a changed table entry, reordered statements ...), small (a few lines);
 (d) it needs something SPECIFIC to manifest: a particular interleaving, a crash or fault at a particular point, a multi-step sequence of operations, an unusual input, or two cooperating sites that each look fine alone - NOT something ordinary use would expose at once.
 Make the {n} changes touch different mechanisms / code sites where possible.
""" + ("""
 This is a SECOND round: an earlier round already produced the most obvious regressions (a dropped guard or a flipped comparison inside the
 one function that most directly implements the property). Go for LESS obvious ones this time, for example: a change in a collaborator or helper
 module the property relies on (session.py, journaler.py, message.py, codec.py, errors.py, fixtags.py, msgtype.py, protocol/common.py, protocol/*.py),
 a changed default argument / constant / table entry / enum value / regular expression, a caching or 'performance' shortcut, two cooperating edits
 at different sites that each look harmless alone, an exception handler that swallows or converts too much, an edit that only changes behaviour
 after a particular earlier operation, state left behind across reconnects or across two instances sharing something. Avoid purely cosmetic sites.
""" if wave2 else "") + ("""
 This is a THIRD round. Every change of this round must be DISGUISED AS A REFACTORING: the diff should read like a clean-up a maintainer would wave
 through - extract a few statements into a new private helper method, inline a helper, split a method in two, introduce a module-level constant or a
 local for a repeated expression, cache an attribute in a local, rename something, early-return / if-else restructuring, De Morgan, `a == x or a == y`
 -> `a in (...)`, conditional expression <-> if/else, if/elif chain <-> `match` or dict dispatch, loop <-> comprehension, `for` <-> `while`, reorder
 'independent' statements, move a statement across an `await`, hoist something out of a loop or a try block - but the refactoring is NOT QUITE
 behaviour-preserving: a guard gets lost or weakened on one path in the move, the extracted helper returns early where the original fell through, a value
 is now read before instead of after an await (stale), an exception is now raised outside the try that used to catch it, a condition was 'simplified'
 wrongly for one operand combination, the constant is shared and mutated, the reordering matters for one interleaving, etc. The semantic change must be
 small and hard to spot inside an otherwise faithful refactoring (the diff may be 10-40 lines because of the refactoring itself).
""" if wave3 else "") + ("""
 This is a FOURTH round. Every change of this round must be DISGUISED AS A LARGER RESTRUCTURING (15-60 changed lines) of the kind a maintainer does
 when tidying a long function, using at least one of these idioms: a `try/finally` replaced by a small context-manager class (`with _Scope(self, x):`)
 or the reverse; a loop body moved into a generator helper that the original loop now iterates (`for a, b in self._iter_x(...)`) or `list(helper())`;
 a phase of the function moved into a private helper that returns an Optional / a sentinel / a tuple that the caller unpacks; a boolean flag replaced
 by control flow or by a collected list, or the reverse; several copy-pasted statements replaced by a loop over a constant tuple of (tag, value) rows;
 an if/elif chain replaced by a class-level table; row indexing `row[3]` replaced by tuple unpacking; `x = start; x += n` merged into one expression;
 guard clauses <-> nesting. The restructuring must look faithful and BE faithful everywhere except for ONE small semantic slip that breaks the
 property - e.g. the context manager's exit does not run on one path (returns True / is entered too late), the generator is consumed eagerly or its
 `finally`/tail runs at a different time, the helper's sentinel collides with a legal value, one row of the constant table is wrong or in the wrong order,
 the unpacked tuple has two fields swapped, the flag is now set on one branch too few, a guard clause returns before a required side effect.
""" if wave4 else "") + f"""

For each change k = 1..{n} create the directory {out}/m<k>/ containing:
  patch.diff  - `git diff` of the change against the clean worktree (library sources only)
  demo.py     - a small standalone program (plain python, asyncio allowed, mocks allowed; run as `cd {wt} && /venv/bin/python {out}/m<k>/demo.py`) that exits 0 on the CLEAN tree and exits non-zero (assertion failure) on the tree WITH the change. The clean library has some pre-existing defects; pick a scenario where the clean tree behaves correctly. Verify both outcomes yourself. NEVER use `git stash` (the stash is shared between worktrees and other people work in sibling worktrees): save your change with `git diff > patch.diff`, return to the clean tree with `git checkout -- .`, and re-apply with `git apply patch.diff`.
  meta.json   - {{"property": "{pid}", "summary": "<what was changed>", "needs": "<what specific input/sequence/schedule is needed to manifest>", "files": [...], "ran": ["<commands you ran and their outcome>"]}}

Each patch must be made against the clean tree (reset with `git checkout -- .` between changes) and the worktree must be clean when you finish. In your final answer list, for each change: one line on what it does, and the confirmed outcomes (suite passes with change: yes/no; demo clean: exit code; demo with change: exit code).""")
