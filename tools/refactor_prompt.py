#!/venv/bin/python
"""Print the prompt for a fresh sub-agent that writes BEHAVIOUR-PRESERVING refactors of one source file
(false-alarm controls for the checks: they must stay silent on all of them).  The agent sees nothing from /verif."""
import sys
rel, wt, out, n = sys.argv[1], sys.argv[2], sys.argv[3], int(sys.argv[4]) if len(sys.argv) > 4 else 6
focus = sys.argv[5] if len(sys.argv) > 5 else ""
wave2 = len(sys.argv) > 6 and sys.argv[6] == "wave2"
KINDS1 = f"""Typical kinds (use a different kind for each of the {n}):
  - extract a few statements of a long method into a private helper method (same class) and call it (keep `await`s where they were: an extracted
    coroutine is awaited at the same place, nothing new is awaited in between)
  - inline a tiny private helper at its call sites, or a single-use local variable into its use (or introduce a local for a repeated sub-expression
    with no side effects)
  - turn an `if A: ... else: ...` into an early `return`/`continue` form or back; merge nested `if`s into one `and` condition or split one
  - rewrite a condition into an equivalent one (De Morgan, `not x in y` -> `x not in y`, `a == b or a == c` -> `a in (b, c)` for plain str/int/enum
    operands, swap the operands of `==`)
  - rename a parameter-free private attribute, a private method, or a local/loop variable consistently (all uses in the package)
  - replace a `for` loop that builds a list by a comprehension or the reverse; `dict.get(k)` vs `k in d` + `d[k]` where equivalent
  - reorder two adjacent statements that are provably independent (no shared state, neither can raise before the other's effect matters)
  - replace string building: f-string <-> `+` / `.format`, a literal by a module-level constant with the same value (or the reverse)
  - `try/finally` <-> a context-manager free equivalent is NOT wanted; do not touch exception semantics except for exact equivalents
  - move a method within its class, split a long expression over several locals, add type annotations, tidy imports
"""
KINDS2 = f"""Kinds wanted in THIS round (an earlier round already did: extract a helper, early return, De Morgan, rename a local, literal -> constant, comprehension,
inline a single-use local). Use a different kind for each of the {n}, chosen from:
  - rename a PRIVATE INSTANCE ATTRIBUTE (e.g. self._something) or a private method consistently in the whole package (all reads, writes; the tests must
    still pass unedited - so only rename attributes the tests do not touch; grep the tests first)
  - rename a PARAMETER of a private method (and the keyword at its call sites, if any)
  - INLINE an existing small private helper method into its (few) call sites and delete it
  - turn an if/elif chain that dispatches on a value into a `match` statement or into a dict-of-bound-methods dispatch (or the reverse), keeping order,
    fall-through and default behaviour identical
  - replace `if not A: X else: Y` by `if A: Y else: X`; replace `a if c else b` by an if/else statement or the reverse
  - replace a `while` loop by an equivalent `for` (or the reverse), or a counter loop by `enumerate`/`range`
  - hoist a loop-invariant, side-effect-free expression out of a loop; or cache an attribute chain in a local (`sess = self._session`) when nothing
    rebinds it in between
  - replace `x = x + y` by `x += y` for immutable operands, `d.keys()` iteration by `d` iteration, `len(x) == 0` by `not x` for builtin containers
  - move a block of independent initialisations in `__init__` to a private `_init_xxx()` method called from the same place
  - split one long method into two sequential private methods (first half / second half) called one after the other from the original, passing the
    needed locals as arguments and return values
  - convert a @staticmethod to a module-level function (or the reverse) and update the call sites
"""
print(f"""You are a maintainer tidying up a Python library. You work ONLY inside the scratch git worktree {wt} (a checkout of the asyncio FIX-protocol library alexveden/asyncfix) and write results ONLY under {out}/ . Never read or modify /repo or /verif. There is no network.

How to run things: always with the worktree as current directory:
  cd {wt} && /venv/bin/python -m pytest -q -p no:cacheprovider        (192 tests pass on the clean tree, ~8 s)

Your task: produce {n} different, independent, STRICTLY BEHAVIOUR-PRESERVING refactorings of {wt}/{rel} {('(concentrate on: ' + focus + ')') if focus else ''}.
Each one is the kind of clean-up a maintainer would merge without discussion, and must not change what the code does for ANY input, state,
exception path, await/suspension point ordering, or side-effect order - not even in corner cases. """ + (KINDS2 if wave2 else KINDS1) + f"""Make each refactoring touch real logic (not only comments/docstrings/whitespace), 3-30 changed lines, and touch different methods where possible.
Do not fix bugs, do not change behaviour 'for the better', do not change public names, log texts may stay as they are.

For each k = 1..{n} create {out}/r<k>/ with:
  patch.diff - `git diff` against the clean worktree (library sources only, never tests)
  meta.json  - {{"file": "{rel}", "kind": "<which kind of refactoring>", "summary": "<what was changed>", "why_equivalent": "<short argument that behaviour is identical on every path, incl. exceptions and awaits>", "ran": ["<commands and outcomes>"]}}
Requirements for each: the library imports, the full test suite passes (run it), the patch is made against the CLEAN tree (reset with `git checkout -- .`
between refactorings; NEVER use `git stash`), and the worktree is clean when you finish. Re-read your own diff critically before accepting it: if you
find ANY input or path whose behaviour differs, discard it and make another one. In your final answer list one line per refactoring.""")
