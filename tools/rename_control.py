#!/venv/bin/python
"""Developer-side false-alarm control: behaviour-preserving *renames of function locals*.

For every function of the package and every pure local of it (assigned names, loop variables, handler names -
not parameters, not globals), produce an in-memory variant in which that local is renamed consistently, and run
every rule module on it.  Any new finding (or ANALYSIS-ERROR) is a false alarm of the checker.

    tools/rename_control.py [--props C10,C15] [--files asyncfix/codec.py] [--jobs 16]
"""
import argparse
import ast
import importlib
import json
import os
import sys
from concurrent.futures import ProcessPoolExecutor

sys.path.insert(0, "/verif")
from sa import core  # noqa: E402

ROOT = "/repo"


def locals_of(fn):
    params = {a.arg for a in fn.args.args + fn.args.kwonlyargs}
    if fn.args.vararg:
        params.add(fn.args.vararg.arg)
    if fn.args.kwarg:
        params.add(fn.args.kwarg.arg)
    stores = set()
    glob = set()
    for n in core.walk_no_nested(fn):
        if isinstance(n, ast.Name) and isinstance(n.ctx, (ast.Store, ast.Del)):
            stores.add(n.id)
        if isinstance(n, (ast.Global, ast.Nonlocal)):
            glob |= set(n.names)
        if isinstance(n, ast.ExceptHandler) and n.name:
            stores.add(n.name)
    return sorted(stores - params - glob)


def variants(rel, src):
    tree = ast.parse(src)
    lines = src.split("\n")
    out = []
    for node in ast.walk(tree):
        if not isinstance(node, (ast.FunctionDef, ast.AsyncFunctionDef)):
            continue
        # nested functions / lambdas / comprehensions capture names: skip functions that contain them
        if any(isinstance(x, (ast.Lambda, ast.FunctionDef, ast.AsyncFunctionDef)) and x is not node for x in ast.walk(node)):
            continue
        for name in locals_of(node):
            new = name + "_rn"
            spots = []
            for n in ast.walk(node):
                if isinstance(n, ast.Name) and n.id == name:
                    spots.append((n.lineno, n.col_offset, len(name)))
                if isinstance(n, ast.ExceptHandler) and n.name == name:
                    spots = None
                    break
            if not spots:
                continue
            # names inside f-strings carry unreliable columns before 3.12; on 3.12 they are exact
            ls = list(lines)
            ok = True
            for ln, col, k in sorted(set(spots), reverse=True):
                line = ls[ln - 1]
                b = line.encode("utf-8")
                if b[col:col + k].decode("utf-8", "replace") != name:
                    ok = False
                    break
                ls[ln - 1] = (b[:col] + new.encode() + b[col + k:]).decode("utf-8")
            if not ok:
                continue
            v = "\n".join(ls)
            try:
                compile(v, rel, "exec")
            except SyntaxError:
                continue
            out.append((f"{rel}:{node.name}:{name}", v))
    return out


def run_one(args):
    pids, rel, label, src, base = args
    res = []
    try:
        repo = core.Repo(ROOT, overlay={rel: src})
    except Exception as exc:  # noqa
        return label, [("*", "LOAD-ERROR " + repr(exc))]
    for pid in pids:
        ctx = core.Ctx(pid, repo, "quick", 0)
        ctx.verbose = False
        mod = importlib.import_module(f"rules.{pid.lower()}")
        try:
            mod.run(ctx)
        except core.AnalysisError as exc:
            res.append((pid, "ANALYSIS-ERROR " + str(exc)[:120]))
            continue
        except Exception as exc:  # noqa
            res.append((pid, "CRASH " + repr(exc)[:120]))
            continue
        new = [f.key for f in ctx.findings if f.key not in base.get(pid, ())]
        for k in new[:3]:
            res.append((pid, k))
    return label, res


def main():
    ap = argparse.ArgumentParser()
    ap.add_argument("--props", default="")
    ap.add_argument("--files", default="")
    ap.add_argument("--jobs", type=int, default=16)
    a = ap.parse_args()
    man = json.load(open("/verif/MANIFEST.json"))
    pids = [c["property_id"] for c in man["checks"]]
    if a.props:
        pids = [p for p in pids if p in a.props.split(",")]
    repo = core.Repo(ROOT)
    base = {}
    for pid in pids:
        ctx = core.Ctx(pid, repo, "quick", 0)
        ctx.verbose = False
        importlib.import_module(f"rules.{pid.lower()}").run(ctx)
        base[pid] = {f.key for f in ctx.findings}
    jobs = []
    for rel, mod in sorted(repo.modules.items()):
        if a.files and rel not in a.files.split(","):
            continue
        if rel.endswith(("fixtags.py", "msgtype.py", "errors.py", "__init__.py")):
            continue
        for label, src in variants(rel, mod.src):
            jobs.append((pids, rel, label, src, base))
    print(f"{len(jobs)} rename variants x {len(pids)} rule modules")
    import multiprocessing
    bad = 0
    with ProcessPoolExecutor(max_workers=a.jobs, mp_context=multiprocessing.get_context("spawn")) as ex:
        for label, res in ex.map(run_one, jobs, chunksize=4):
            if res:
                bad += 1
                for pid, k in res:
                    print(f"FALSE-ALARM {label}  {pid}  {k}")
    print(f"variants with a false alarm: {bad} / {len(jobs)}")


if __name__ == "__main__":
    main()
