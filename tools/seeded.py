#!/venv/bin/python
"""Developer-side handling of seeded breaking changes (never part of a check).

  seeded.py confirm <src_dir> <id>   confirm a candidate (patch.diff, demo.py, meta.json) in a scratch
                                     worktree of /repo's HEAD and, if confirmed, store it as /verif/seeded/<id>/
  seeded.py run [<id> ...]           apply each stored patch to /repo, run every registered check, undo, report
"""
import glob
import json
import os
import shutil
import subprocess
import sys

VERIF = "/verif"
REPO = "/repo"
PY = "/venv/bin/python"


def sh(cmd, cwd=None, env=None, timeout=900):
    e = dict(os.environ)
    if env:
        e.update(env)
    p = subprocess.run(cmd, shell=True, cwd=cwd, env=e, capture_output=True, text=True, timeout=timeout)
    return p.returncode, p.stdout + p.stderr


def apply_patch(patch, cwd):
    rc, out = sh(f"git apply --whitespace=nowarn {patch}", cwd)
    if rc != 0:
        rc, out = sh(f"git apply --3way --whitespace=nowarn {patch}", cwd)
        if rc == 0:
            sh("git reset -q", cwd)
        else:
            # a failed 3-way attempt leaves conflict markers / unmerged paths behind
            sh("git reset -q --hard HEAD", cwd)
    return rc, out


def confirm(src, sid):
    wt = f"/tmp/wt/confirm-{sid}"
    sh(f"git -C {REPO} worktree remove --force {wt}")
    rc, out = sh(f"git -C {REPO} worktree add --detach {wt} -q")
    if rc:
        print(out)
        return False
    res = {"id": sid}
    try:
        demo = os.path.join(src, "demo.py")
        rc, out = sh(f"PYTHONPATH=. {PY} {demo}", wt)
        res["demo_clean_rc"] = rc
        if rc != 0:
            res["demo_clean_tail"] = out[-400:]
        rc, out = apply_patch(os.path.join(src, "patch.diff"), wt)
        res["applies"] = rc == 0
        if rc != 0:
            res["apply_err"] = out[-300:]
            print(json.dumps(res, indent=1))
            return False
        rc, out = sh(f"{PY} -m pytest -q -p no:cacheprovider -x 2>&1 | tail -3", wt)
        res["suite"] = out.strip().splitlines()[-1] if out.strip() else ""
        res["suite_ok"] = " passed" in res["suite"] and "failed" not in res["suite"] and res["suite"].startswith("192 ")
        rc, out = sh(f"PYTHONPATH=. {PY} {demo}", wt)
        res["demo_patched_rc"] = rc
        res["demo_patched_tail"] = out[-300:]
        sh("git diff > /tmp/wt/_rebased.diff", wt)
        ok = res["suite_ok"] and res["demo_clean_rc"] == 0 and res["demo_patched_rc"] != 0
        res["confirmed"] = ok
        if ok:
            dst = os.path.join(VERIF, "seeded", sid)
            os.makedirs(dst, exist_ok=True)
            shutil.copy("/tmp/wt/_rebased.diff", os.path.join(dst, "patch.diff"))
            shutil.copy(demo, os.path.join(dst, "demo.py"))
            meta = {}
            mp = os.path.join(src, "meta.json")
            if os.path.exists(mp):
                try:
                    meta = json.load(open(mp))
                except Exception:
                    meta = {"raw": open(mp).read()[:2000]}
            meta["confirmed_by_me"] = {
                "base": sh(f"git -C {REPO} rev-parse --short HEAD")[1].strip(),
                "ran": [f"cd <scratch worktree of /repo HEAD> && PYTHONPATH=. {PY} demo.py  -> exit {res['demo_clean_rc']} (clean)",
                        "git apply patch.diff",
                        f"{PY} -m pytest -q -p no:cacheprovider  -> {res['suite']}",
                        f"PYTHONPATH=. {PY} demo.py  -> exit {res['demo_patched_rc']} (with change)"],
            }
            json.dump(meta, open(os.path.join(dst, "meta.json"), "w"), indent=1)
    finally:
        sh(f"git -C {REPO} worktree remove --force {wt}")
    print(json.dumps({k: v for k, v in res.items() if k != "demo_patched_tail"}, indent=1))
    return res.get("confirmed", False)


def registered():
    man = json.load(open(os.path.join(VERIF, "MANIFEST.json")))
    return [c["property_id"] for c in man["checks"]]


def run(ids):
    """Apply each seeded patch and run every registered check on it.  Default: in a scratch worktree of /repo's HEAD
    (`./check --repo`), /repo itself untouched; with IN_REPO=1: `git -C /repo apply`, run, `git -C /repo checkout -- .`."""
    import subprocess
    ids = ids or sorted(os.path.basename(d) for d in glob.glob(os.path.join(VERIF, "seeded", "*")) if os.path.isdir(d))
    in_repo = os.environ.get("IN_REPO") == "1"
    if in_repo:
        rc, out = sh("git status --porcelain", REPO)
        if out.strip():
            print("refusing: /repo has uncommitted changes")
            return 2
        tree = REPO
    else:
        tree = f"/tmp/seeded-run-{os.getpid()}"
        sh(f"git worktree add -q --detach {tree} HEAD", REPO)
    pids = registered()
    extra = [p for p in os.environ.get("EXTRA_CHECKS", "").split(",") if p]
    pids = pids + [p for p in extra if p not in pids]
    only = [x for x in os.environ.get("ONLY_CHECKS", "").split(",") if x]
    if only:
        pids = [p for p in pids if p in only]  # a focused re-run after a rule change; printed only, last_run.json is left alone
    table = {}
    try:
        for sid in ids:
            d = os.path.join(VERIF, "seeded", sid)
            rc, out = apply_patch(os.path.join(d, "patch.diff"), tree)
            if rc:
                table[sid] = "PATCH-DOES-NOT-APPLY"
                sh("git reset -q --hard HEAD", tree)
                print(f"{sid:14s} {table[sid]}")
                continue
            hits = []
            try:
                procs = {pid: subprocess.Popen(f"./check {pid} --no-evidence" + ("" if in_repo else f" --repo {tree}"), shell=True, cwd=VERIF, text=True,
                                               stdout=subprocess.PIPE, stderr=subprocess.STDOUT, env={**os.environ, "VERIF_QUIET": "1"}) for pid in pids}
                for pid, pr in procs.items():
                    out = pr.communicate()[0]
                    rc = pr.returncode
                    keys = [l.split("rule ")[1].strip() for l in out.splitlines() if l.startswith(f"[{pid}] rule ")]
                    if rc == 1:
                        hits.append(f"{pid}:" + ";".join(k.replace("  instance ", "::") for k in keys[:2]))
                    elif rc != 0:
                        hits.append(f"{pid}:ANALYSIS-ERROR")
            finally:
                sh("git checkout -- .", tree)
            table[sid] = hits or "MISSED"
            print(f"{sid:14s} {table[sid]}", flush=True)
    finally:
        if not in_repo:
            sh(f"git worktree remove --force {tree}", REPO)
    if only:
        return 0
    lr = os.path.join(VERIF, "seeded", "last_run.json")
    merged = json.load(open(lr)) if os.path.exists(lr) else {}
    merged.update(table)  # a partial run refreshes its own entries only
    json.dump(merged, open(lr, "w"), indent=1, sort_keys=True)
    return 0


if __name__ == "__main__":
    if sys.argv[1] == "confirm":
        sys.exit(0 if confirm(sys.argv[2], sys.argv[3]) else 1)
    elif sys.argv[1] == "run":
        sys.exit(run(sys.argv[2:]))
