#!/venv/bin/python
"""Record the source digest on which every seeded mutant of every property was confirmed caught
(thorough runs on exactly this tree then turn a missed mutant into ANALYSIS-ERROR)."""
import json, os, sys
sys.path.insert(0, "/verif")
from sa import core
d = core.Repo("/repo").digest()
ids = [json.loads(l)["id"] for l in open("/verif/properties.jsonl")]
json.dump({i: d for i in ids}, open("/verif/mutants/confirmed_digest.json", "w"), indent=1)
print("confirmed digest", d)
