#!/venv/bin/python
"""Mutation sweep: a systematic look for (a) small changes the checks do not see and (b) small behaviour-preserving changes they alarm on.

    tools/sweep.py gen                      -> /verif/sweep/mutants.json   (one entry per single-node mutation of the package source)
    tools/sweep.py run [--jobs N] [ids...]  -> /verif/sweep/results.json   (suite verdict; for test-surviving mutants the verdict of all checks)
    tools/sweep.py table                    -> /verif/sweep/TABLE.md

Nothing here is a registered check: it is a development tool (it *runs the test suite* on scratch copies under /tmp to find the mutants
the tests do not kill; the checks themselves stay static).  Scratch copies are removed at the end.
"""
from __future__ import annotations

import ast
import copy
import json
import os
import shutil
import subprocess
import sys
import time

VERIF = os.path.dirname(os.path.dirname(os.path.abspath(__file__)))
REPO = "/repo"
PY = "/venv/bin/python"
OUT = os.path.join(VERIF, "sweep")
FILES = ["asyncfix/codec.py", "asyncfix/connection.py", "asyncfix/connection_client.py", "asyncfix/connection_server.py",
         "asyncfix/journaler.py", "asyncfix/message.py", "asyncfix/session.py", "asyncfix/fix_tester.py",
         "asyncfix/protocol/common.py", "asyncfix/protocol/order_single.py", "asyncfix/protocol/schema.py",
         "asyncfix/protocol/protocol_fix44.py"]

CMP = {ast.Lt: ast.LtE, ast.LtE: ast.Lt, ast.Gt: ast.GtE, ast.GtE: ast.Gt, ast.Eq: ast.NotEq, ast.NotEq: ast.Eq,
       ast.Is: ast.IsNot, ast.IsNot: ast.Is, ast.In: ast.NotIn, ast.NotIn: ast.In}


def _is_docstring(parent, node):
    return isinstance(parent, ast.Expr) and isinstance(node, ast.Constant) and isinstance(node.value, str)


def _in_log_call(stack):
    for n in stack:
        if isinstance(n, ast.Call) and isinstance(n.func, ast.Attribute) and isinstance(n.func.value, ast.Attribute) \
                and n.func.value.attr in ("log", "_logger", "logger"):
            return True
        if isinstance(n, ast.Call) and isinstance(n.func, ast.Attribute) and isinstance(n.func.value, ast.Name) and n.func.value.id in ("log", "logger", "logging"):
            return True
    return False


def sites(tree):
    """yield (path, op, description) where path addresses a node by child indices and op names the mutation"""
    out = []

    def walk(node, path, stack, fn):
        if isinstance(node, (ast.FunctionDef, ast.AsyncFunctionDef)):
            fn = (fn + "." if fn else "") + node.name
        elif isinstance(node, ast.ClassDef):
            fn = (fn + "." if fn else "") + node.name
        here = stack + [node]
        stmt = next((x for x in reversed(here) if isinstance(x, ast.stmt)), None)
        if isinstance(stmt, (ast.If, ast.While)):
            stxt = ("if " if isinstance(stmt, ast.If) else "while ") + ast.unparse(stmt.test)
        elif isinstance(stmt, (ast.For, ast.AsyncFor)):
            stxt = "for " + ast.unparse(stmt.target) + " in " + ast.unparse(stmt.iter)
        elif isinstance(stmt, (ast.FunctionDef, ast.AsyncFunctionDef, ast.ClassDef, ast.Try, ast.With, ast.AsyncWith)) or stmt is None:
            stxt = type(stmt).__name__
        else:
            stxt = ast.unparse(stmt)
        loc = (getattr(node, "lineno", 0), fn, stxt[:110])
        if not _in_log_call(here):
            if isinstance(node, ast.Compare):
                for i, op in enumerate(node.ops):
                    if type(op) in CMP:
                        out.append((path, f"cmp{i}", loc, f"{type(op).__name__}->{CMP[type(op)].__name__} in `{ast.unparse(node)[:70]}`"))
            if isinstance(node, ast.BoolOp):
                out.append((path, "boolop", loc, f"and<->or in `{ast.unparse(node)[:70]}`"))
            if isinstance(node, ast.UnaryOp) and isinstance(node.op, ast.Not):
                out.append((path, "unnot", loc, f"drop not in `{ast.unparse(node)[:70]}`"))
            if isinstance(node, (ast.If, ast.While)) and not isinstance(node.test, (ast.Compare, ast.BoolOp, ast.UnaryOp, ast.Constant)):
                out.append((path, "negtest", loc, f"negate test `{ast.unparse(node.test)[:70]}`"))
            if isinstance(node, ast.If):
                out.append((path, "iftrue", loc, f"test -> True: `{ast.unparse(node.test)[:70]}`"))
                out.append((path, "iffalse", loc, f"test -> False: `{ast.unparse(node.test)[:70]}`"))
            if isinstance(node, ast.IfExp):
                out.append((path, "ifexp_body", loc, f"always body: `{ast.unparse(node)[:70]}`"))
                out.append((path, "ifexp_else", loc, f"always else: `{ast.unparse(node)[:70]}`"))
            if isinstance(node, ast.Constant) and not (stack and _is_docstring(stack[-1], node)):
                if isinstance(node.value, bool):
                    out.append((path, "boolflip", loc, f"{node.value}->{not node.value}"))
                elif isinstance(node.value, int):
                    out.append((path, "int+1", loc, f"{node.value}->{node.value + 1}"))
                    out.append((path, "int-1", loc, f"{node.value}->{node.value - 1}"))
            if isinstance(node, ast.BinOp) and isinstance(node.op, (ast.Add, ast.Sub)) and not isinstance(node.left, ast.Constant) or \
                    isinstance(node, ast.BinOp) and isinstance(node.op, (ast.Add, ast.Sub)) and not isinstance(getattr(node.left, "value", None), str):
                out.append((path, "addsub", loc, f"+<->- in `{ast.unparse(node)[:70]}`"))
            if isinstance(node, ast.AugAssign) and isinstance(node.op, (ast.Add, ast.Sub)):
                out.append((path, "augaddsub", loc, f"+=<->-= in `{ast.unparse(node)[:70]}`"))
            if isinstance(node, ast.Expr) and isinstance(node.value, (ast.Call, ast.Await)):
                out.append((path, "delstmt", loc, f"delete `{ast.unparse(node)[:70]}`"))
            if isinstance(node, (ast.Assign, ast.AugAssign)) or isinstance(node, ast.AnnAssign) and node.value is not None:
                out.append((path, "delstmt", loc, f"delete `{ast.unparse(node)[:70]}`"))
            if isinstance(node, ast.Raise):
                out.append((path, "delstmt", loc, f"delete `{ast.unparse(node)[:70]}`"))
            if isinstance(node, ast.Return) and node.value is not None and not (isinstance(node.value, ast.Constant) and node.value.value is None):
                out.append((path, "retnone", loc, f"return None instead of `{ast.unparse(node.value)[:60]}`"))
            if isinstance(node, ast.Break):
                out.append((path, "brk2cont", loc, "break->continue"))
            if isinstance(node, ast.Continue):
                out.append((path, "cont2brk", loc, "continue->break"))
        for field, val in ast.iter_fields(node):
            if isinstance(val, list):
                for i, ch in enumerate(val):
                    if isinstance(ch, ast.AST):
                        walk(ch, path + [(field, i)], here, fn)
            elif isinstance(val, ast.AST):
                walk(val, path + [(field, None)], here, fn)

    walk(tree, [], [], "")
    return out


def node_at(tree, path):
    parent, slot, node = None, None, tree
    for field, i in path:
        parent, slot = node, (field, i)
        v = getattr(node, field)
        node = v[i] if i is not None else v
    return parent, slot, node


def put(parent, slot, new):
    field, i = slot
    if i is None:
        setattr(parent, field, new)
    else:
        getattr(parent, field)[i] = new


def mutate(tree, path, op):
    tree = copy.deepcopy(tree)
    parent, slot, node = node_at(tree, [tuple(p) for p in path])
    if op.startswith("cmp"):
        i = int(op[3:])
        node.ops[i] = CMP[type(node.ops[i])]()
    elif op == "boolop":
        node.op = ast.Or() if isinstance(node.op, ast.And) else ast.And()
    elif op == "unnot":
        put(parent, slot, node.operand)
    elif op == "negtest":
        node.test = ast.UnaryOp(op=ast.Not(), operand=node.test)
    elif op == "iftrue":
        node.test = ast.Constant(True)
    elif op == "iffalse":
        node.test = ast.Constant(False)
    elif op == "ifexp_body":
        put(parent, slot, node.body)
    elif op == "ifexp_else":
        put(parent, slot, node.orelse)
    elif op == "boolflip":
        node.value = not node.value
    elif op == "int+1":
        node.value = node.value + 1
    elif op == "int-1":
        node.value = node.value - 1
    elif op == "addsub":
        node.op = ast.Sub() if isinstance(node.op, ast.Add) else ast.Add()
    elif op == "augaddsub":
        node.op = ast.Sub() if isinstance(node.op, ast.Add) else ast.Add()
    elif op == "delstmt":
        put(parent, slot, ast.Pass())
    elif op == "retnone":
        node.value = ast.Constant(None)
    elif op == "brk2cont":
        put(parent, slot, ast.Continue())
    elif op == "cont2brk":
        put(parent, slot, ast.Break())
    else:
        raise ValueError(op)
    ast.fix_missing_locations(tree)
    return ast.unparse(tree) + "\n"


def gen():
    os.makedirs(OUT, exist_ok=True)
    muts = []
    for f in FILES:
        src = open(os.path.join(REPO, f)).read()
        tree = ast.parse(src)
        for path, op, (line, fn, stxt), desc in sites(tree):
            muts.append({"id": f"S{len(muts):05d}", "file": f, "path": path, "op": op, "line": line, "fn": fn, "desc": desc, "stmt": stxt})
    head = subprocess.run(f"git -C {REPO} rev-parse HEAD", shell=True, capture_output=True, text=True).stdout.strip()
    json.dump({"head": head, "mutants": muts}, open(os.path.join(OUT, "mutants.json"), "w"), indent=0)
    print(len(muts), "mutants")
    from collections import Counter
    print(Counter(m["file"] for m in muts))
    print(Counter(m["op"].rstrip("0123456789") for m in muts))


def worker(args):
    wid, batch = args
    sys.path.insert(0, VERIF)
    wd = f"/tmp/sweep-w{wid}"
    shutil.rmtree(wd, ignore_errors=True)
    shutil.copytree(REPO, wd, ignore=shutil.ignore_patterns(".git", "__pycache__", "docs", "examples", "*.egg-info"))
    res = {}
    import importlib.machinery
    import importlib.util
    loader = importlib.machinery.SourceFileLoader("chk", os.path.join(VERIF, "check"))
    chk = importlib.util.module_from_spec(importlib.util.spec_from_loader("chk", loader))
    loader.exec_module(chk)
    from sa import core
    pids = [c["property_id"] for c in json.load(open(os.path.join(VERIF, "MANIFEST.json")))["checks"]]
    known = {(k["property"], k["key"]) for k in core.load_known().get("findings", [])}
    trees = {}
    for m in batch:
        f = m["file"]
        orig = open(os.path.join(REPO, f)).read()
        if f not in trees:
            trees[f] = ast.parse(orig)
        r = {"suite": None, "checks": None}
        try:
            new = mutate(trees[f], m["path"], m["op"]) if m["op"] != "identity" else ast.unparse(trees[f]) + "\n"
            compile(new, f, "exec")
        except Exception as exc:  # noqa: BLE001
            r["suite"] = f"invalid: {exc}"
            res[m["id"]] = r
            continue
        open(os.path.join(wd, f), "w").write(new)
        try:
            if m.get("_skip_suite"):
                line = "1 passed"
            else:
                try:
                    p = subprocess.run(f"{PY} -m pytest -q -p no:cacheprovider -x 2>&1 | tail -1", shell=True, cwd=wd, capture_output=True, text=True, timeout=180)
                    line = p.stdout.strip().splitlines()[-1] if p.stdout.strip() else ""
                except subprocess.TimeoutExpired:
                    line = "timeout"
            r["suite"] = "pass" if (" passed" in line and "failed" not in line and "error" not in line) else ("timeout" if line == "timeout" else "killed")
            if r["suite"] == "pass":
                hits = []
                for pid in pids:
                    try:
                        repo = core.Repo(wd)
                        ctx, err = chk.run_rules(pid, repo, "quick", 0, quiet=True)
                    except core.AnalysisError as exc:
                        ctx, err = None, str(exc)
                    if err is not None:
                        hits.append(f"{pid}:ANALYSIS-ERROR {str(err).splitlines()[0][:100]}")
                    else:
                        v = [fd.key for fd in ctx.findings if (pid, fd.key) not in known]
                        if v:
                            hits.append(f"{pid}:" + ";".join(v[:2]))
                r["checks"] = hits
        finally:
            open(os.path.join(wd, f), "w").write(orig)
        res[m["id"]] = r
        print(m["id"], m["file"], m["line"], m["op"], r["suite"], r["checks"] if r["checks"] is not None else "", flush=True)
    shutil.rmtree(wd, ignore_errors=True)
    return res


def run(argv):
    import multiprocessing as mp
    jobs = 14
    if argv and argv[0] == "--jobs":
        jobs = int(argv[1])
        argv = argv[2:]
    data = json.load(open(os.path.join(OUT, "mutants.json")))
    muts = data["mutants"]
    rp = os.path.join(OUT, "results.json")
    results = json.load(open(rp)) if os.path.exists(rp) else {}
    if argv and argv[0] == "--recheck-silent":
        # only the survivors no check reported (after rules were added)
        todo = [m for m in muts if results.get(m["id"], {}).get("suite") == "pass" and not results[m["id"]].get("checks")]
        for m in todo:
            m["_skip_suite"] = True
    elif argv and argv[0] == "--recheck":
        # re-run only the checks' verdict for the mutants that survive the suite (after the rules changed)
        todo = [m for m in muts if results.get(m["id"], {}).get("suite") == "pass" and (len(argv) == 1 or m["id"] in argv[1:])]
    elif argv:
        todo = [m for m in muts if m["id"] in argv]
    else:
        todo = [m for m in muts if m["id"] not in results]
    todo = [{"id": "S-IDENT-" + f.replace("/", "_"), "file": f, "path": [], "op": "identity", "line": 0, "fn": "", "desc": "unparse only"} for f in FILES
            if "S-IDENT-" + f.replace("/", "_") not in results] + todo if not argv else todo
    for m in todo:
        m.setdefault("_skip_suite", False)
    print(len(todo), "to do with", jobs, "jobs")
    batches = [(i, todo[i::jobs]) for i in range(jobs)]
    t0 = time.time()
    with mp.get_context("spawn").Pool(jobs) as pool:
        for part in pool.imap_unordered(worker, batches):
            results.update(part)
            json.dump(results, open(rp, "w"), indent=0, sort_keys=True)
    print("done in", round(time.time() - t0), "s")


def table():
    data = json.load(open(os.path.join(OUT, "mutants.json")))
    results = json.load(open(os.path.join(OUT, "results.json")))
    tri = {}
    tp = os.path.join(OUT, "triage.json")
    if os.path.exists(tp):
        tri = json.load(open(tp))
    from collections import Counter
    import re
    c = Counter()
    rows = []

    def auto(m):
        if re.search(r"delete `(self\.)?(log|logging|_logger)\.", m["desc"]):
            return "log call"
        if m["op"] == "retnone" and m["desc"].endswith("`False`"):
            return "equivalent: falsy either way"
        if m["op"] == "delstmt" and re.fullmatch(r"delete `[A-Z_0-9]+ = '.*'`", m["desc"]) and m["file"].endswith("common.py"):
            return "enum member nothing in the package refers to"
        if m["op"] in ("int+1", "int-1") and m["stmt"].startswith("def ") is False and m["fn"].endswith("__init__") and "heartbeat" in m.get("stmt", ""):
            return "default heartbeat period"
        return ""
    for m in data["mutants"]:
        r = results.get(m["id"])
        if not r:
            c["not run"] += 1
            continue
        if r["suite"] != "pass":
            c[r["suite"].split(":")[0]] += 1
            continue
        hits = r["checks"] or []
        viol = [h for h in hits if "ANALYSIS-ERROR" not in h]
        ae = [h for h in hits if "ANALYSIS-ERROR" in h]
        verdict = "VIOLATION" if viol else ("ANALYSIS-ERROR" if ae else "silent")
        c["survive/" + verdict] += 1
        rows.append((m, verdict, viol or ae))
    with open(os.path.join(OUT, "TABLE.md"), "w") as fh:
        fh.write("# Mutation sweep: mutants the test suite does not kill, and what the checks say\n\n")
        fh.write("counts: " + ", ".join(f"{k}={v}" for k, v in sorted(c.items())) + "\n\n")
        fh.write("| id | where | mutation | checks | triage |\n|---|---|---|---|---|\n")
        for m, verdict, hits in rows:
            if tri.get(m["id"], "").startswith("MISS -> fixed") and verdict == "silent":
                verdict = "silent when the sweep ran; VIOLATION with the rule added since (`tools/sweep.py try`)"
            hs = "; ".join(h[:90] for h in hits[:3]).replace("|", "\\|")
            fh.write(f"| {m['id']} | {m['file'].replace('asyncfix/', '')}:{m['line']} {m['fn']} | {(m['desc'] + (' @ `' + m.get('stmt', '') + '`' if m['op'] in ('boolflip', 'int+1', 'int-1') else '')).replace('|', chr(92) + '|')} | {verdict}{': ' + hs if hs else ''} | {tri.get(m['id'], '') or auto(m)} |\n")
    print(dict(c))


def try_(ids, pids):
    """materialise each mutant in a scratch copy and run the given checks (all if none given) - no test suite"""
    data = {m["id"]: m for m in json.load(open(os.path.join(OUT, "mutants.json")))["mutants"]}
    wd = f"/tmp/sweep-try-{os.getpid()}"
    shutil.copytree(REPO, wd, ignore=shutil.ignore_patterns(".git", "__pycache__", "docs", "examples", "*.egg-info"))
    pids = pids or [c["property_id"] for c in json.load(open(os.path.join(VERIF, "MANIFEST.json")))["checks"]]
    try:
        for mid in ids:
            m = data[mid]
            orig = open(os.path.join(REPO, m["file"])).read()
            open(os.path.join(wd, m["file"]), "w").write(mutate(ast.parse(orig), m["path"], m["op"]))
            outs = []
            for pid in pids:
                p = subprocess.run(f"./check {pid} --no-evidence --repo {wd}", shell=True, cwd=VERIF, capture_output=True, text=True, env={**os.environ, "VERIF_QUIET": "1"})
                if p.returncode:
                    lines = [l for l in p.stdout.splitlines() if l.startswith(("VIOLATION", "ANALYSIS-ERROR")) or "FAIL" in l]
                    outs.append(f"{pid} rc={p.returncode} " + " | ".join(x[:160] for x in lines[:3]))
            print(mid, m["file"], m["line"], m["op"], m["desc"], "@", m.get("stmt", ""), "->", outs or "silent", flush=True)
            open(os.path.join(wd, m["file"]), "w").write(orig)
    finally:
        shutil.rmtree(wd, ignore_errors=True)


if __name__ == "__main__":
    cmd = sys.argv[1]
    if cmd == "fromlog":
        # rebuild results.json from the per-mutant lines of a run's log (the pool hands results back only when a worker's whole batch is done)
        import re
        rp = os.path.join(OUT, "results.json")
        results = json.load(open(rp)) if os.path.exists(rp) else {}
        for line in open(sys.argv[2]):
            m = re.match(r"(S[\w.-]+) (\S+) (\d+) (\S+) (pass|killed|timeout|invalid\S*) ?(.*)$", line.rstrip("\n"))
            if not m:
                continue
            checks = None
            if m.group(5) == "pass":
                import ast as _a
                try:
                    checks = _a.literal_eval(m.group(6)) if m.group(6) else []
                except Exception:  # noqa: BLE001
                    checks = [m.group(6)]
            results[m.group(1)] = {"suite": m.group(5), "checks": checks}
        json.dump(results, open(rp, "w"), indent=0, sort_keys=True)
        print(len(results), "results")
        sys.exit(0)
    if cmd == "try":
        ids = [a for a in sys.argv[2:] if a.startswith("S")]
        try_(ids, [a for a in sys.argv[2:] if a.startswith("C")])
        sys.exit(0)
    if cmd == "gen":
        gen()
    elif cmd == "run":
        run(sys.argv[2:])
    elif cmd == "table":
        table()
