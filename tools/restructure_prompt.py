#!/venv/bin/python
"""Prompt for a sub-agent that writes medium-size, behaviour-preserving RESTRUCTURINGS of one function (precision controls, round 3)."""
import sys
rel, func, wt, out, n = sys.argv[1], sys.argv[2], sys.argv[3], sys.argv[4], int(sys.argv[5]) if len(sys.argv) > 5 else 4
print(f"""You are an experienced maintainer. You work ONLY inside the scratch git worktree {wt} (a checkout of the asyncio FIX-protocol library alexveden/asyncfix) and write results ONLY under {out}/ . Never read or modify /repo or /verif. There is no network.

How to run things: always with the worktree as current directory:
  cd {wt} && /venv/bin/python -m pytest -q -p no:cacheprovider        (192 tests pass on the clean tree)
A script run by path picks up the INSTALLED asyncfix unless it starts with `import os, sys; sys.path.insert(0, os.getcwd())`.

Your task: produce {n} different, independent, STRICTLY BEHAVIOUR-PRESERVING **restructurings** of `{func}` in {wt}/{rel} - not cosmetic edits but the kind of
re-organisation a maintainer does when a function has grown too long or too nested, 15-60 changed lines each, for example:
  - decompose the function into 2-4 private helpers along its phases (parse / check / act), passing locals as arguments and results back (tuples allowed);
  - replace nested if/else by guard clauses with early return/continue (or the reverse), merge duplicated branches, hoist common tails;
  - replace a boolean flag variable by control flow (or control flow by a flag), replace a sentinel value by an Optional, a pair of locals by a small tuple;
  - turn a chain of `if x == A ... elif x == B ...` into a dispatch table / `match` / polymorphic helper methods (only where equality semantics are provably
    the same for every value that can occur, including plain `str` values where enums with custom __eq__ are involved);
  - re-express a loop (index loop <-> iterator with enumerate, while-with-counter <-> for-range, accumulate-and-break <-> helper-with-return,
    two passes <-> one pass) without changing the order of side effects;
  - move validation to the top (only if it cannot change which exception wins or which side effects happened before it), or factor a repeated
    expression / message construction into a helper;
  - replace try/finally by an equivalent arrangement of handlers (or the reverse) ONLY if every exit path, including CancelledError/BaseException,
    behaves identically.
Each restructuring must not change what the code does for ANY input, state, exception path (which exception, raised where, after which side effects),
await/suspension point ordering, or side-effect order. Keep public names and signatures. Do not fix bugs or 'improve' behaviour.
Because such restructurings are error-prone, for EACH one write a differential test `{out}/r<k>/difftest.py` that loads the clean version of the module
(from `git show HEAD:{rel}`) side by side with the working-tree version and compares results, exception types/messages and relevant state over a broad
set of inputs/histories (hundreds to thousands of cases, including malformed inputs and corner cases); it must print the number of cases and exit 0 only if
there is no difference. Run it; if it finds a difference, fix or discard the restructuring.

For each k = 1..{n} create {out}/r<k>/ with:
  patch.diff  - `git diff` against the clean worktree (library sources only, never tests)
  difftest.py - as described
  meta.json   - {{"file": "{rel}", "kind": "restructuring: <which>", "summary": "<what was changed>", "why_equivalent": "<argument, incl. exceptions and awaits>", "ran": ["<commands and outcomes, incl. the difftest case count>"]}}
Requirements for each: the library imports, the full test suite passes (run it), the patch is made against the CLEAN tree (reset with `git checkout -- .`
between restructurings; NEVER use `git stash`), and the worktree is clean when you finish. In your final answer list one line per restructuring.""")
