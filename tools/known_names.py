#!/venv/bin/python
"""Write sa/known_names.json: the functions (with statement fingerprints) and module/class-level names of the tree on
which the rules were confirmed.  sa/normalize.py treats every *other* function / constant as new (inlined / folded /
recognised as a rename).  Re-run after every commit to /repo that is reflected in the rules."""
import ast, json, os, sys
sys.path.insert(0, "/verif")
from sa import normalize

class M:  # minimal module view (no normalisation while snapshotting)
    def __init__(self, src): self.tree = ast.parse(src)

# from the committed tree (HEAD), never from a working tree that may carry a seeded patch
import subprocess
mods = {}
for rel in subprocess.run(["git", "-C", "/repo", "ls-tree", "-r", "--name-only", "HEAD", "asyncfix"], capture_output=True, text=True, check=True).stdout.split():
    if rel.endswith(".py"):
        mods[rel] = M(subprocess.run(["git", "-C", "/repo", "show", f"HEAD:{rel}"], capture_output=True, text=True, check=True).stdout)
snap = normalize.snapshot(mods)
json.dump(snap, open(normalize.KNOWN, "w"), indent=0, sort_keys=True)
snap["commit"] = subprocess.run(["git", "-C", "/repo", "rev-parse", "--short", "HEAD"], capture_output=True, text=True).stdout.strip()
json.dump(snap, open(normalize.KNOWN, "w"), indent=0, sort_keys=True)
print("known:", sum(len(v) for v in snap["functions"].values()), "functions,", sum(len(v) for v in snap["constants"].values()), "names;", os.path.getsize(normalize.KNOWN), "bytes")
