#!/venv/bin/python
"""Write sa/known_names.json: the functions (with statement fingerprints) and module/class-level names of the tree on
which the rules were confirmed.  sa/normalize.py treats every *other* function / constant as new (inlined / folded /
recognised as a rename).  Re-run after every commit to /repo that is reflected in the rules."""
import ast, json, os, sys
sys.path.insert(0, "/verif")
from sa import normalize

class M:  # minimal module view (no normalisation while snapshotting)
    def __init__(self, src): self.tree = ast.parse(src)

mods = {}
for dp, dn, fns in os.walk("/repo/asyncfix"):
    dn[:] = sorted(d for d in dn if d != "__pycache__")
    for fn in sorted(fns):
        if fn.endswith(".py"):
            full = os.path.join(dp, fn)
            mods[os.path.relpath(full, "/repo")] = M(open(full, encoding="utf-8").read())
snap = normalize.snapshot(mods)
json.dump(snap, open(normalize.KNOWN, "w"), indent=0, sort_keys=True)
print("known:", sum(len(v) for v in snap["functions"].values()), "functions,", sum(len(v) for v in snap["constants"].values()), "names;", os.path.getsize(normalize.KNOWN), "bytes")
