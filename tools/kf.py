#!/venv/bin/python
"""Maintain /verif/known_findings.json (developer-side; checks only read it).
  kf.py add <pid> <key> <what>
  kf.py fixed <pid> <commit> <key> <what>
"""
import json, sys
P = '/verif/known_findings.json'
d = json.load(open(P))
if sys.argv[1] == 'add':
    _, _, pid, key, what = sys.argv
    d['findings'] = [f for f in d['findings'] if not (f['property'] == pid and f['key'] == key)]
    d['findings'].append({'property': pid, 'key': key, 'what': what, 'since': 'a3b78a7'})
elif sys.argv[1] == 'fixed':
    _, _, pid, commit, key, what = sys.argv
    d['fixed'] = [f for f in d['fixed'] if not (f['property'] == pid and f['key'] == key)]
    d['fixed'].append({'property': pid, 'commit': commit, 'key': key, 'what': what,
                       'line': f'fixed: property={pid} {commit} {what}'})
d['findings'].sort(key=lambda f: (f['property'], f['key']))
json.dump(d, open(P, 'w'), indent=1); open(P, 'a').write('\n')
