"""E9: finite abstract interpreter for the session dispatcher in ``asyncfix/connection.py``.

No repository code is executed.  The interpreter walks the *AST* of the connection class
(and ``FIXSession.set_next_num_in``) over a finite abstract domain:

  state   ConnectionState member           (dynamic: _state_set / direct stores)
  role    UNKNOWN | INITIATOR | ACCEPTOR   (dynamic)
  kind    class of the inbound message: LOGON LOGOUT SEQRESET_GF SEQRESET_RS RESENDREQ TESTREQ HEARTBEAT APP
  ord     inbound MsgSeqNum relative to next_num_in at entry: LT EQ GT ABSENT
  integ   ok | bad_begin | miss_comp | wrong_comp
  treq    a TestRequest of ours is outstanding (dynamic)
  active  _connection_was_active (dynamic)
  hbt     TestReqID of an inbound Heartbeat: absent | match | mismatch
  has36   NewSeqNo present in the inbound message
  nin     what next_num_in holds relative to entry: SAME | MSGSEQ | ACCEPT (MsgSeqNum+1) | NEWSEQ | ONE | OTHER
  writer  transport writer present (dynamic)

Every field starts as '?' (any value) and is *refined on demand*: a branch condition that
depends on a '?' field forks the configuration into the field's values.  A field still '?' at
an event means the event is reachable for every value of that field.  Conditions outside the
vocabulary are non-deterministic (both branches), so reachability is over-approximated.
"""
from __future__ import annotations

import ast
from collections import namedtuple

from .core import AnalysisError, unparse, walk_no_nested
from .fold import Folder
from .resolve import HOOKS, Resolver

CONN = "AsyncFIXConnection"
KINDS = ("LOGON", "LOGOUT", "SEQRESET_GF", "SEQRESET_RS", "RESENDREQ", "TESTREQ", "HEARTBEAT", "APP")
KIND_FMSG = {"LOGON": "LOGON", "LOGOUT": "LOGOUT", "SEQRESET_GF": "SEQUENCERESET", "SEQRESET_RS": "SEQUENCERESET",
             "RESENDREQ": "RESENDREQUEST", "TESTREQ": "TESTREQUEST", "HEARTBEAT": "HEARTBEAT", "APP": "*APP*"}
FMSG_KINDS = {"LOGON": ("LOGON",), "LOGOUT": ("LOGOUT",), "SEQUENCERESET": ("SEQRESET_GF", "SEQRESET_RS"),
              "RESENDREQUEST": ("RESENDREQ",), "TESTREQUEST": ("TESTREQ",), "HEARTBEAT": ("HEARTBEAT",)}
ROLES = ("UNKNOWN", "INITIATOR", "ACCEPTOR")
ORDS = ("LT", "EQ", "GT", "ABSENT")
INTEG = ("ok", "bad_begin", "miss_comp", "wrong_comp")

FIELDS = ("state", "role", "kind", "ord", "integ", "treq", "active", "hbt", "has36", "nin", "writer", "state0", "role0", "okind", "disc")
S = namedtuple("S", FIELDS)

UNK = "U"


class Event:
    __slots__ = ("site", "s", "info", "trail", "node")

    def __init__(self, site, s, info, trail, node):
        self.site, self.s, self.info, self.trail, self.node = site, s, info, trail, node

    def __repr__(self):
        return f"<{self.site} {self.info} {fmt(self.s)}>"


def fmt(s: S) -> str:
    return " ".join(f"{f}={getattr(s, f)}" for f in ("state0", "role0", "kind", "ord", "integ") if True) + \
        f" | now: state={s.state} role={s.role} nin={s.nin} treq={s.treq}"


class Limit(Exception):
    pass


class Interp:
    def __init__(self, repo, hooks_reenter=False, max_steps=4_000_000, sink_raises=True):
        self.repo = repo
        self.res = Resolver(repo)
        self.fo = Folder(repo)
        self.states = self.fo.enum_members("ConnectionState")  # name -> int
        if len(self.states) < 15:
            raise AnalysisError("ConnectionState did not fold to its members")
        self.events: list[Event] = []
        self._ev_seen = set()
        self.hooks_reenter = hooks_reenter
        self.sink_raises = sink_raises
        self.steps = 0
        self.max_steps = max_steps
        self.depth = 0
        self.stack: list[str] = []
        self.unknown_conds: dict[str, int] = {}
        self.domains = {
            "state": tuple(self.states), "role": ROLES, "kind": KINDS, "ord": ORDS, "integ": INTEG,
            "treq": (True, False), "active": (True, False), "hbt": ("absent", "match", "mismatch"),
            "has36": (True, False), "writer": (True, False), "okind": KINDS, "disc": (True, False),
        }

    # ------------------------------------------------------------------ configuration
    def initial(self, **fixed) -> S:
        d = {f: "?" for f in FIELDS}
        d["nin"] = "SAME"
        d["disc"] = False  # base mode: no disconnect() of another task is in flight when a message is dispatched
        d.update(fixed)
        if d["state"] != "?" and d["state0"] == "?":
            d["state0"] = d["state"]
        if d["role"] != "?" and d["role0"] == "?":
            d["role0"] = d["role"]
        return S(**d)

    def split(self, s: S, field):
        """Refine a '?' field into its values."""
        v = getattr(s, field)
        if v != "?":
            return [s]
        out = []
        for x in self.domains[field]:
            kw = {field: x}
            if field == "state" and s.state0 == "?":
                kw["state0"] = x
            if field == "role" and s.role0 == "?":
                kw["role0"] = x
            out.append(s._replace(**kw))
        return out

    def event(self, site, s, info, trail, node):
        key = (site, s, info, getattr(node, "lineno", 0))
        if key in self._ev_seen:
            return
        self._ev_seen.add(key)
        self.events.append(Event(site, s, info, tuple(trail[-14:]), node))

    # ------------------------------------------------------------------ running
    def run(self, qual, s: S, args=None):
        """Interpret repo function ``qual`` from configuration s. Returns [(outcome, S, value)]."""
        fn = self.repo.func(qual)
        env = {}
        params = [a.arg for a in fn.args.args]
        args = args or {}
        for p in params:
            env[p] = args.get(p, UNK)
        defaults = fn.args.defaults
        for p, d in zip(params[len(params) - len(defaults):], defaults):
            if p not in args:
                env[p] = self.const(d)
        return self.call_body(qual, fn, s, env, [f"enter {qual}"])

    def call_body(self, qual, fn, s, env, trail):
        self.depth += 1
        if self.depth > 12:
            self.depth -= 1
            return [("return", s, UNK, trail)]
        self.stack.append(qual)
        if not getattr(fn, "_e9_scanned", False):
            # a decision taken by looking the connection state / role up in a table: the branches are data, not control flow
            for x in ast.walk(fn):
                key = None
                if isinstance(x, ast.Subscript) and isinstance(x.ctx, ast.Load):
                    key = x.slice
                elif isinstance(x, ast.Call) and isinstance(x.func, ast.Attribute) and x.func.attr == "get" and x.args:
                    key = x.args[0]
                if isinstance(x, ast.Call) and isinstance(x.func, ast.Name) and x.func.id == "getattr" and len(x.args) >= 2 \
                        and not (isinstance(x.args[1], ast.Constant) and isinstance(x.args[1].value, str)):
                    self.stack.pop()
                    self.depth -= 1
                    raise AnalysisError(f"E9: {qual} picks a method / attribute by a name computed at run time (`{unparse(x)[:50]}`): which handler runs for which "
                                        "message is not visible to the session model")
                if key is not None and unparse(key) in ("self._connection_state", "self._connection_role"):
                    self.stack.pop()
                    self.depth -= 1
                    raise AnalysisError(f"E9: {qual} looks `{unparse(key)}` up in a table (`{unparse(x)[:50]}`): a data-driven decision on the connection state is "
                                        "not visible to the session model")
            fn._e9_scanned = True
        try:
            outs = self.block(fn.body, s, env, trail, qual)
        finally:
            self.depth -= 1
            self.stack.pop()
        res = []
        seen = set()
        for kind, s2, env2, val, tr in outs:
            if kind in ("normal",):
                kind, val = "return", None
            if kind in ("break", "continue"):
                continue
            key = (kind, s2, val if not isinstance(val, (list, dict)) else None)
            if key in seen:
                continue
            seen.add(key)
            res.append((kind, s2, val, tr))
        return res

    def const(self, node):
        if isinstance(node, ast.Constant):
            v = node.value
            if v is None or v is True or v is False:
                return v
            if isinstance(v, str):
                return "S" if v else "E"
            if isinstance(v, (int, float)):
                return ("int", "pos" if v > 0 else "zero" if v == 0 else "neg")
        return UNK

    # ------------------------------------------------------------------ statements
    def block(self, stmts, s, env, trail, qual):
        """-> list of (outcome, S, env, value, trail); outcome normal|return|raise|break|continue"""
        configs = [(s, env, trail)]
        results = []
        for st in stmts:
            nxt = []
            seen = set()
            for (s1, env1, tr1) in configs:
                for out in self.stmt(st, s1, env1, tr1, qual):
                    kind = out[0]
                    if kind == "normal":
                        key = (out[1], tuple(sorted((k, self._hv(v)) for k, v in out[2].items())))
                        if key in seen:
                            continue
                        seen.add(key)
                        nxt.append((out[1], out[2], out[4]))
                    else:
                        results.append(out)
            configs = nxt
            if not configs:
                break
        for (s1, env1, tr1) in configs:
            results.append(("normal", s1, env1, None, tr1))
        return results

    @staticmethod
    def _hv(v):
        return v if not isinstance(v, (list, dict, set)) else repr(v)

    def tick(self):
        self.steps += 1
        if self.steps > self.max_steps:
            raise Limit(f"abstract interpretation exceeded {self.max_steps} steps")

    def stmt(self, st, s, env, trail, qual):
        self.tick()
        if isinstance(st, ast.Expr):
            if isinstance(st.value, ast.Constant):
                return [("normal", s, env, None, trail)]
            return [(k, s2, env, None, tr) if k == "normal" else (k, s2, env, v, tr) for k, s2, v, tr in self.effect(st.value, s, env, trail, qual)]
        if isinstance(st, ast.Assign) or isinstance(st, ast.AnnAssign):
            tgt = st.targets[0] if isinstance(st, ast.Assign) else st.target
            if st.value is None:
                return [("normal", s, env, None, trail)]
            if isinstance(tgt, ast.Name) and isinstance(st.value, (ast.Compare, ast.BoolOp)) or \
                    (isinstance(tgt, ast.Name) and isinstance(st.value, ast.UnaryOp) and isinstance(st.value.op, ast.Not)):
                if not any(isinstance(x, (ast.Await, ast.Call)) and not (isinstance(x, ast.Call) and isinstance(x.func, ast.Attribute) and x.func.attr in ("get",))
                           and not (isinstance(x, ast.Call) and isinstance(x.func, ast.Name) and x.func.id in ("int", "str", "isinstance", "len")) for x in ast.walk(st.value)):
                    # a local that records the outcome of a test: the configurations are split exactly as a branch on that test would split
                    # them, and the local is the (known) outcome in each - later tests of the local stay correlated with the state
                    outs = []
                    for truth, s2 in self.cond(st.value, s, env, qual):
                        env2 = dict(env)
                        env2[tgt.id] = truth if truth is not None else UNK
                        outs.append(("normal", s2, env2, None, trail))
                    return outs
            outs = []
            for k, s2, v, tr in self.effect(st.value, s, env, trail, qual):
                if k != "normal":
                    outs.append((k, s2, env, v, tr))
                    continue
                outs += self.assign(tgt, v, s2, env, tr, st, qual)
            return outs
        if isinstance(st, ast.AugAssign):
            t = unparse(st.target)
            if t.endswith("next_num_in"):
                s = s._replace(nin="OTHER")
                self.event("nin_write", s, ("aug", unparse(st.value)), trail, st)
            if isinstance(st.target, ast.Name):
                env = dict(env)
                env[st.target.id] = UNK
            return [("normal", s, env, None, trail)]
        if isinstance(st, ast.Return):
            if st.value is None:
                return [("return", s, env, None, trail)]
            return [("return" if k == "normal" else k, s2, env, v, tr) for k, s2, v, tr in self.effect(st.value, s, env, trail, qual)]
        if isinstance(st, ast.Raise):
            name = "Exception"
            if st.exc is not None:
                e = st.exc.func if isinstance(st.exc, ast.Call) else st.exc
                name = unparse(e).split(".")[-1]
            self.event("raise", s, (qual, name), trail, st)
            return [("raise", s, env, name, trail + [f"L{st.lineno} raise {name}"])]
        if isinstance(st, ast.Assert):
            outs = []
            for truth, s2 in self.cond(st.test, s, env, qual):
                if truth is not False:
                    outs.append(("normal", s2, env, None, trail))
                if truth is not True:
                    outs.append(("raise", s2, env, "AssertionError", trail + [f"L{st.lineno} assert fails: {unparse(st.test)[:60]}"]))
            return outs
        if isinstance(st, ast.If):
            outs = []
            for truth, s2 in self.cond(st.test, s, env, qual):
                txt = unparse(st.test)[:70]
                if truth is not False:
                    outs += self.block(st.body, s2, env, trail + [f"L{st.lineno} if {txt}: true"], qual)
                if truth is not True:
                    if st.orelse:
                        outs += self.block(st.orelse, s2, env, trail + [f"L{st.lineno} if {txt}: false"], qual)
                    else:
                        outs.append(("normal", s2, env, None, trail + [f"L{st.lineno} if {txt}: false"]))
            return outs
        if isinstance(st, ast.Try):
            return self.try_(st, s, env, trail, qual)
        if isinstance(st, (ast.For, ast.AsyncFor)):
            return self.loop(st, s, env, trail, qual)
        if isinstance(st, ast.While):
            return self.loop(st, s, env, trail, qual)
        if isinstance(st, (ast.Pass, ast.Global, ast.Nonlocal, ast.Import, ast.ImportFrom, ast.FunctionDef, ast.AsyncFunctionDef)):
            return [("normal", s, env, None, trail)]
        if isinstance(st, ast.Break):
            return [("break", s, env, None, trail)]
        if isinstance(st, ast.Continue):
            return [("continue", s, env, None, trail)]
        if isinstance(st, ast.Delete):
            return [("normal", s, env, None, trail)]
        if isinstance(st, (ast.With, ast.AsyncWith)):
            if getattr(st, "_opaque_cm", None):
                raise AnalysisError("E9: " + st._opaque_cm)
            return self.block(st.body, s, env, trail, qual)
        raise AnalysisError(f"E9: statement kind {type(st).__name__} at line {st.lineno} of {qual} is not supported")

    def assign(self, tgt, v, s, env, trail, st, qual):
        t = unparse(tgt)
        if isinstance(tgt, ast.Name):
            env = dict(env)
            env[tgt.id] = v
            return [("normal", s, env, None, trail)]
        if isinstance(tgt, ast.Tuple):
            env = dict(env)
            for e in tgt.elts:
                if isinstance(e, ast.Name):
                    env[e.id] = UNK
            return [("normal", s, env, None, trail)]
        if t == "self._connection_state":
            return [("normal", self.set_state(s, v, trail, st, qual), env, None, trail)]
        if t == "self._connection_role":
            if isinstance(v, tuple) and v[0] == "role":
                s = s._replace(role=v[1])
            else:
                s = s._replace(role="?")
            return [("normal", s, env, None, trail)]
        if t == "self._test_req_id":
            s = s._replace(treq=False if v is None else True)
            self.event("treq_write", s, (qual, "clear" if v is None else "set"), trail, st)
            return [("normal", s, env, None, trail)]
        if t == "self._connection_was_active":
            s = s._replace(active=True if v is True else False if v is False else "?")
            return [("normal", s, env, None, trail)]
        if t in ("self._socket_writer",):
            s = s._replace(writer=False if v is None else True)
            return [("normal", s, env, None, trail)]
        if t == "self._is_disconnecting":
            s = s._replace(disc=True if v is True else False if v is False else "?")
            return [("normal", s, env, None, trail)]
        if t.endswith("next_num_in"):
            cls = self.nin_class(v)
            s = s._replace(nin=cls)
            self.event("nin_write", s, (qual, cls), trail, st)
            return [("normal", s, env, None, trail)]
        if t.endswith("next_num_out"):
            self.event("nout_write", s, (qual, self._hv(v)), trail, st)
            return [("normal", s, env, None, trail)]
        # subscript stores into a message (msg[FTag.X] = ...) and other attributes: no abstract effect
        return [("normal", s, env, None, trail)]

    @staticmethod
    def nin_class(v):
        if v == "MSGSEQ+1":
            return "ACCEPT"
        if v in ("NEWSEQ", "NEWSEQ-1+1"):
            return "NEWSEQ"
        if v == "MSGSEQ":
            return "MSGSEQ"
        if v == ("int", "pos"):
            return "ONE"
        return "OTHER"

    def set_state(self, s, v, trail, node, qual=""):
        if isinstance(v, tuple) and v[0] == "state":
            new = v[1]
        else:
            new = "?"
        s2 = s._replace(state=new)
        if s.state0 == "?" and s.state == "?":
            pass
        if new == "ACTIVE":
            pass
        caller = next((q for q in reversed(self.stack) if not q.endswith("._state_set")), qual)
        self.event("state_set", s2, (s.state, new, caller), trail, node)
        return s2

    # ------------------------------------------------------------------ try / loops
    def try_(self, st, s, env, trail, qual):
        body_outs = self.block(st.body, s, env, trail, qual)
        after = []
        for out in body_outs:
            kind, s2, env2, val, tr = out
            if kind == "raise":
                handled = False
                for h in st.handlers:
                    names = []
                    if h.type is None:
                        names = ["BaseException"]
                    elif isinstance(h.type, ast.Tuple):
                        names = [unparse(e).split(".")[-1] for e in h.type.elts]
                    else:
                        names = [unparse(h.type).split(".")[-1]]
                    if self.catches(names, val):
                        handled = True
                        env3 = dict(env2)
                        if h.name:
                            env3[h.name] = UNK
                        after += self.block(h.body, s2, env3, tr + [f"L{h.lineno} except {','.join(names)}"], qual)
                        break
                if not handled:
                    after.append(out)
            elif kind == "normal" and st.orelse:
                after += self.block(st.orelse, s2, env2, tr, qual)
            else:
                after.append(out)
        if not st.finalbody:
            return after
        final = []
        for kind, s2, env2, val, tr in after:
            for fk, s3, env3, fval, ftr in self.block(st.finalbody, s2, env2, tr + [f"L{st.finalbody[0].lineno} finally"], qual):
                if fk == "normal":
                    final.append((kind, s3, env3, val, ftr))
                else:
                    final.append((fk, s3, env3, fval, ftr))
        return final

    @staticmethod
    def catches(names, exc):
        if "BaseException" in names:
            return True
        if exc == "CancelledError":
            return "CancelledError" in names
        if "Exception" in names:
            return True
        return exc in names

    def loop(self, st, s, env, trail, qual):
        """Iterate the body to a fixpoint over (S, env) configurations; the loop may run zero times."""
        seen = set()
        exits = []
        work = [(s, env, trail)]
        is_while = isinstance(st, ast.While)
        rounds = 0
        while work:
            rounds += 1
            if rounds > 4000:
                raise Limit("loop fixpoint did not converge")
            s1, env1, tr1 = work.pop()
            if not is_while and isinstance(st.target, ast.Name):
                env1 = dict(env1)
                env1[st.target.id] = UNK
            key = (s1, tuple(sorted((k, self._hv(v)) for k, v in env1.items())))
            if key in seen:
                continue
            seen.add(key)
            if is_while:
                branches = self.cond(st.test, s1, env1, qual)
            else:
                branches = [(None, s1)]
            for truth, s2 in branches:
                if truth is not True or not is_while:
                    exits.append(("normal", s2, env1, None, tr1))
                if truth is False:
                    continue
                for kind, s3, env3, val, tr3 in self.block(st.body, s2, env1, tr1 + [f"L{st.lineno} loop body"], qual):
                    if kind in ("normal", "continue"):
                        work.append((s3, env3, tr1))
                    elif kind == "break":
                        exits.append(("normal", s3, env3, None, tr3))
                    else:
                        exits.append((kind, s3, env3, val, tr3))
        out, seen2 = [], set()
        for e in exits:
            key = (e[0], e[1], tuple(sorted((k, self._hv(v)) for k, v in e[2].items())), self._hv(e[3]))
            if key not in seen2:
                seen2.add(key)
                out.append(e)
        return out

    # ------------------------------------------------------------------ values
    def is_inbound(self, v):
        return v == ("msg", "IN")

    def tagname(self, node):
        t = self.fo.tag(node)
        return t

    def value(self, e, s, env):
        """Pure abstract value of an expression (no side effects, no forking)."""
        if isinstance(e, ast.Constant):
            return self.const(e)
        if isinstance(e, ast.Name):
            return env.get(e.id, UNK)
        if isinstance(e, ast.Await):
            return self.value(e.value, s, env)
        t = unparse(e)
        if t == "self._connection_state" or t == "self.connection_state":
            return ("state", s.state)
        if t == "self._connection_role" or t == "self.connection_role":
            return ("role", s.role)
        if t == "self._test_req_id":
            return ("treq", s.treq)
        if t == "self._connection_was_active":
            return s.active if s.active != "?" else UNK
        if t in ("self._socket_writer", "self._socket_reader"):
            return ("writer", s.writer)
        if t == "self._is_disconnecting":
            return s.disc if s.disc != "?" else UNK
        if t in ("self._session.next_num_in", "self.next_num_in"):
            return "NIN"
        if isinstance(e, ast.Attribute) and isinstance(e.value, ast.Name):
            if e.value.id == "ConnectionState" and e.attr in self.states:
                return ("state", e.attr)
            if e.value.id == "ConnectionRole" and e.attr in ROLES:
                return ("role", e.attr)
            if e.value.id == "FMsg":
                return ("fmsg", e.attr)
            if e.attr == "msg_type":
                m = env.get(e.value.id, UNK)
                if m == ("msg", "IN"):
                    return ("kind", s.kind)
                if m == ("msg", "OUT"):
                    return ("kind", s.okind)
                if isinstance(m, tuple) and m[0] == "msg":
                    return ("kind", m[1])
                return UNK
        if isinstance(e, ast.Call):
            f = e.func
            if isinstance(f, ast.Name) and f.id == "int" and e.args:
                a = e.args[0]
                if isinstance(a, ast.Subscript) and isinstance(a.value, ast.Name) and self.is_inbound(env.get(a.value.id)):
                    tg = self.tagname(a.slice)
                    if tg == "34":
                        return "MSGSEQ"
                    if tg == "36":
                        return "NEWSEQ"
                if isinstance(a, ast.Call) and isinstance(a.func, ast.Attribute) and a.func.attr == "get" and a.args \
                        and isinstance(a.func.value, ast.Name) and self.is_inbound(env.get(a.func.value.id)) and self.tagname(a.args[0]) == "112":
                    return "HBTID"
                return UNK
            if isinstance(f, ast.Name) and f.id == "FIXMessage" and e.args:
                v = self.value(e.args[0], s, env)
                if isinstance(v, tuple) and v[0] == "fmsg":
                    ks = FMSG_KINDS.get(v[1], ("APP",))
                    return ("msg", ks[0] if len(ks) == 1 else "SEQRESET_GF")
                return ("msg", "APP")
            if unparse(f) == "time.time":
                return "NOW"
            return UNK
        if isinstance(e, ast.BinOp) and isinstance(e.op, (ast.Add, ast.Sub)) and isinstance(e.right, ast.Constant) and e.right.value == 1:
            l = self.value(e.left, s, env)
            if isinstance(l, str) and l not in (UNK, "S", "E"):
                return l + ("+1" if isinstance(e.op, ast.Add) else "-1")
            return UNK
        if isinstance(e, ast.JoinedStr):
            return "S"
        return UNK

    # ------------------------------------------------------------------ conditions
    def need(self, e, s, env):
        """'?' fields the truth of e depends on."""
        out = set()
        for x in ast.walk(e):
            t = unparse(x) if isinstance(x, (ast.Attribute, ast.Name)) else ""
            if t in ("self._connection_state", "self.connection_state"):
                out.add("state")
            elif t in ("self._connection_role", "self.connection_role"):
                out.add("role")
            elif t == "self._test_req_id":
                out.add("treq")
            elif t == "self._connection_was_active":
                out.add("active")
            elif t in ("self._socket_writer", "self._socket_reader"):
                out.add("writer")
            elif t == "self._is_disconnecting":
                out.add("disc")
            elif isinstance(x, ast.Attribute) and x.attr == "msg_type" and isinstance(x.value, ast.Name):
                m = env.get(x.value.id, UNK)
                if m == ("msg", "IN"):
                    out.add("kind")
                elif m == ("msg", "OUT"):
                    out.add("okind")
            elif isinstance(x, ast.Compare) and len(x.ops) == 1 and isinstance(x.ops[0], (ast.In, ast.NotIn)):
                tg = self.tagname(x.left)
                c = x.comparators[0]
                if tg and isinstance(c, ast.Name) and self.is_inbound(env.get(c.id)):
                    out |= {"34": {"ord"}, "49": {"integ"}, "56": {"integ"}, "36": {"has36"}, "112": {"hbt"}}.get(tg, set())
            elif isinstance(x, ast.Name) and env.get(x.id) in ("MSGSEQ", "MSGSEQ-1", "MSGSEQ+1"):
                out.add("ord")
            elif isinstance(x, ast.Call) and isinstance(x.func, ast.Name) and x.func.id == "int" and x.args and isinstance(x.args[0], ast.Subscript) \
                    and isinstance(x.args[0].value, ast.Name) and self.is_inbound(env.get(x.args[0].value.id)) and self.tagname(x.args[0].slice) == "34":
                out.add("ord")
            elif isinstance(x, ast.Name) and env.get(x.id) == "HBTID":
                out.add("hbt")
            elif isinstance(x, ast.Call) and isinstance(x.func, ast.Attribute) and x.func.attr == "validate_comp_ids":
                out.add("integ")
            elif isinstance(x, ast.Subscript) and isinstance(x.value, ast.Name) and self.is_inbound(env.get(x.value.id)) and self.tagname(x.slice) == "8":
                out.add("integ")
            elif isinstance(x, ast.Call) and isinstance(x.func, ast.Attribute) and x.func.attr == "get" and x.args and self.tagname(x.args[0]) == "123" \
                    and isinstance(x.func.value, ast.Name) and self.is_inbound(env.get(x.func.value.id)):
                out.add("kind")
        return {f for f in out if getattr(s, f) == "?"}

    def cond(self, test, s, env, qual):
        fn = self.repo.functions.get(qual)
        for c in ast.walk(test):
            if isinstance(c, ast.Call) and fn is not None and self.res.resolve(c, fn)[0] == "hook":
                self.event("hook:" + self.res.resolve(c, fn)[1], s, (qual, self.res.resolve(c, fn)[1], ()), [f"L{c.lineno} in condition"], c)
        configs = [s]
        for f in sorted(self.need(test, s, env)):
            configs = [c2 for c in configs for c2 in self.split(c, f)]
        out = []
        for c in configs:
            tv = self.tv(test, c, env)
            if tv is None:
                k = f"{qual}: {unparse(test)[:80]}"
                self.unknown_conds[k] = self.unknown_conds.get(k, 0) + 1
            out.append((tv, c))
        return out

    def tv(self, e, s, env):
        """Three-valued truth of e in a configuration whose needed fields are concrete."""
        if isinstance(e, ast.BoolOp):
            vals = [self.tv(v, s, env) for v in e.values]
            if isinstance(e.op, ast.And):
                if any(v is False for v in vals):
                    return False
                return True if all(v is True for v in vals) else None
            if any(v is True for v in vals):
                return True
            return False if all(v is False for v in vals) else None
        if isinstance(e, ast.UnaryOp) and isinstance(e.op, ast.Not):
            v = self.tv(e.operand, s, env)
            return None if v is None else (not v)
        if isinstance(e, ast.Compare) and len(e.ops) == 1:
            return self.compare(e.left, e.ops[0], e.comparators[0], s, env)
        if isinstance(e, ast.Call):
            f = e.func
            if isinstance(f, ast.Name) and f.id == "isinstance" and len(e.args) == 2 and unparse(e.args[1]) == "str":
                v = self.value(e.args[0], s, env)
                if v in ("S", "E"):
                    return True
                if v is True or v is False or v is None or (isinstance(v, tuple)):
                    return False
                return None
            if isinstance(f, ast.Attribute) and f.attr == "validate_comp_ids":
                if s.integ == "wrong_comp":
                    return False
                if s.integ in ("ok",):
                    return True
                return None
            return None
        v = self.value(e, s, env)
        return self.truthy(v)

    @staticmethod
    def truthy(v):
        if v is True or v == "S":
            return True
        if v is False or v is None or v == "E":
            return False
        if isinstance(v, tuple):
            if v[0] == "int":
                return v[1] != "zero"
            if v[0] in ("treq", "writer"):
                return None if v[1] == "?" else bool(v[1])
            if v[0] == "msg":
                return True
        return None

    def compare(self, l, op, r, s, env):
        # tag presence
        if isinstance(op, (ast.In, ast.NotIn)):
            res = None
            tg = self.tagname(l)
            if tg and isinstance(r, ast.Name) and self.is_inbound(env.get(r.id)):
                if tg == "34":
                    res = s.ord != "ABSENT"
                elif tg in ("49", "56"):
                    res = s.integ != "miss_comp"
                elif tg == "36":
                    res = None if s.has36 == "?" else bool(s.has36)
                elif tg == "112":
                    res = s.hbt != "absent"
            else:
                lv = self.value(l, s, env)
                if isinstance(r, (ast.Set, ast.Tuple, ast.List)) and isinstance(lv, tuple) and lv[0] in ("state", "kind"):
                    members = [self.value(x, s, env) for x in r.elts]
                    if all(isinstance(m, tuple) for m in members):
                        if lv[0] == "state":
                            res = any(m == lv for m in members)
                        else:
                            res = any(m[0] == "fmsg" and KIND_FMSG.get(lv[1]) == m[1] for m in members)
            if res is None:
                return None
            return res if isinstance(op, ast.In) else (not res)
        lv, rv = self.value(l, s, env), self.value(r, s, env)
        # identity with None
        if isinstance(op, (ast.Is, ast.IsNot)):
            if rv is None:
                if isinstance(lv, tuple) and lv[0] in ("treq", "writer"):
                    if lv[1] == "?":
                        return None
                    res = not lv[1]
                elif lv is None:
                    res = True
                elif lv == UNK:
                    return None
                else:
                    res = False
                return res if isinstance(op, ast.Is) else (not res)
            return None
        # BeginString test
        for a, b in ((l, r), (r, l)):
            if isinstance(a, ast.Subscript) and isinstance(a.value, ast.Name) and self.is_inbound(env.get(a.value.id)) and self.tagname(a.slice) == "8" \
                    and "beginstring" in unparse(b):
                res = s.integ != "bad_begin"
                if isinstance(op, ast.Eq):
                    return res
                if isinstance(op, ast.NotEq):
                    return not res
        # GapFillFlag
        for a, b in ((l, r), (r, l)):
            if isinstance(a, ast.Call) and isinstance(a.func, ast.Attribute) and a.func.attr == "get" and a.args and self.tagname(a.args[0]) == "123" \
                    and isinstance(b, ast.Constant) and b.value == "Y" and isinstance(a.func.value, ast.Name) and self.is_inbound(env.get(a.func.value.id)):
                res = s.kind == "SEQRESET_GF"
                return res if isinstance(op, ast.Eq) else (not res) if isinstance(op, ast.NotEq) else None
        if isinstance(lv, tuple) and isinstance(rv, tuple):
            if lv[0] == "state" and rv[0] == "state" and "?" not in (lv[1], rv[1]):
                a, b = self.states[lv[1]], self.states[rv[1]]
                return self.cmp_int(a, op, b)
            if lv[0] == "role" and rv[0] == "role" and "?" not in (lv[1], rv[1]):
                return self.cmp_eq(lv[1] == rv[1], op)
            if {lv[0], rv[0]} == {"kind", "fmsg"}:
                k, f = (lv, rv) if lv[0] == "kind" else (rv, lv)
                if k[1] == "?":
                    return None
                return self.cmp_eq(KIND_FMSG.get(k[1]) == f[1], op)
            if lv[0] == "int" and rv[0] == "int":
                order = {"neg": -1, "zero": 0, "pos": 1}
                if lv[1] == rv[1] == "pos":
                    return None
                return self.cmp_int(order[lv[1]], op, order[rv[1]])
        # sequence number vs expected
        rel = None
        if lv in ("MSGSEQ", "MSGSEQ+1", "MSGSEQ-1") and rv == "NIN":
            rel = self.seq_rel(lv, s)
        elif rv in ("MSGSEQ", "MSGSEQ+1", "MSGSEQ-1") and lv == "NIN":
            rel = {"LT": "GT", "GT": "LT", "EQ": "EQ", None: None}[self.seq_rel(rv, s)]
        if rel is not None:
            return self.cmp_int({"LT": -1, "EQ": 0, "GT": 1}[rel], op, 0)
        # test request id
        if ("HBTID" in (lv, rv)) and any(isinstance(x, tuple) and x[0] == "treq" for x in (lv, rv)):
            if s.hbt == "?":
                return None
            return self.cmp_eq(s.hbt == "match", op)
        if isinstance(lv, tuple) and lv[0] == "int" and isinstance(rv, tuple) and rv[0] == "int":
            return None
        # MSGSEQ <= 0 and friends: unknown
        return None

    @staticmethod
    def seq_rel(v, s):
        if v != "MSGSEQ":
            return None
        if s.nin == "SAME":
            return s.ord if s.ord in ("LT", "EQ", "GT") else None
        if s.nin == "MSGSEQ":
            return "EQ"
        if s.nin == "ACCEPT":
            return "LT"
        return None

    @staticmethod
    def cmp_eq(eq, op):
        if isinstance(op, ast.Eq):
            return eq
        if isinstance(op, ast.NotEq):
            return not eq
        return None

    @staticmethod
    def cmp_int(a, op, b):
        if isinstance(op, ast.Eq):
            return a == b
        if isinstance(op, ast.NotEq):
            return a != b
        if isinstance(op, ast.Lt):
            return a < b
        if isinstance(op, ast.LtE):
            return a <= b
        if isinstance(op, ast.Gt):
            return a > b
        if isinstance(op, ast.GtE):
            return a >= b
        return None

    # ------------------------------------------------------------------ effects (calls)
    def effect(self, e, s, env, trail, qual):
        """Evaluate an expression that may call: -> [(normal|raise, S, value, trail)]"""
        self.tick()
        if isinstance(e, ast.Await):
            return self.effect(e.value, s, env, trail, qual)
        if isinstance(e, ast.IfExp):
            outs = []
            for truth, s2 in self.cond(e.test, s, env, qual):
                if truth is not False:
                    outs += self.effect(e.body, s2, env, trail, qual)
                if truth is not True:
                    outs += self.effect(e.orelse, s2, env, trail, qual)
            return outs
        if not isinstance(e, ast.Call):
            return [("normal", s, self.value(e, s, env), trail)]
        fn = self.repo.functions.get(qual)
        f = e.func
        ftxt = unparse(f)
        # ---- hooks
        kind, name = self.res.resolve(e, fn) if fn is not None else ("ext", ftxt)
        if kind == "hook":
            return self.hook(name, e, s, env, trail, qual)
        # ---- sinks on collaborators
        if ftxt.endswith("_journaler.set_seq_num") or name == "Journaler.set_seq_num":
            for kw in e.keywords:
                if kw.arg == "next_num_in":
                    v = self.value(kw.value, s, env)
                    cls = self.nin_class(v)
                    s = s._replace(nin=cls)
                    self.event("nin_write", s, (qual, cls), trail, e)
                elif kw.arg == "next_num_out":
                    self.event("nout_write", s, (qual, self._hv(self.value(kw.value, s, env))), trail, e)
            return [("normal", s, None, trail)]
        if ftxt.endswith("_journaler.persist_msg") or name == "Journaler.persist_msg":
            d = unparse(e.args[2]).split(".")[-1] if len(e.args) > 2 else "?"
            self.event("persist", s, (qual, d), trail, e)
            return [("normal", s, None, trail)] + ([("raise", s, "DuplicateSeqNoError", trail + [f"L{e.lineno} persist_msg raises"])] if self.sink_raises else [])
        if name == "Codec.encode" or ftxt.endswith("_codec.encode"):
            mv = self.value(e.args[0], s, env) if e.args else UNK
            ok = mv[1] if isinstance(mv, tuple) and mv[0] == "msg" else "?"
            if ok == "OUT":
                ok = s.okind
            if ok == "IN":
                ok = s.kind
            self.event("encode", s, (qual, ok), trail, e)
            return [("normal", s, "S", trail)] + ([("raise", s, "EncodingError", trail + [f"L{e.lineno} encode raises"])] if self.sink_raises else [])
        if ftxt.endswith("_socket_writer.write"):
            self.event("write", s, (qual,), trail, e)
            return [("normal", s, None, trail)]
        if ftxt.endswith("_socket_writer.close"):
            self.event("close", s, (qual,), trail, e)
            return [("normal", s, None, trail)]
        if name == "FIXSession.validate_comp_ids":
            return [("normal", s, UNK, trail)]
        # ---- inlined repo functions
        if kind == "func" and (name.startswith(CONN + ".") or name in ("FIXSession.set_next_num_in",)):
            callee = self.repo.func(name)
            params = [a.arg for a in callee.args.args]
            cenv = {p: UNK for p in params}
            pos = params[1:] if params and params[0] == "self" else params
            for p, a in zip(pos, e.args):
                cenv[p] = self.value(a, s, env)
            for kw in e.keywords:
                if kw.arg in cenv:
                    if isinstance(kw.value, ast.IfExp):
                        # forked below
                        cenv[kw.arg] = ("ifexp", kw.value)
                    else:
                        cenv[kw.arg] = self.value(kw.value, s, env)
            defaults = callee.args.defaults
            given = set(pos[:len(e.args)]) | {kw.arg for kw in e.keywords}
            for p, d in zip(params[len(params) - len(defaults):], defaults):
                if p not in given:
                    cenv[p] = self.const(d)
            # resolve conditional keyword values by forking
            configs = [(s, cenv)]
            for p, v in list(cenv.items()):
                if isinstance(v, tuple) and v and v[0] == "ifexp":
                    nxt = []
                    for s1, ce in configs:
                        for truth, s2 in self.cond(v[1].test, s1, env, qual):
                            if truth is not False:
                                c2 = dict(ce)
                                c2[p] = self.value(v[1].body, s2, env)
                                nxt.append((s2, c2))
                            if truth is not True:
                                c2 = dict(ce)
                                c2[p] = self.value(v[1].orelse, s2, env)
                                nxt.append((s2, c2))
                    configs = nxt
            self.event("call", s, (qual, name), trail, e)
            outs = []
            for s1, ce in configs:
                for k, s2, val, tr in self.call_body(name, callee, s1, ce, trail + [f"L{e.lineno} -> {name.split('.')[-1]}"]):
                    outs.append(("normal" if k == "return" else k, s2, val, tr))
            return outs
        if isinstance(f, ast.Name) and f.id == "FIXMessage":
            v = self.value(e, s, env)
            self.event("construct", s, (qual, v[1] if isinstance(v, tuple) else "?"), trail, e)
            return [("normal", s, v, trail)]
        if isinstance(f, ast.Attribute) and f.attr in ("wait_closed", "drain", "sleep"):
            return [("normal", s, None, trail)]
        return [("normal", s, self.value(e, s, env), trail)]

    def hook(self, name, e, s, env, trail, qual):
        """Application callback: opaque user code - it may raise, and may send (which moves
        NETWORK_CONN_ESTABLISHED to LOGON_INITIAL_SENT).  Re-entrant mode: it may also disconnect."""
        info = (qual, name, tuple(self._hv(self.value(a, s, env)) for a in e.args))
        self.event("hook:" + name, s, info, trail, e)
        tr = trail + [f"L{e.lineno} hook {name}"]
        outs = [("normal", s, UNK, tr), ("raise", s, "Exception", tr + [f"hook {name} raises"])]
        for s1 in self.split(s, "state") if s.state == "?" else [s]:
            if s1.state == "NETWORK_CONN_ESTABLISHED":
                outs.append(("normal", s1._replace(state="LOGON_INITIAL_SENT", role="INITIATOR"), UNK, tr + [f"hook {name} sent a Logon"]))
        if self.hooks_reenter:
            for d in ("DISCONNECTED_BROKEN_CONN", "DISCONNECTED_WCONN_TODAY"):
                outs.append(("normal", s._replace(state=d, nin="OTHER", treq=False), UNK, tr + [f"hook {name} disconnected"]))
        return outs


def inbound(repo, hooks_reenter=False, sink_raises=True, **fixed):
    """Interpret ``_process_message`` for every abstract inbound message and pre-state."""
    it = Interp(repo, hooks_reenter=hooks_reenter, sink_raises=sink_raises)
    s0 = it.initial(**fixed)
    outs = it.run(CONN + "._process_message", s0, {"msg": ("msg", "IN"), "raw_msg": UNK, "self": UNK})
    return it, outs


def outbound(repo, **fixed):
    """Interpret ``send_msg`` for every abstract outbound message kind and pre-state."""
    it = Interp(repo)
    s0 = it.initial(**fixed)
    outs = it.run(CONN + ".send_msg", s0, {"msg": ("msg", "OUT"), "self": UNK})
    return it, outs
