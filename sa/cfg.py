"""E2/E4: statement-level control-flow graph for one function, plus path queries.

Nodes are simple statements, branch tests, loop headers, ``with`` headers and
exception-handler entries.  ``finally`` bodies are duplicated per continuation kind.
Exception edges (label 'exc') are coarse: any node that contains a call, subscript,
await, assert or raise may transfer to every handler of the innermost enclosing ``try``
and - unless a handler is a catch-all - further out.
"""
from __future__ import annotations

import ast

from .core import AnalysisError, short, walk_no_nested

CATCH_ALL = {"Exception", "BaseException"}


class Node:
    __slots__ = ("id", "kind", "ast", "copy")

    def __init__(self, id, kind, node, copy=0):
        self.id, self.kind, self.ast, self.copy = id, kind, node, copy

    @property
    def line(self):
        return getattr(self.ast, "lineno", 0)

    def __repr__(self):
        if self.ast is None:
            return f"<{self.kind}>"
        return f"L{self.line}:{self.kind}:{short(self.ast, 50)}"


def may_raise(node) -> bool:
    if isinstance(node, (ast.Assert, ast.Raise)):
        return True
    for n in walk_no_nested(node):
        if isinstance(n, (ast.Call, ast.Subscript, ast.Await)):
            return True
    return False


class _Ctx:
    def __init__(self, exc, brk, cont, ret):
        self.exc = exc  # list of node ids an exception goes to
        self.brk = brk  # list collecting dangling (node, label) of break
        self.cont = cont  # list collecting dangling continue
        self.ret = ret  # list collecting dangling return


class CFG:
    def __init__(self, fn):
        if getattr(fn, "_opaque_cm", None):
            raise AnalysisError(fn._opaque_cm)
        self.fn = fn
        self.nodes: list[Node] = []
        self.succ: dict[int, list] = {}
        self.pred: dict[int, list] = {}
        self.entry = self._new("entry", None)
        self.exit = self._new("exit", None)
        self.raise_exit = self._new("raise", None)
        self._copy = 0
        ret: list = []
        ctx = _Ctx([self.raise_exit], None, None, ret)
        first, ends = self._block(fn.body, ctx)
        self._edge(self.entry, first if first is not None else self.exit, "next")
        if first is not None:
            for n, lab in ends:
                self._edge(n, self.exit, lab)
        for n, lab in ret:
            self._edge(n, self.exit, lab)

    # ------------------------------------------------------------------ building
    def _new(self, kind, node):
        n = Node(len(self.nodes), kind, node, getattr(self, "_copy", 0))
        self.nodes.append(n)
        self.succ[n.id] = []
        self.pred[n.id] = []
        return n.id

    def _edge(self, a, b, label):
        if (b, label) not in self.succ[a]:
            self.succ[a].append((b, label))
            self.pred[b].append((a, label))

    def _exc_edges(self, nid, ctx):
        for d in ctx.exc:
            self._edge(nid, d, "exc")

    def _block(self, stmts, ctx):
        """Returns (first node id | None, dangling [(node, label)])."""
        first = None
        ends: list = []
        started = False
        for st in stmts:
            f, e = self._stmt(st, ctx)
            if f is None:
                continue
            if not started:
                first = f
                started = True
            else:
                for n, lab in ends:
                    self._edge(n, f, lab)
            ends = e
            if not e:
                # following statements are unreachable; still stop here
                break
        return first, ends

    def _stmt(self, st, ctx):
        if isinstance(st, ast.If):
            t = self._new("test", st.test)
            if may_raise(st.test):
                self._exc_edges(t, ctx)
            ends = []
            f, e = self._block(st.body, ctx)
            if f is None:
                ends.append((t, "true"))
            else:
                self._edge(t, f, "true")
                ends += e
            if st.orelse:
                f2, e2 = self._block(st.orelse, ctx)
                if f2 is None:
                    ends.append((t, "false"))
                else:
                    self._edge(t, f2, "false")
                    ends += e2
            else:
                ends.append((t, "false"))
            return t, ends
        if isinstance(st, ast.While):
            t = self._new("test", st.test)
            if may_raise(st.test):
                self._exc_edges(t, ctx)
            brk: list = []
            cont: list = []
            inner = _Ctx(ctx.exc, brk, cont, ctx.ret)
            f, e = self._block(st.body, inner)
            if f is not None:
                self._edge(t, f, "true")
                for n, lab in e:
                    self._edge(n, t, lab)
            else:
                self._edge(t, t, "true")
            for n, lab in cont:
                self._edge(n, t, lab)
            ends = list(brk)
            const_true = isinstance(st.test, ast.Constant) and bool(st.test.value)
            if not const_true:
                if st.orelse:
                    f2, e2 = self._block(st.orelse, ctx)
                    if f2 is not None:
                        self._edge(t, f2, "false")
                        ends += e2
                    else:
                        ends.append((t, "false"))
                else:
                    ends.append((t, "false"))
            return t, ends
        if isinstance(st, (ast.For, ast.AsyncFor)):
            h = self._new("for", st)
            self._exc_edges(h, ctx)
            brk, cont = [], []
            inner = _Ctx(ctx.exc, brk, cont, ctx.ret)
            f, e = self._block(st.body, inner)
            if f is not None:
                self._edge(h, f, "loop")
                for n, lab in e:
                    self._edge(n, h, lab)
            for n, lab in cont:
                self._edge(n, h, lab)
            ends = list(brk)
            if st.orelse:
                f2, e2 = self._block(st.orelse, ctx)
                if f2 is not None:
                    self._edge(h, f2, "done")
                    ends += e2
                else:
                    ends.append((h, "done"))
            else:
                ends.append((h, "done"))
            return h, ends
        if isinstance(st, (ast.With, ast.AsyncWith)):
            h = self._new("with", st)
            self._exc_edges(h, ctx)
            f, e = self._block(st.body, ctx)
            if f is None:
                return h, [(h, "next")]
            self._edge(h, f, "next")
            return h, e
        if isinstance(st, ast.Try) or st.__class__.__name__ == "TryStar":
            return self._try(st, ctx)
        if isinstance(st, ast.Match):
            raise AnalysisError(f"match statement at line {st.lineno} is not supported by the CFG builder")
        # ---- simple statements
        n = self._new("stmt", st)
        if isinstance(st, ast.Return):
            if st.value is not None and may_raise(st.value):
                self._exc_edges(n, ctx)
            ctx.ret.append((n, "return"))
            return n, []
        if isinstance(st, ast.Raise):
            self._exc_edges(n, ctx)
            return n, []
        if isinstance(st, ast.Break):
            if ctx.brk is None:
                raise AnalysisError("break outside loop")
            ctx.brk.append((n, "break"))
            return n, []
        if isinstance(st, ast.Continue):
            ctx.cont.append((n, "continue"))
            return n, []
        if isinstance(st, (ast.FunctionDef, ast.AsyncFunctionDef, ast.ClassDef)):
            return n, [(n, "next")]
        if may_raise(st):
            self._exc_edges(n, ctx)
        return n, [(n, "next")]

    def _try(self, st, ctx):
        has_finally = bool(st.finalbody)
        self_copy = self._copy

        def finally_copy(dests_kind):
            """Build one copy of the finalbody; returns (first, ends)."""
            self._copy += 1
            f, e = self._block(st.finalbody, ctx)
            return f, e

        # outer destinations for an exception that escapes this try statement
        if has_finally:
            exc_join = self._new("join", None)  # -> finally(exc copy) -> ctx.exc
            outer_exc = [exc_join]
        else:
            exc_join = None
            outer_exc = list(ctx.exc)

        handler_nodes = []
        catch_all = False
        for h in st.handlers:
            hn = self._new("handler", h)
            handler_nodes.append(hn)
            if h.type is None:
                catch_all = True
            else:
                names = [h.type] if not isinstance(h.type, ast.Tuple) else list(h.type.elts)
                for t in names:
                    nm = t.id if isinstance(t, ast.Name) else (t.attr if isinstance(t, ast.Attribute) else None)
                    if nm in CATCH_ALL:
                        catch_all = True
        body_exc = list(handler_nodes) + ([] if catch_all else outer_exc)
        if not handler_nodes:
            body_exc = outer_exc

        if has_finally:
            brk_l, cont_l, ret_l = [], [], []
            inner_brk = brk_l if ctx.brk is not None else None
            inner_cont = cont_l if ctx.cont is not None else None
            body_ctx = _Ctx(body_exc, inner_brk, inner_cont, ret_l)
            rest_ctx = _Ctx(outer_exc, inner_brk, inner_cont, ret_l)
        else:
            body_ctx = _Ctx(body_exc, ctx.brk, ctx.cont, ctx.ret)
            rest_ctx = _Ctx(outer_exc, ctx.brk, ctx.cont, ctx.ret)

        first, ends = self._block(st.body, body_ctx)
        if first is None:
            first = self._new("join", None)
            ends = [(first, "next")]
        if st.orelse:
            f2, e2 = self._block(st.orelse, rest_ctx)
            if f2 is not None:
                for n, lab in ends:
                    self._edge(n, f2, lab)
                ends = e2
        normal_ends = list(ends)
        for hn, h in zip(handler_nodes, st.handlers):
            f3, e3 = self._block(h.body, rest_ctx)
            if f3 is None:
                normal_ends.append((hn, "next"))
            else:
                self._edge(hn, f3, "next")
                normal_ends += e3

        if not has_finally:
            return first, normal_ends

        # ---- finally: one copy per continuation kind that actually occurs
        out_ends = []
        if normal_ends:
            f, e = finally_copy("normal")
            if f is None:
                out_ends = normal_ends
            else:
                for n, lab in normal_ends:
                    self._edge(n, f, lab)
                out_ends = e
        # exception copy
        f, e = finally_copy("exc")
        if f is None:
            for d in ctx.exc:
                self._edge(exc_join, d, "exc")
        else:
            self._edge(exc_join, f, "exc")
            for n, lab in e:
                for d in ctx.exc:
                    # re-raise after the finally body: keep the branch label of the dangling end
                    self._edge(n, d, "exc:" + lab if lab in ("true", "false") else "exc")
        for lst, outer in ((ret_l, ctx.ret), (brk_l, ctx.brk), (cont_l, ctx.cont)):
            if lst:
                f, e = finally_copy("jump")
                if f is None:
                    outer.extend(lst)
                else:
                    for n, lab in lst:
                        self._edge(n, f, lab)
                    kind = lst[0][1]
                    outer.extend((n, kind) for n, _ in e)
        self._copy = self_copy
        return first, out_ends

    # ------------------------------------------------------------------- queries
    def succs(self, nid, exc=True):
        return [(d, lab) for d, lab in self.succ[nid] if exc or not lab.startswith("exc")]

    def preds(self, nid, exc=True):
        return [(s, lab) for s, lab in self.pred[nid] if exc or not lab.startswith("exc")]

    def ids_of(self, astnode):
        """All CFG nodes (finally copies included) whose statement is / contains astnode."""
        out = []
        for n in self.nodes:
            if n.ast is None:
                continue
            if n.ast is astnode:
                out.append(n.id)
                continue
            if n.kind in ("for", "with", "handler"):
                # header nodes stand for the header expressions only
                hdr = []
                if n.kind == "for":
                    hdr = [n.ast.iter, n.ast.target]
                elif n.kind == "with":
                    hdr = [i for it in n.ast.items for i in (it.context_expr, it.optional_vars) if i is not None]
                elif n.kind == "handler":
                    hdr = [n.ast.type] if n.ast.type is not None else []
                for hnode in hdr:
                    if any(x is astnode for x in ast.walk(hnode)):
                        out.append(n.id)
                        break
                continue
            if any(x is astnode for x in walk_no_nested(n.ast)):
                out.append(n.id)
        return out

    def find(self, pred):
        return [n.id for n in self.nodes if n.ast is not None and pred(n)]

    def reach(self, srcs, avoid=(), exc=True, include_src=False):
        """Nodes reachable from srcs (by >=1 edge unless include_src) not passing through avoid."""
        avoid = set(avoid)
        seen = set()
        todo = []
        for s in srcs:
            if include_src and s not in avoid:
                seen.add(s)
            todo.append(s)
        started = set()
        while todo:
            n = todo.pop()
            if n in started:
                continue
            started.add(n)
            for d, lab in self.succs(n, exc):
                if d in avoid:
                    continue
                if d not in seen:
                    seen.add(d)
                todo.append(d)
        return seen

    def reaches(self, src, dst, avoid=(), exc=True):
        return dst in self.reach([src], avoid, exc)

    def must_pass(self, src, via, exits, exc=True):
        """True iff every path from src to any node of exits passes a node of via."""
        r = self.reach([src], avoid=set(via), exc=exc)
        return not (r & set(exits))

    def witness_path(self, src, dsts, avoid=(), exc=True):
        """A shortest path src -> (first of dsts) avoiding nodes, as list of node ids."""
        avoid = set(avoid)
        dsts = set(dsts)
        prev = {src: None}
        todo = [src]
        while todo:
            nxt = []
            for n in todo:
                for d, lab in self.succs(n, exc):
                    if d in avoid or d in prev:
                        continue
                    prev[d] = n
                    if d in dsts:
                        path = [d]
                        while prev[path[-1]] is not None:
                            path.append(prev[path[-1]])
                        return list(reversed(path))
                    nxt.append(d)
            todo = nxt
        return None

    def describe(self, path):
        return [repr(self.nodes[i]) for i in path]

    def dominators(self, exc=True):
        """dom[n] = set of nodes dominating n (iterative)."""
        ids = [n.id for n in self.nodes]
        reach = self.reach([self.entry], exc=exc, include_src=True)
        dom = {i: set(reach) for i in reach}
        dom[self.entry] = {self.entry}
        changed = True
        while changed:
            changed = False
            for i in ids:
                if i == self.entry or i not in reach:
                    continue
                ps = [p for p, _ in self.preds(i, exc) if p in reach]
                if not ps:
                    continue
                new = set.intersection(*(dom[p] for p in ps)) | {i}
                if new != dom[i]:
                    dom[i] = new
                    changed = True
        return dom

    def dominated_by(self, nid, cond_nid, label, exc=True):
        """True iff every path entry -> nid leaves test node cond_nid through edge `label`."""
        # remove the edge cond_nid -label-> x ; if nid still reachable, not dominated
        seen = {self.entry}
        todo = [self.entry]
        while todo:
            n = todo.pop()
            for d, lab in self.succs(n, exc):
                if n == cond_nid and lab == label:
                    continue
                if d not in seen:
                    seen.add(d)
                    todo.append(d)
        return nid not in seen

    def guards(self, nid, exc=False):
        """Branch conditions that dominate nid: list of (test ast, label)."""
        out = []
        if not exc and nid not in self.reach([self.entry], exc=False, include_src=True):
            # code reachable only through an exception edge (handler bodies): without those
            # edges every test would dominate it vacuously
            exc = True
        for n in self.nodes:
            if n.kind != "test":
                continue
            labs = {lab for _, lab in self.succs(n.id, exc)}
            for lab in ("true", "false"):
                if lab in labs and self.dominated_by(nid, n.id, lab, exc):
                    out.append((n.ast, lab))
        return out

    def paths(self, src, dsts, exc=False, limit=5000):
        """Enumerate acyclic paths (each loop edge taken at most once) src -> dsts."""
        dsts = set(dsts)
        out = []
        stack = [(src, [src], frozenset())]
        while stack:
            n, path, used = stack.pop()
            if n in dsts and len(path) > 1 or (n in dsts and src in dsts and len(path) == 1 and False):
                out.append(path)
                if len(out) > limit:
                    raise AnalysisError("path enumeration limit exceeded")
                continue
            for d, lab in self.succs(n, exc):
                e = (n, d, lab)
                if e in used:
                    continue
                stack.append((d, path + [d], used | {e}))
        return out
