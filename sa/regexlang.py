"""E6: regular-language facts.  Regex ASTs (``re._parser``) -> NFA over character atoms,
language inclusion L(A) <= L(B) by on-the-fly subset construction, witness strings.

Only the regex *text* found in the analysed source is parsed; nothing from the repository is
executed.  Supported: literals, classes (ranges, negation, \\d \\w \\s and their complements),
'.', alternation, groups, bounded/unbounded repetition, anchors (ignored: the languages are
compared in fullmatch semantics).  Anything else raises Unsupported.
"""
from __future__ import annotations

import re
import re._constants as C
import re._parser as P


class Unsupported(Exception):
    pass


# representative code points outside ASCII that python's unicode classes accept
NONASCII_DIGIT = 0x0663  # ARABIC-INDIC DIGIT THREE: \d, \w, int() accept it
NONASCII_ALPHA = 0x00E9  # e-acute: \w
NONASCII_SPACE = 0x00A0  # no-break space: \s
OTHER = 0x2603           # snowman: none of the classes
UNIVERSE = list(range(0, 128)) + [NONASCII_DIGIT, NONASCII_ALPHA, NONASCII_SPACE, OTHER]


def _category(cat, ascii_only):
    d = set(range(48, 58))
    w = d | set(range(65, 91)) | set(range(97, 123)) | {95}
    s = {9, 10, 11, 12, 13, 32}
    if not ascii_only:
        d = d | {NONASCII_DIGIT}
        w = w | {NONASCII_DIGIT, NONASCII_ALPHA}
        s = s | {NONASCII_SPACE, 28, 29, 30, 31}
    U = set(UNIVERSE)
    table = {C.CATEGORY_DIGIT: d, C.CATEGORY_NOT_DIGIT: U - d, C.CATEGORY_WORD: w, C.CATEGORY_NOT_WORD: U - w,
             C.CATEGORY_SPACE: s, C.CATEGORY_NOT_SPACE: U - s}
    if cat not in table:
        raise Unsupported(f"category {cat}")
    return table[cat]


def _class(items, ascii_only):
    neg = False
    out = set()
    for op, av in items:
        if op is C.NEGATE:
            neg = True
        elif op is C.LITERAL:
            out.add(av if av < 128 else _rep(av))
        elif op is C.RANGE:
            lo, hi = av
            out |= {c for c in UNIVERSE if lo <= c <= hi}
        elif op is C.CATEGORY:
            out |= _category(av, ascii_only)
        else:
            raise Unsupported(f"class item {op}")
    return (set(UNIVERSE) - out) if neg else out


def _rep(cp):
    return cp if cp in UNIVERSE else OTHER


class NFA:
    def __init__(self):
        self.n = 0
        self.eps = {}
        self.tr = {}

    def new(self):
        self.n += 1
        self.eps[self.n - 1] = set()
        self.tr[self.n - 1] = []
        return self.n - 1

    def closure(self, states):
        todo = list(states)
        seen = set(states)
        while todo:
            s = todo.pop()
            for t in self.eps[s]:
                if t not in seen:
                    seen.add(t)
                    todo.append(t)
        return frozenset(seen)

    def step(self, states, ch):
        out = set()
        for s in states:
            for chars, t in self.tr[s]:
                if ch in chars:
                    out.add(t)
        return self.closure(out)


def _build(nfa, seq, start, ascii_only):
    cur = start
    for op, av in seq:
        nxt = nfa.new()
        if op is C.LITERAL:
            nfa.tr[cur].append((frozenset({_rep(av)}), nxt))
        elif op is C.NOT_LITERAL:
            nfa.tr[cur].append((frozenset(set(UNIVERSE) - {_rep(av)}), nxt))
        elif op is C.ANY:
            nfa.tr[cur].append((frozenset(set(UNIVERSE) - {10}), nxt))
        elif op is C.IN:
            nfa.tr[cur].append((frozenset(_class(av, ascii_only)), nxt))
        elif op is C.BRANCH:
            for alt in av[1]:
                s = nfa.new()
                nfa.eps[cur].add(s)
                e = _build(nfa, alt, s, ascii_only)
                nfa.eps[e].add(nxt)
        elif op is C.SUBPATTERN:
            e = _build(nfa, av[3], cur, ascii_only)
            nfa.eps[e].add(nxt)
        elif op in (C.MAX_REPEAT, C.MIN_REPEAT):
            lo, hi, sub = av
            c = cur
            for _ in range(lo):
                c = _build(nfa, sub, c, ascii_only)
            if hi is C.MAXREPEAT or hi == C.MAXREPEAT:
                loop = nfa.new()
                nfa.eps[c].add(loop)
                e = _build(nfa, sub, loop, ascii_only)
                nfa.eps[e].add(loop)
                nfa.eps[loop].add(nxt)
            else:
                nfa.eps[c].add(nxt)
                for _ in range(hi - lo):
                    c = _build(nfa, sub, c, ascii_only)
                    nfa.eps[c].add(nxt)
        elif op is C.AT:
            nfa.eps[cur].add(nxt)
        elif op is C.CATEGORY:
            nfa.tr[cur].append((frozenset(_category(av, ascii_only)), nxt))
        else:
            raise Unsupported(f"regex construct {op}")
        cur = nxt
    return cur


class Lang:
    """A regular language given by a regex in fullmatch semantics."""

    def __init__(self, pattern: str, ascii_only=False):
        self.pattern = pattern
        try:
            ast_ = P.parse(pattern)
        except re.error as exc:
            raise Unsupported(f"bad regex {pattern!r}: {exc}")
        if ast_.state.flags & re.ASCII:
            ascii_only = True
        self.ascii_only = ascii_only
        self.nfa = NFA()
        self.start = self.nfa.new()
        self.final = _build(self.nfa, list(ast_), self.start, ascii_only)

    def accepts(self, s: str) -> bool:
        cur = self.nfa.closure({self.start})
        for ch in s:
            cur = self.nfa.step(cur, _rep(ord(ch)))
            if not cur:
                return False
        return self.final in cur


def union(*langs):
    return list(langs)


def included(a, b, max_states=200000):
    """Is every string of (the union of) a in (the union of) b?  Returns (True, None) or (False, witness)."""
    A = a if isinstance(a, list) else [a]
    B = b if isinstance(b, list) else [b]
    start = (tuple(x.nfa.closure({x.start}) for x in A), tuple(y.nfa.closure({y.start}) for y in B))
    seen = {start: None}
    todo = [start]
    while todo:
        nxt = []
        for st in todo:
            sa, sb = st
            a_acc = any(x.final in s for x, s in zip(A, sa))
            b_acc = any(y.final in s for y, s in zip(B, sb))
            if a_acc and not b_acc:
                w = []
                cur = st
                while seen[cur] is not None:
                    cur, ch = seen[cur]
                    w.append(ch)
                return False, "".join(chr(c) for c in reversed(w))
            for ch in UNIVERSE:
                na = tuple(x.nfa.step(s, ch) if s else frozenset() for x, s in zip(A, sa))
                if not any(na):
                    continue
                nb = tuple(y.nfa.step(s, ch) if s else frozenset() for y, s in zip(B, sb))
                key = (na, nb)
                if key not in seen:
                    seen[key] = (st, ch)
                    nxt.append(key)
                    if len(seen) > max_states:
                        raise Unsupported("regex inclusion exceeded the state bound")
        todo = nxt
    return True, None


def equivalent(a, b):
    ok, w = included(a, b)
    if not ok:
        return False, w
    return included(b, a)
