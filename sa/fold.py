"""E5: literal-table folder - constant-folds enum bodies and literal tables from the AST."""
from __future__ import annotations

import ast

from .core import AnalysisError, Repo, unparse


class EnumVal:
    """A folded reference ``Cls.NAME`` to an enum member with a literal value."""

    __slots__ = ("cls", "name", "value")

    def __init__(self, cls, name, value):
        self.cls, self.name, self.value = cls, name, value

    def __hash__(self):
        return hash((self.cls, self.name))

    def __eq__(self, o):
        return isinstance(o, EnumVal) and (self.cls, self.name) == (o.cls, o.name)

    def __repr__(self):
        return f"{self.cls}.{self.name}"


class Sym:
    """An expression that does not fold (kept symbolically)."""

    __slots__ = ("text",)

    def __init__(self, text):
        self.text = text

    def __hash__(self):
        return hash(("sym", self.text))

    def __eq__(self, o):
        return isinstance(o, Sym) and o.text == self.text

    def __repr__(self):
        return f"<{self.text}>"


class Folder:
    def __init__(self, repo: Repo):
        self.repo = repo
        self._enums: dict[str, dict] = {}

    def is_enum(self, cls: str) -> bool:
        try:
            return bool(self.enum_members(cls))
        except AnalysisError:
            return False

    def enum_members(self, cls: str) -> dict:
        """Ordered {member name: literal value} read from the class body."""
        if cls in self._enums:
            return self._enums[cls]
        node = self.repo.cls(cls)
        out = {}
        for st in node.body:
            if isinstance(st, ast.Assign) and len(st.targets) == 1 and isinstance(st.targets[0], ast.Name):
                if isinstance(st.value, ast.Constant) and not st.targets[0].id.startswith("_"):
                    out[st.targets[0].id] = st.value.value
        self._enums[cls] = out
        return out

    def class_attr(self, cls: str, name: str):
        """AST of a class-level assignment ``name = <expr>`` (searching bases)."""
        seen = set()
        while cls in self.repo.classes and cls not in seen:
            seen.add(cls)
            for st in self.repo.classes[cls].body:
                tgt = None
                if isinstance(st, ast.Assign) and len(st.targets) == 1:
                    tgt, val = st.targets[0], st.value
                elif isinstance(st, ast.AnnAssign) and st.value is not None:
                    tgt, val = st.target, st.value
                if isinstance(tgt, ast.Name) and tgt.id == name:
                    return val
            nxt = None
            for b in self.repo.classes[cls].bases:
                bn = b.id if isinstance(b, ast.Name) else None
                if bn in self.repo.classes:
                    nxt = bn
                    break
            cls = nxt
        raise AnalysisError(f"class attribute {cls}.{name} not found")

    ENUMS_BY_VALUE = ("FTag", "FMsg", "FOrdStatus", "FExecType", "FOrdSide", "FOrdType")

    def fold(self, node, env: dict | None = None):
        """Fold an expression into a Python value made of literals / EnumVal / Sym."""
        env = env or {}
        if isinstance(node, ast.Constant):
            return node.value
        if isinstance(node, ast.Name):
            if node.id in env:
                return env[node.id]
            if node.id in self.repo.module_assigns and isinstance(
                self.repo.module_assigns[node.id], ast.Constant
            ):
                return self.repo.module_assigns[node.id].value
            return Sym(node.id)
        if isinstance(node, ast.Attribute) and isinstance(node.value, ast.Name):
            cls = node.value.id
            if cls in self.repo.classes:
                mem = self.enum_members(cls)
                if node.attr in mem:
                    return EnumVal(cls, node.attr, mem[node.attr])
            return Sym(unparse(node))
        if isinstance(node, (ast.List, ast.Tuple)):
            vals = [self.fold(e, env) for e in node.elts]
            return vals if isinstance(node, ast.List) else tuple(vals)
        if isinstance(node, ast.Set):
            return frozenset(self.fold(e, env) for e in node.elts)
        if isinstance(node, ast.Dict):
            out = {}
            for k, v in zip(node.keys, node.values):
                if k is None:
                    # `**f()` over a module-level function without arguments that builds its dict from literal rows: folded by the
                    # checker's own evaluator (sa/minieval.py); anything it cannot evaluate stays an analysis error
                    sub = None
                    if isinstance(v, ast.Call) and isinstance(v.func, ast.Name) and not v.args and not v.keywords and v.func.id in self.repo.functions:
                        from .minieval import EV, MiniEval, Raised, Unsupported
                        try:
                            kind, val = MiniEval(self.repo, self, "").call(self.repo.functions[v.func.id], {})
                        except (Unsupported, Raised) as exc:
                            raise AnalysisError(f"dict unpacking in a folded table: {unparse(v)} is not foldable ({exc})")

                        def conv(x):
                            if isinstance(x, EV):
                                return EnumVal(x.cls, x.name, x.value)
                            if isinstance(x, list):
                                return [conv(y) for y in x]
                            if isinstance(x, tuple):
                                return tuple(conv(y) for y in x)
                            if isinstance(x, dict):
                                return {conv(a): conv(b) for a, b in x.items()}
                            return x
                        if isinstance(val, dict):
                            sub = conv(val)
                    if sub is None:
                        raise AnalysisError("dict unpacking in a folded table")
                    for kk, vv in sub.items():
                        if kk in out:
                            out[("DUP", kk, len(out))] = vv
                        else:
                            out[kk] = vv
                    continue
                kk = self.fold(k, env)
                if kk in out:
                    out[("DUP", kk, len(out))] = self.fold(v, env)
                else:
                    out[kk] = self.fold(v, env)
            return out
        if isinstance(node, ast.UnaryOp) and isinstance(node.op, ast.USub):
            v = self.fold(node.operand, env)
            if isinstance(v, (int, float)):
                return -v
        if isinstance(node, ast.BinOp) and isinstance(node.op, ast.Add):
            a, b = self.fold(node.left, env), self.fold(node.right, env)
            if isinstance(a, (str, bytes, int)) and type(a) is type(b):
                return a + b
        if isinstance(node, ast.Call) and isinstance(node.func, ast.Name) and node.func.id == "str" \
                and len(node.args) == 1:
            v = self.fold(node.args[0], env)
            if isinstance(v, EnumVal):
                return str(v.value)
            if isinstance(v, (str, int)):
                return str(v)
        return Sym(unparse(node))

    @staticmethod
    def val(v):
        """Literal value behind a folded item (enum members compare by value in the repo)."""
        return v.value if isinstance(v, EnumVal) else v

    def tag(self, node) -> str | None:
        """Fold a tag expression (``FTag.X``, ``"34"``, ``34``) to its decimal string."""
        v = self.fold(node)
        if isinstance(v, EnumVal) and v.cls == "FTag":
            return str(v.value)
        if isinstance(v, (str, int)) and not isinstance(v, bool):
            return str(v)
        return None
