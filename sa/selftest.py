"""E8: mutation self-test.  Seeded mutants are *in-memory* source overlays (no scratch copy
is written anywhere): {file, old, new} textual edits that must still compile and on which
the named rule must fire.  Results are recorded in the evidence; they never become a
violation of the repository (a missed seed is an ANALYSIS-ERROR at most).
"""
from __future__ import annotations

import importlib
import json
import os
from concurrent.futures import ProcessPoolExecutor

from . import core


def _load(pid):
    path = os.path.join(core.VERIF, "mutants", f"{pid.lower()}.json")
    if not os.path.exists(path):
        return []
    with open(path) as fh:
        return json.load(fh)


def _run_one(args):
    pid, root, m, base_keys = args
    rel = m["file"]
    full = os.path.join(root, rel)
    try:
        src = open(full, encoding="utf-8").read()
    except OSError:
        return m["name"], "n/a", "file missing"
    edits = m.get("edits") or [{"old": m["old"], "new": m["new"]}]
    for e in edits:
        if src.count(e["old"]) != 1:
            return m["name"], "n/a", "selector does not match the current tree"
        src = src.replace(e["old"], e["new"])
    try:
        compile(src, rel, "exec")
    except SyntaxError as exc:
        return m["name"], "n/a", f"mutant does not compile: {exc}"
    try:
        repo = core.Repo(root, overlay={rel: src})
        ctx = core.Ctx(pid, repo, "quick", 0)
        ctx.verbose = False
        mod = importlib.import_module(f"rules.{pid.lower()}")
        try:
            mod.run(ctx)
            err = None
        except core.AnalysisError as exc:
            err = str(exc)
    except Exception as exc:  # noqa
        return m["name"], "error", repr(exc)
    new = [f for f in ctx.findings if f.key not in base_keys]
    if m.get("silent"):
        # behaviour-preserving variant: the rules must stay silent (false-alarm control)
        if err is not None:
            return m["name"], "missed", "false alarm (ANALYSIS-ERROR) on a behaviour-preserving variant: " + err[:120]
        if new:
            return m["name"], "missed", "false alarm on a behaviour-preserving variant: " + new[0].key
        return m["name"], "caught", "silent as required"
    want = m.get("expect", "")
    hit = [f.key for f in new if f.rule.startswith(want) or want in f.key]
    if hit:
        return m["name"], "caught", hit[0]
    if err is not None and m.get("accept_analysis_error"):
        return m["name"], "caught", "ANALYSIS-ERROR: " + err[:100]
    if new:
        return m["name"], "caught-other", new[0].key
    return m["name"], "missed", err or "no new finding"


def run(pid, root, base_ctx):
    muts = _load(pid)
    base_keys = {f.key for f in base_ctx.findings}
    res = {"mutants": len(muts), "applicable": 0, "caught": 0, "caught_by_other_rule": 0, "missed": [], "not_applicable": []}
    if not muts:
        return res
    jobs = [(pid, root, m, base_keys) for m in muts]
    workers = min(16, len(jobs))
    # fresh interpreters: forking the checker after its own analysis makes every child copy the parent's heap page by page
    import multiprocessing
    with ProcessPoolExecutor(max_workers=workers, mp_context=multiprocessing.get_context("spawn")) as ex:
        outs = list(ex.map(_run_one, jobs))
    for name, status, detail in outs:
        if status == "n/a":
            res["not_applicable"].append(name)
            continue
        res["applicable"] += 1
        if status == "caught":
            res["caught"] += 1
        elif status == "caught-other":
            res["caught"] += 1
            res["caught_by_other_rule"] += 1
            print(f"SELFTEST-NOTE {pid} {name}: caught by another rule ({detail})")
        else:
            res["missed"].append(name)
            print(f"SELFTEST-MISS {pid} {name}: {detail}")
    print(f"[{pid}] self-test: {res['caught']}/{res['applicable']} applicable seeded mutants caught "
          f"({len(res['not_applicable'])} not applicable to this tree)")
    # the checker lost its teeth only if the tree is the one the corpus was confirmed on
    dpath = os.path.join(core.VERIF, "mutants", "confirmed_digest.json")
    confirmed = {}
    if os.path.exists(dpath):
        confirmed = json.load(open(dpath))
    if res["missed"] and confirmed.get(pid) == base_ctx.repo.digest():
        raise core.AnalysisError(f"seeded mutants missed on the confirmed tree: {res['missed']}")
    if muts and res["applicable"] == 0 and confirmed.get(pid) == base_ctx.repo.digest():
        raise core.AnalysisError("no seeded mutant applies to the confirmed tree")
    return res
