"""Anchors of the outbound path shared by C02/C05/C09/C11/C14: the nodes of ``send_msg``."""
from __future__ import annotations

import ast

from .cfg import CFG
from .core import AnalysisError, attr_chain, unparse, walk_no_nested
from .resolve import Resolver

SEND = "AsyncFIXConnection.send_msg"


class SendPath:
    def __init__(self, repo, res: Resolver | None = None):
        self.repo = repo
        self.res = res or Resolver(repo)
        self.fn = repo.func(SEND)
        self.cfg = CFG(self.fn)
        g = self.cfg
        self.encode_calls = []
        self.write_calls = []
        self.persist_calls = []
        self.drain_calls = []
        for c in walk_no_nested(self.fn):
            if not isinstance(c, ast.Call):
                continue
            kind, name = self.res.resolve(c, self.fn)
            if kind == "func" and name == "Codec.encode":
                self.encode_calls.append(c)
            elif kind == "func" and name == "Journaler.persist_msg":
                self.persist_calls.append(c)
            elif isinstance(c.func, ast.Attribute) and c.func.attr in ("write", "writelines", "sendall", "send") \
                    and "writer" in (attr_chain(c.func.value) or "") or (
                    isinstance(c.func, ast.Attribute) and c.func.attr in ("write", "writelines") and "transport" in (attr_chain(c.func.value) or "")):
                self.write_calls.append(c)
            elif isinstance(c.func, ast.Attribute) and c.func.attr == "drain":
                self.drain_calls.append(c)
        if len(self.encode_calls) != 1:
            raise AnalysisError(f"send_msg: expected exactly one Codec.encode call, found {len(self.encode_calls)}")
        if not self.write_calls:
            raise AnalysisError("send_msg: transport write call not found")
        if not self.persist_calls:
            raise AnalysisError("send_msg: persist_msg call not found")
        self.encode_nodes = g.ids_of(self.encode_calls[0])
        self.write_nodes = [i for c in self.write_calls for i in g.ids_of(c)]
        self.persist_nodes = [i for c in self.persist_calls for i in g.ids_of(c)]
        self.raise_nodes = [n.id for n in g.nodes if n.kind == "stmt" and isinstance(n.ast, ast.Raise)]

    def raised_class(self, nid):
        r = self.cfg.nodes[nid].ast
        if r.exc is None:
            return None
        e = r.exc.func if isinstance(r.exc, ast.Call) else r.exc
        return unparse(e)

    def value_flow(self, arg):
        """Names through which a value flows back to its definition inside send_msg:
        returns the chain of (name, defining expr) pairs, following single definitions."""
        chain = []
        cur = arg
        seen = set()
        while isinstance(cur, ast.Name) and cur.id not in seen:
            seen.add(cur.id)
            defs = [n for n in walk_no_nested(self.fn) if isinstance(n, ast.Assign) and len(n.targets) == 1
                    and isinstance(n.targets[0], ast.Name) and n.targets[0].id == cur.id]
            if len(defs) != 1:
                chain.append((cur.id, None if not defs else "multiple"))
                return chain
            chain.append((cur.id, defs[0].value))
            cur = defs[0].value
            # look through a transcoding call x.encode("...") or a try wrapper
            if isinstance(cur, ast.Call) and isinstance(cur.func, ast.Attribute) and cur.func.attr == "encode" \
                    and isinstance(cur.func.value, ast.Name):
                cur = cur.func.value
        return chain
