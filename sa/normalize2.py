"""Second group of load-time normalisations (see sa/normalize.py for the first): statement-level shapes.

  N4  `match subject: case V: ...` with value / singleton / or / wildcard patterns is an if/elif chain on `==`/`is`
  N7  a renamed parameter of a known function gets its known name back (body and keyword arguments)
  N8  a *fresh* statement `x = A if c else B` / `return A if c else B` is the if/else statement it abbreviates
      (fresh = its fingerprint is not among the statements the function had on the confirmed tree)
  N5  a *fresh* local that aliases a construction-time binding (`sess = self._session`) is replaced by the binding
  N6  a *fresh* local with one definition and a side-effect-free value over stable operands is replaced by its value
  N10 a `while` counter loop written in place of `for n in range(a, b, -1)` (fresh statements only) is that `for`

Each pass preserves behaviour; none decides anything.
"""
from __future__ import annotations

import ast
import copy
import hashlib
import re

FUNC = (ast.FunctionDef, ast.AsyncFunctionDef)
PURE_CALLS = {"len", "str", "int", "min", "max", "frozenset", "set", "tuple", "isinstance", "bool", "abs", "repr", "sorted", "list"}


def _h(st, fname) -> str:
    d = ast.dump(st, annotate_fields=False).replace(repr(fname), "'%SELF%'")
    return hashlib.sha1(d.encode()).hexdigest()[:10]


def _blocks(node):
    """Every statement list under node (not descending into nested defs)."""
    for fld in ("body", "orelse", "finalbody"):
        sub = getattr(node, fld, None)
        if isinstance(sub, list) and sub and isinstance(sub[0], ast.stmt):
            yield node, fld, sub
            for st in sub:
                if not isinstance(st, FUNC + (ast.ClassDef,)):
                    yield from _blocks(st)
    for h in getattr(node, "handlers", []) or []:
        yield h, "body", h.body
        for st in h.body:
            if not isinstance(st, FUNC + (ast.ClassDef,)):
                yield from _blocks(st)
    if isinstance(node, ast.Match):
        for c in node.cases:
            yield c, "body", c.body
            for st in c.body:
                if not isinstance(st, FUNC + (ast.ClassDef,)):
                    yield from _blocks(st)


def all_functions(modules):
    for rel, mod in modules.items():
        for n in mod.tree.body:
            if isinstance(n, FUNC):
                yield rel, "", n
            elif isinstance(n, ast.ClassDef):
                for m in n.body:
                    if isinstance(m, FUNC):
                        yield rel, n.name, m


# ---------------------------------------------------------------------------------------------- N4 match
def _pattern_test(subj, pat):
    """Expression equivalent to `subject matches pat`, or None for patterns that are not plain value tests."""
    if isinstance(pat, ast.MatchValue):
        return ast.Compare(copy.deepcopy(subj), [ast.Eq()], [copy.deepcopy(pat.value)])
    if isinstance(pat, ast.MatchSingleton):
        return ast.Compare(copy.deepcopy(subj), [ast.Is()], [ast.Constant(pat.value)])
    if isinstance(pat, ast.MatchOr):
        parts = [_pattern_test(subj, p) for p in pat.patterns]
        if any(p is None for p in parts):
            return None
        return ast.BoolOp(ast.Or(), parts)
    return None


def _simple_subject(e) -> bool:
    if isinstance(e, ast.Name):
        return True
    if isinstance(e, ast.Attribute):
        return _simple_subject(e.value)
    return False


def desugar_match(modules, rep):
    for rel, sc, fn in all_functions(modules):
        changed = True
        while changed:
            changed = False
            for owner, fld, stmts in list(_blocks(fn)):
                for i, st in enumerate(stmts):
                    if not isinstance(st, ast.Match):
                        continue
                    pre = []
                    subj = st.subject
                    if not _simple_subject(subj):
                        tmp = f"subject__{st.lineno}"
                        pre = [ast.copy_location(ast.Assign([ast.Name(tmp, ast.Store())], subj, lineno=st.lineno), st)]
                        subj = ast.Name(tmp, ast.Load())
                    chain = []
                    ok = True
                    for k, case in enumerate(st.cases):
                        wild = isinstance(case.pattern, ast.MatchAs) and case.pattern.pattern is None and case.pattern.name is None
                        if wild:
                            test = None if case.guard is None else case.guard
                            if test is None and k != len(st.cases) - 1:
                                ok = False
                        else:
                            test = _pattern_test(subj, case.pattern)
                            if test is None:
                                ok = False
                                break
                            if case.guard is not None:
                                test = ast.BoolOp(ast.And(), [test, case.guard])
                        chain.append((test, case.body))
                    if not ok or not chain:
                        continue
                    node = None
                    for test, body in reversed(chain):
                        if test is None:
                            node = body
                        else:
                            new = ast.If(test, body, node if isinstance(node, list) else ([node] if node is not None else []))
                            ast.copy_location(new, body[0])
                            new.lineno = getattr(test, "lineno", None) or body[0].lineno
                            node = new
                    repl = pre + (node if isinstance(node, list) else [node])
                    for r in repl:
                        ast.fix_missing_locations(r)
                    stmts[i:i + 1] = repl
                    rep.other.append(f"match statement at {rel}:{st.lineno} read as an if/elif chain")
                    changed = True
                    break
                if changed:
                    break


# ---------------------------------------------------------------------------------------------- N16 walrus
def extract_walrus(modules, rep):
    """`if (x := E) <op> Y:` with the assignment expression evaluated first and unconditionally in the test is
    `x = E` followed by `if x <op> Y:` (also for an `elif`, which is an `if` alone in an else block)."""
    def first_operand(test):
        """the NamedExpr that is the very first thing the test evaluates, and a setter to replace it"""
        t = test
        holder, field = None, None
        while True:
            if isinstance(t, ast.NamedExpr):
                return t, holder, field
            if isinstance(t, ast.Compare):
                holder, field, t = t, "left", t.left
            elif isinstance(t, ast.BoolOp):
                holder, field, t = t, 0, t.values[0]
            elif isinstance(t, ast.UnaryOp):
                holder, field, t = t, "operand", t.operand
            else:
                return None, None, None

    for rel, sc, fn in all_functions(modules):
        changed = True
        while changed:
            changed = False
            for owner, fld, stmts in list(_blocks(fn)):
                for i, st in enumerate(stmts):
                    if not isinstance(st, ast.If):
                        continue
                    ne, holder, field = first_operand(st.test)
                    if ne is None or not isinstance(ne.target, ast.Name):
                        continue
                    name = ast.copy_location(ast.Name(ne.target.id, ast.Load()), ne)
                    if holder is None:
                        st.test = name
                    elif isinstance(field, int):
                        holder.values[field] = name
                    else:
                        setattr(holder, field, name)
                    asg = ast.copy_location(ast.Assign([ast.Name(ne.target.id, ast.Store())], ne.value, lineno=st.lineno), st)
                    ast.fix_missing_locations(asg)
                    stmts.insert(i, asg)
                    rep.other.append(f"assignment expression in the test at {rel}:{st.lineno} read as a statement in front of it")
                    changed = True
                    break
                if changed:
                    break


# ---------------------------------------------------------------------------------------------- N19 getattr / setattr
def constant_attr_access(modules, rep):
    """`getattr(x, 'name')` is `x.name`, the statement `setattr(x, 'name', v)` is `x.name = v` (identifier constants)."""
    for rel, sc, fn in all_functions(modules):
        class G(ast.NodeTransformer):
            def visit_Call(self, node):
                self.generic_visit(node)
                if isinstance(node.func, ast.Name) and node.func.id == "getattr" and len(node.args) == 2 and not node.keywords \
                        and isinstance(node.args[1], ast.Constant) and isinstance(node.args[1].value, str) and node.args[1].value.isidentifier():
                    return ast.copy_location(ast.Attribute(node.args[0], node.args[1].value, ast.Load()), node)
                return node
        fn.body = [G().visit(st) for st in fn.body]
        for owner, fld, stmts in list(_blocks(fn)):
            for i, st in enumerate(stmts):
                if isinstance(st, ast.Expr) and isinstance(st.value, ast.Call) and isinstance(st.value.func, ast.Name) and st.value.func.id == "setattr" \
                        and len(st.value.args) == 3 and not st.value.keywords and isinstance(st.value.args[1], ast.Constant) \
                        and isinstance(st.value.args[1].value, str) and st.value.args[1].value.isidentifier():
                    a = st.value.args
                    new = ast.copy_location(ast.Assign([ast.Attribute(a[0], a[1].value, ast.Store())], a[2], lineno=st.lineno), st)
                    ast.fix_missing_locations(new)
                    stmts[i] = new
                    rep.other.append(f"setattr with a constant name at {rel}:{st.lineno} read as an attribute assignment")
        ast.fix_missing_locations(fn)


# ---------------------------------------------------------------------------------------------- N7 parameters
def _params(fn):
    a = fn.args
    return [p.arg for p in a.posonlyargs + a.args] + ([a.vararg.arg] if a.vararg else []) + [p.arg for p in a.kwonlyargs] + ([a.kwarg.arg] if a.kwarg else [])


def undo_param_renames(modules, known, rep):
    kp = known.get("params") or {}
    for rel, sc, fn in all_functions(modules):
        want = kp.get(f"{rel}::{sc}.{fn.name}")
        have = _params(fn)
        if not want or len(want) != len(have) or want == have:
            continue
        used = set()
        for n in ast.walk(fn):
            if isinstance(n, ast.Name):
                used.add(n.id)
        mapping = {}
        for w, h in zip(want, have):
            if w != h:
                if w in used or w in have:
                    mapping = None
                    break
                mapping[h] = w
        if not mapping:
            continue
        for n in ast.walk(fn):
            if isinstance(n, ast.Name) and n.id in mapping:
                n.id = mapping[n.id]
            elif isinstance(n, ast.arg) and n.arg in mapping:
                n.arg = mapping[n.arg]
        # keyword arguments at call sites of this function
        for mod in modules.values():
            for c in ast.walk(mod.tree):
                if isinstance(c, ast.Call):
                    f = c.func
                    nm = f.attr if isinstance(f, ast.Attribute) else (f.id if isinstance(f, ast.Name) else None)
                    if nm == fn.name:
                        for kw in c.keywords:
                            if kw.arg in mapping:
                                kw.arg = mapping[kw.arg]
        rep.renamed.append((f"{sc + '.' if sc else ''}{fn.name} parameter", ",".join(mapping), ",".join(mapping.values())))


# ---------------------------------------------------------------------------------------------- fresh statements
def _known_hashes(known, rel, sc, fn):
    kf = known["functions"].get(f"{rel}::{sc}") or {}
    return set(kf.get(fn.name, ())) if fn.name in kf else None


def _is_fresh(st, fn, kh) -> bool:
    return kh is not None and _h(st, fn.name) not in kh


# ---------------------------------------------------------------------------------------------- N8 IfExp
def expand_ifexp(modules, known, rep):
    for rel, sc, fn in all_functions(modules):
        kh = _known_hashes(known, rel, sc, fn)
        if kh is None:
            continue
        for owner, fld, stmts in list(_blocks(fn)):
            i = 0
            while i < len(stmts):
                st = stmts[i]
                val = getattr(st, "value", None)
                if isinstance(st, (ast.Assign, ast.Return)) and isinstance(val, ast.IfExp) and _is_fresh(st, fn, kh):
                    a, b = copy.copy(st), copy.copy(st)
                    a.value, b.value = val.body, val.orelse
                    new = ast.copy_location(ast.If(val.test, [a], [b]), st)
                    stmts[i] = new
                    rep.other.append(f"conditional expression at {rel}:{st.lineno} read as an if/else statement")
                    continue
                i += 1


# ---------------------------------------------------------------------------------------------- N10 while -> for range
def while_to_for(modules, known, rep):
    """n = A; while n > B: BODY; n -= 1   ==   for n in range(A, B, -1): BODY   (fresh statements, n not used after,
    no `continue` in BODY, n not stored in BODY)."""
    for rel, sc, fn in all_functions(modules):
        kh = _known_hashes(known, rel, sc, fn)
        if kh is None:
            continue
        for owner, fld, stmts in list(_blocks(fn)):
            for i in range(len(stmts) - 1):
                a, w = stmts[i], stmts[i + 1]
                if not (isinstance(a, ast.Assign) and len(a.targets) == 1 and isinstance(a.targets[0], ast.Name) and isinstance(w, ast.While) and not w.orelse):
                    continue
                if not _is_fresh(w, fn, kh):
                    continue
                n = a.targets[0].id
                t = w.test
                if not (isinstance(t, ast.Compare) and len(t.ops) == 1 and isinstance(t.left, ast.Name) and t.left.id == n and isinstance(t.ops[0], (ast.Gt, ast.Lt))):
                    continue
                last = w.body[-1] if w.body else None
                step = None
                if isinstance(last, ast.AugAssign) and isinstance(last.target, ast.Name) and last.target.id == n and isinstance(last.value, ast.Constant) and last.value.value == 1:
                    if isinstance(last.op, ast.Sub) and isinstance(t.ops[0], ast.Gt):
                        step = -1
                    elif isinstance(last.op, ast.Add) and isinstance(t.ops[0], ast.Lt):
                        step = 1
                if step is None:
                    continue
                body = w.body[:-1]
                if any(isinstance(x, ast.Continue) for s in body for x in ast.walk(s)):
                    continue
                if any(isinstance(x, ast.Name) and x.id == n and isinstance(x.ctx, ast.Store) for s in body for x in ast.walk(s)):
                    continue
                bound = t.comparators[0]
                if not isinstance(bound, (ast.Constant, ast.Name)):
                    continue
                later = [x for s in stmts[i + 2:] for x in ast.walk(s) if isinstance(x, ast.Name) and x.id == n]
                if later:
                    continue
                args = [a.value, bound] + ([ast.UnaryOp(ast.USub(), ast.Constant(1))] if step == -1 else [])
                loop = ast.For(ast.Name(n, ast.Store()), ast.Call(ast.Name("range", ast.Load()), args, []), body or [ast.Pass()], [], lineno=w.lineno)
                ast.copy_location(loop, w)
                ast.fix_missing_locations(loop)
                stmts[i:i + 2] = [loop]
                rep.other.append(f"counter while-loop at {rel}:{w.lineno} read as for-range")
                break


# ---------------------------------------------------------------------------------------------- N14 unroll constant loops
class _beta(ast.NodeTransformer):
    """`(lambda: c)()` is c"""
    def visit_Call(self, node):
        self.generic_visit(node)
        if isinstance(node.func, ast.Lambda) and not node.args and not node.keywords and not (node.func.args.args or node.func.args.vararg or node.func.args.kwarg
                                                                                            or node.func.args.kwonlyargs) and isinstance(node.func.body, ast.Constant):
            return ast.copy_location(node.func.body, node)
        return node


def _read_before_store(stmts, names) -> bool:
    """some name of `names` is read in `stmts` before anything there assigns it (source order; a loop that assigns it in its header
    counts as the assignment)"""
    first = {}

    def rec(n):
        if isinstance(n, ast.Name) and n.id in names and n.id not in first:
            first[n.id] = isinstance(n.ctx, ast.Load)
        if isinstance(n, (ast.For, ast.AsyncFor)):
            rec(n.iter)
            rec(n.target)
            for b in n.body + n.orelse:
                rec(b)
            return
        if isinstance(n, ast.Assign):
            rec(n.value)
            for t in n.targets:
                rec(t)
            return
        for c in ast.iter_child_nodes(n):
            rec(c)
    for s_ in stmts:
        rec(s_)
    return any(first.values())


def unroll_constant_loops(modules, known, rep):
    """fresh `for x in (A, B, C): BODY` over a literal sequence of constants / enum members, BODY without break /
    continue / nested loop / store to x, x unused afterwards  ==  BODY[x:=A]; BODY[x:=B]; BODY[x:=C]."""
    for rel, sc, fn in all_functions(modules):
        kh = _known_hashes(known, rel, sc, fn)
        if kh is None:
            continue
        for owner, fld, stmts in list(_blocks(fn)):
            i = 0
            while i < len(stmts):
                st = stmts[i]
                i += 1
                if isinstance(st, ast.For) and not st.orelse and isinstance(st.target, ast.Tuple) and isinstance(st.iter, (ast.Tuple, ast.List)) and _is_fresh(st, fn, kh):
                    # for a, b in ((A1, B1), (A2, B2)): if <test>: ...; break      ==      if test[1]: ...  elif test[2]: ...
                    names_ = [e.id for e in st.target.elts if isinstance(e, ast.Name)]
                    rows = st.iter.elts
                    okc = lambda e: isinstance(e, ast.Constant) or (isinstance(e, ast.Attribute) and isinstance(e.value, ast.Name) and e.value.id[:1].isupper()) or \
                        (isinstance(e, ast.Lambda) and not (e.args.args or e.args.vararg or e.args.kwarg or e.args.kwonlyargs) and isinstance(e.body, ast.Constant))  # noqa: E731
                    if len(names_) == len(st.target.elts) and 0 < len(rows) <= 16 and all(isinstance(r, ast.Tuple) and len(r.elts) == len(names_) and all(okc(e) for e in r.elts) for r in rows) \
                            and len(st.body) == 1 and isinstance(st.body[0], ast.If) and not st.body[0].orelse and st.body[0].body and isinstance(st.body[0].body[-1], ast.Break) \
                            and sum(1 for x_ in ast.walk(st) if isinstance(x_, (ast.Break, ast.Continue))) == 1 \
                            and not any(isinstance(n, ast.Name) and n.id in names_ for s2 in stmts[i:] for n in ast.walk(s2)) \
                            and not any(isinstance(n, ast.Name) and n.id in names_ and isinstance(n.ctx, ast.Store) for b in st.body for n in ast.walk(b)):
                        node = []
                        for r in reversed(rows):
                            mp = dict(zip(names_, r.elts))

                            class S2(ast.NodeTransformer):
                                def visit_Name(self, nd):
                                    if nd.id in mp and isinstance(nd.ctx, ast.Load):
                                        return ast.copy_location(copy.deepcopy(mp[nd.id]), nd)
                                    return nd
                            inner = st.body[0]
                            test = S2().visit(copy.deepcopy(inner.test))
                            body = [S2().visit(copy.deepcopy(b)) for b in inner.body[:-1]] or [ast.copy_location(ast.Pass(), inner)]
                            node = [ast.copy_location(ast.If(test, body, node), st)]
                        for n in node:
                            ast.fix_missing_locations(n)
                        stmts[i - 1:i] = node
                        rep.other.append(f"first-match loop over {len(rows)} constant rows at {rel}:{st.lineno} read as an if/elif chain")
                        continue
                    # for a, b in ((x1, K1), (x2, K2)): BODY   (no break / continue / nested loop; row elements are constants, enum
                    # members or locals that BODY does not assign)  ==  BODY[row 1]; BODY[row 2]
                    stored_ = {n.id for b in st.body for n in ast.walk(b) if isinstance(n, ast.Name) and isinstance(n.ctx, (ast.Store, ast.Del))}
                    okr = lambda e: okc(e) or (isinstance(e, ast.Name) and e.id not in stored_)  # noqa: E731
                    quiet_ = lambda e: not any(isinstance(y_, (ast.Await, ast.NamedExpr, ast.Yield, ast.YieldFrom, ast.Lambda)) for y_ in ast.walk(e))  # noqa: E731
                    if len(names_) == len(st.target.elts) and 0 < len(rows) <= 16 and all(isinstance(r, ast.Tuple) and len(r.elts) == len(names_) and all(okr(e) or quiet_(e) for e in r.elts) for r in rows) \
                            and not any(isinstance(n, (ast.Break, ast.Continue, ast.For, ast.While, ast.AsyncFor)) for b in st.body for n in ast.walk(b)) \
                            and not (stored_ & set(names_)) \
                            and not _read_before_store(stmts[i:], names_):
                        new_ = []
                        # row elements that are expressions are evaluated once, in row order, before the first iteration: kept in locals
                        taken_ = {n.id for n in ast.walk(fn) if isinstance(n, ast.Name)}
                        hoisted = {}
                        for ri, r in enumerate(rows):
                            for ci, e in enumerate(r.elts):
                                if not okr(e):
                                    nm_ = f"row{ri}__{names_[ci]}"
                                    while nm_ in taken_:
                                        nm_ += "_"
                                    taken_.add(nm_)
                                    hoisted[(ri, ci)] = nm_
                                    a_ = ast.copy_location(ast.Assign([ast.Name(nm_, ast.Store())], e, lineno=st.lineno), st)
                                    ast.fix_missing_locations(a_)
                                    new_.append(a_)
                        for ri, r in enumerate(rows):
                            mp = {nm2: (ast.Name(hoisted[(ri, ci)], ast.Load()) if (ri, ci) in hoisted else r.elts[ci]) for ci, nm2 in enumerate(names_)}

                            class S3(ast.NodeTransformer):
                                def visit_Name(self, nd):
                                    if nd.id in mp and isinstance(nd.ctx, ast.Load):
                                        return ast.copy_location(copy.deepcopy(mp[nd.id]), nd)
                                    return nd
                            for b in st.body:
                                c = _beta().visit(S3().visit(copy.deepcopy(b)))
                                ast.fix_missing_locations(c)
                                new_.append(c)
                        stmts[i - 1:i] = new_
                        i += len(new_) - 1
                        rep.other.append(f"loop over {len(rows)} literal rows at {rel}:{st.lineno} read as its {len(new_)} unrolled statement(s)")
                    continue
                if not (isinstance(st, ast.For) and not st.orelse and isinstance(st.target, ast.Name) and isinstance(st.iter, (ast.Tuple, ast.List)) and _is_fresh(st, fn, kh)):
                    continue
                elts = st.iter.elts
                if not (0 < len(elts) <= 16 and all(isinstance(e, ast.Constant) or (isinstance(e, ast.Attribute) and isinstance(e.value, ast.Name) and e.value.id[:1].isupper()) for e in elts)):
                    continue
                x = st.target.id
                if any(isinstance(n, (ast.Break, ast.Continue, ast.For, ast.While, ast.AsyncFor)) for b in st.body for n in ast.walk(b)):
                    continue
                if any(isinstance(n, ast.Name) and n.id == x and isinstance(n.ctx, (ast.Store, ast.Del)) for b in st.body for n in ast.walk(b)):
                    continue
                after = [n for s2 in stmts[i:] for n in ast.walk(s2) if isinstance(n, ast.Name) and n.id == x]
                if after:
                    continue
                new = []
                for e in elts:
                    class S(ast.NodeTransformer):
                        def visit_Name(self, node):
                            if node.id == x and isinstance(node.ctx, ast.Load):
                                return ast.copy_location(copy.deepcopy(e), node)
                            return node
                    for b in st.body:
                        c = S().visit(copy.deepcopy(b))
                        ast.fix_missing_locations(c)
                        new.append(c)
                stmts[i - 1:i] = new
                i += len(new) - 1
                rep.other.append(f"loop over {len(elts)} constants at {rel}:{st.lineno} read as its {len(new)} unrolled statement(s)")


# ---------------------------------------------------------------------------------------------- N12 table dispatch
def _plain_enums(modules) -> set:
    """Enum classes of the package that keep the default (identity) __eq__ / __hash__."""
    out = set()
    for mod in modules.values():
        for c in mod.tree.body:
            if isinstance(c, ast.ClassDef) and any("Enum" in ast.unparse(b) for b in c.bases):
                names = {m.name for m in c.body if isinstance(m, FUNC)}
                bases_plain = all(ast.unparse(b) in ("Enum", "enum.Enum", "IntEnum", "enum.IntEnum") for b in c.bases)
                if not ({"__eq__", "__hash__"} & names) and bases_plain:
                    out.add(c.name)
    return out


class _fold_arith(ast.NodeTransformer):
    """`0 + 1` is `1` (integer literals only)"""
    def visit_BinOp(self, node):
        self.generic_visit(node)
        if isinstance(node.op, (ast.Add, ast.Sub)) and all(isinstance(x, ast.Constant) and isinstance(x.value, int) and not isinstance(x.value, bool) for x in (node.left, node.right)):
            v = node.left.value + node.right.value if isinstance(node.op, ast.Add) else node.left.value - node.right.value
            return ast.copy_location(ast.Constant(v), node)
        return node


def _fold_const_test(t):
    """True / False when the test is decided by constants alone, else None."""
    if isinstance(t, ast.Constant):
        return bool(t.value)
    if isinstance(t, ast.UnaryOp) and isinstance(t.op, ast.Not):
        v = _fold_const_test(t.operand)
        return None if v is None else not v
    if isinstance(t, ast.Compare) and len(t.ops) == 1 and isinstance(t.left, ast.Constant) and isinstance(t.comparators[0], ast.Constant):
        a, b, op = t.left.value, t.comparators[0].value, t.ops[0]
        if isinstance(op, ast.Is):
            return a is b if (a is None or b is None) else None
        if isinstance(op, ast.IsNot):
            return a is not b if (a is None or b is None) else None
        if isinstance(op, ast.Eq):
            return a == b
        if isinstance(op, ast.NotEq):
            return a != b
    return None


def _reduce_test(t):
    """(decided value or None, test with constant operands of and/or removed)"""
    v = _fold_const_test(t)
    if v is not None:
        return v, t
    if isinstance(t, ast.BoolOp):
        keep = []
        for x in t.values:
            vx, tx = _reduce_test(x)
            if vx is None:
                keep.append(tx)
            elif isinstance(t.op, ast.And) and vx is False:
                return False, t
            elif isinstance(t.op, ast.Or) and vx is True:
                return True, t
        if not keep:
            return isinstance(t.op, ast.And), t
        return None, (keep[0] if len(keep) == 1 else ast.copy_location(ast.BoolOp(t.op, keep), t))
    if isinstance(t, ast.UnaryOp) and isinstance(t.op, ast.Not):
        vx, tx = _reduce_test(t.operand)
        if vx is not None:
            return (not vx), t
        return None, ast.copy_location(ast.UnaryOp(ast.Not(), tx), t)
    return None, t


def _simplify(stmts):
    out = []
    for st in stmts:
        if isinstance(st, ast.If):
            v, st.test = _reduce_test(st.test)
            if v is True:
                out.extend(_simplify(st.body))
                continue
            if v is False:
                out.extend(_simplify(st.orelse))
                continue
            st.body = _simplify(st.body) or [ast.copy_location(ast.Pass(), st)]
            st.orelse = _simplify(st.orelse)
        out.append(st)
    return out


def expand_table_dispatch(modules, known, rep):
    """fresh `v = {K1: c1, K2: c2}.get(x)` (or `[x]`) with plain-enum / constant keys and constant values, v used only in
    the statements that follow in the same block: read as `if x == K1: <those statements with v := c1> elif ...`."""
    plain = _plain_enums(modules)
    for rel, sc, fn in all_functions(modules):
        kh = _known_hashes(known, rel, sc, fn)
        if kh is None:
            continue
        for owner, fld, stmts in list(_blocks(fn)):
            for i, st in enumerate(stmts):
                if not (isinstance(st, ast.Assign) and len(st.targets) == 1 and isinstance(st.targets[0], ast.Name) and _is_fresh(st, fn, kh)):
                    continue
                v = st.targets[0].id
                val = st.value
                table = x = None
                default = ast.Constant(None)
                sub = False
                if isinstance(val, ast.Call) and isinstance(val.func, ast.Attribute) and val.func.attr == "get" and isinstance(val.func.value, ast.Dict) \
                        and 1 <= len(val.args) <= 2 and not val.keywords:
                    table, x = val.func.value, val.args[0]
                    if len(val.args) == 2:
                        default = val.args[1]
                elif isinstance(val, ast.Subscript) and isinstance(val.value, ast.Dict):
                    table, x, sub = val.value, val.slice, True
                if table is None or not _simple_subject(x) or not isinstance(default, ast.Constant):
                    continue
                keys_ok = all(k is not None and (isinstance(k, ast.Constant) or (isinstance(k, ast.Attribute) and isinstance(k.value, ast.Name) and k.value.id in plain)) for k in table.keys)
                if not keys_ok or not all(isinstance(c, ast.Constant) for c in table.values) or not table.keys:
                    continue
                if any(isinstance(k, ast.Constant) for k in table.keys):
                    continue  # constant keys: the subject's own __eq__/__hash__ may be custom, dict lookup and == can differ
                uses_in = lambda node: sum(1 for n in ast.walk(node) if isinstance(n, ast.Name) and n.id == v)  # noqa: E731
                total = uses_in(fn)
                j = i
                for k2 in range(i + 1, len(stmts)):
                    if uses_in(stmts[k2]):
                        j = k2
                inside = sum(uses_in(s2) for s2 in stmts[i:j + 1])
                if j == i or inside != total:
                    continue
                if any(isinstance(n, ast.Name) and n.id == v and isinstance(n.ctx, (ast.Store, ast.Del)) for s2 in stmts[i + 1:j + 1] for n in ast.walk(s2)):
                    continue
                xnames = {n.id for n in ast.walk(x) if isinstance(n, ast.Name)}
                if any(isinstance(n, ast.Name) and n.id in xnames and isinstance(n.ctx, ast.Store) for s2 in stmts[i + 1:j + 1] for n in ast.walk(s2)):
                    continue
                tail = stmts[i + 1:j + 1]

                def arm(c):
                    class S(ast.NodeTransformer):
                        def visit_Name(self, node):
                            if node.id == v and isinstance(node.ctx, ast.Load):
                                return ast.copy_location(copy.deepcopy(c), node)
                            return node
                    body = [S().visit(copy.deepcopy(t)) for t in tail]
                    return _simplify(body) or [ast.copy_location(ast.Pass(), st)]
                node = arm(default) if not sub else [ast.copy_location(ast.Raise(ast.Call(ast.Name("KeyError", ast.Load()), [copy.deepcopy(x)], []), None), st)]
                for k, c in reversed(list(zip(table.keys, table.values))):
                    test = ast.Compare(copy.deepcopy(x), [ast.Eq()], [copy.deepcopy(k)])
                    new = ast.copy_location(ast.If(test, arm(c), node), st)
                    node = [new]
                for n in node:
                    ast.fix_missing_locations(n)
                stmts[i:j + 1] = node
                rep.other.append(f"table dispatch `{v} = {{...}}` at {rel}:{st.lineno} read as an if/elif chain over its {len(table.keys)} keys")
                break


# ---------------------------------------------------------------------------------------------- N17 constant flags
def _exits(stmts) -> bool:
    if not stmts:
        return False
    last = stmts[-1]
    if isinstance(last, (ast.Return, ast.Raise, ast.Break, ast.Continue)):
        return True
    if isinstance(last, ast.If):
        return _exits(last.body) and _exits(last.orelse)
    return False


def _const_like(v, fn) -> bool:
    """a literal, or a member of a module-level class / enum (`FTag.MsgSeqNum`): evaluating it again gives the same object"""
    if isinstance(v, ast.Constant):
        return True
    if isinstance(v, ast.Attribute) and isinstance(v.value, ast.Name) and v.value.id[:1].isupper():
        local = {n.id for n in ast.walk(fn) if isinstance(n, ast.Name) and isinstance(n.ctx, (ast.Store, ast.Del))} | set(_params(fn))
        return v.value.id not in local
    return False


def thread_constant_flags(modules, known, rep):
    """New locals that only ever hold constants and are only read by ONE following `if` statement S2 (test and body) carry
    nothing but the branch that was taken before: S2 is specialised and appended to every leaf of the `if` tree S1 in front of
    it (and of the constant initialisations in front of that), with the constants each leaf has established.

        flag = True; err = None                       if c:   if a: raise E('A')   # flag True, err 'A'
        if c:   if a: err = 'A'  else: flag = False           else: Y              # flag False
        if flag: (if err is not None: raise E(err)); X   =>   else: X              # flag True, err None
        else: Y
    """
    kl = known.get("locals") or {}
    for rel, sc, fn in all_functions(modules):
        key = f"{rel}::{sc}.{fn.name}"
        if key not in kl:
            continue
        known_locals = set(kl[key])
        params = set(_params(fn))
        changed = True
        rounds = 0
        while changed and rounds < 8:
            changed = False
            rounds += 1
            for owner, fld, stmts in list(_blocks(fn)):
                for i in range(1, len(stmts)):
                    s2 = stmts[i]
                    if not isinstance(s2, ast.If):
                        continue
                    s1 = stmts[i - 1]
                    if not isinstance(s1, ast.If):
                        continue
                    # candidate flags: names read in s2 that are fresh constant-only locals
                    read = {n.id for n in ast.walk(s2) if isinstance(n, ast.Name) and isinstance(n.ctx, ast.Load)}
                    flags = set()
                    for t in read:
                        if t in known_locals or t in params:
                            continue
                        stores = [a for a in ast.walk(fn) if isinstance(a, ast.Assign) and any(isinstance(x, ast.Name) and x.id == t for tt in a.targets for x in ast.walk(tt))]
                        other_stores = [n for n in ast.walk(fn) if isinstance(n, ast.Name) and n.id == t and isinstance(n.ctx, (ast.Store, ast.Del))]
                        if not stores or len(other_stores) != len(stores):
                            continue
                        if not all(len(a.targets) == 1 and isinstance(a.targets[0], ast.Name) and _const_like(a.value, fn) for a in stores):
                            continue
                        loads = [n for n in ast.walk(fn) if isinstance(n, ast.Name) and n.id == t and isinstance(n.ctx, ast.Load)]
                        if any(not any(n is x for st_ in stmts[i:] for x in ast.walk(st_)) for n in loads):
                            continue
                        if any(isinstance(n, ast.Name) and n.id == t and isinstance(n.ctx, ast.Store) for st_ in stmts[i:] for n in ast.walk(st_)):
                            continue
                        # every store is in s1 or in the straight-line run directly in front of it
                        k = i - 2
                        pre = []
                        while k >= 0 and isinstance(stmts[k], ast.Assign) and len(stmts[k].targets) == 1 and isinstance(stmts[k].targets[0], ast.Name) \
                                and _const_like(stmts[k].value, fn):
                            pre.append(stmts[k])
                            k -= 1
                        if all(any(a is x for x in ast.walk(s1)) or a in pre for a in stores):
                            flags.add(t)
                    if not flags or not any(isinstance(n, ast.Name) and n.id in flags for n in ast.walk(s2.test)):
                        continue
                    # initial constants from the run in front of s1
                    env0 = {}
                    k = i - 2
                    init_nodes = []
                    while k >= 0 and isinstance(stmts[k], ast.Assign) and len(stmts[k].targets) == 1 and isinstance(stmts[k].targets[0], ast.Name) \
                            and _const_like(stmts[k].value, fn):
                        if stmts[k].targets[0].id in flags and stmts[k].targets[0].id not in env0:
                            env0[stmts[k].targets[0].id] = stmts[k].value
                            init_nodes.append(stmts[k])
                        k -= 1
                    failed = False
                    j_last = i
                    for k2 in range(i, len(stmts)):
                        if any(isinstance(n, ast.Name) and n.id in flags for n in ast.walk(stmts[k2])):
                            j_last = k2
                    cont = stmts[i:j_last + 1]
                    if any(isinstance(x, (ast.For, ast.While, ast.AsyncFor, ast.Try, ast.With)) for x in cont[1:]):
                        continue  # only plain statements / ifs are duplicated

                    def specialise(env):
                        class S(ast.NodeTransformer):
                            def visit_Name(self, node):
                                if node.id in env and isinstance(node.ctx, ast.Load):
                                    return ast.copy_location(copy.deepcopy(env[node.id]), node)
                                return node
                        out_ = []
                        for c0 in cont:
                            c = _simplify([S().visit(copy.deepcopy(c0))])
                            out_.extend(c)
                            if out_ and _exits(out_):
                                break  # the rest of the continuation is not reached on this branch
                        return out_

                    def thread(block, env):
                        """returns the block with s2 specialised at every place where control leaves it by falling through"""
                        nonlocal failed
                        out = []
                        env = dict(env)
                        for st in block:
                            if isinstance(st, ast.Assign) and len(st.targets) == 1 and isinstance(st.targets[0], ast.Name) and st.targets[0].id in flags:
                                env[st.targets[0].id] = st.value
                                continue  # the flag assignment itself disappears
                            if any(isinstance(n, ast.Name) and n.id in flags and isinstance(n.ctx, ast.Store) for n in ast.walk(st)):
                                if isinstance(st, ast.If) and st is block[-1]:
                                    st.body = thread(st.body, env)
                                    st.orelse = thread(st.orelse, env)
                                    out.append(st)
                                    return out  # both arms have received their copy
                                failed = True
                            out.append(st)
                        if not (out and isinstance(out[-1], (ast.Return, ast.Raise, ast.Break, ast.Continue))):
                            if not all(f in env for f in flags if any(isinstance(n, ast.Name) and n.id == f for c0 in cont for n in ast.walk(c0))):
                                failed = True
                            out.extend(specialise(env))
                        return out
                    s1c = copy.deepcopy(s1)
                    flag_free = not any(isinstance(n, ast.Name) and n.id in flags and isinstance(n.ctx, ast.Store) for n in ast.walk(s1c))
                    if flag_free:
                        continue
                    new_s1 = thread([s1c], env0)
                    if failed or any(isinstance(n, ast.Name) and n.id in flags for x in new_s1 for n in ast.walk(x)):
                        continue
                    for x in new_s1:
                        ast.fix_missing_locations(x)
                    lo = i - 1
                    stmts[lo:j_last + 1] = new_s1
                    for a in init_nodes:
                        if a in stmts:
                            stmts.remove(a)
                    rep.other.append(f"branch flag(s) {sorted(flags)} in {sc + '.' if sc else ''}{fn.name} threaded into the branches that set them")
                    changed = True
                    break
                if changed:
                    break


# ---------------------------------------------------------------------------------------------- N25 scope classes
def _scope_class(c: ast.ClassDef):
    """A class that is nothing but a try/finally in object form: `__init__` computes attributes from its parameters (and from
    attributes it has set before), `__enter__` runs statements and returns a value, `__exit__` runs statements and does not suppress
    the exception; `self` is only ever read through those attributes.  Returns a dict or None."""
    if c.bases and [ast.unparse(b) for b in c.bases] != ["object"]:
        return None
    if c.decorator_list or c.keywords:
        return None
    meths = {m.name: m for m in c.body if isinstance(m, FUNC)}
    others = [m for m in c.body if not isinstance(m, FUNC) and not (isinstance(m, ast.Expr) and isinstance(m.value, ast.Constant))]
    if others:
        return None
    if set(meths) == {"__init__", "__enter__", "__exit__"}:
        is_async = False
        ent, ex = meths["__enter__"], meths["__exit__"]
        if isinstance(ent, ast.AsyncFunctionDef) or isinstance(ex, ast.AsyncFunctionDef):
            return None
    elif set(meths) == {"__init__", "__aenter__", "__aexit__"}:
        is_async = True
        ent, ex = meths["__aenter__"], meths["__aexit__"]
        if not (isinstance(ent, ast.AsyncFunctionDef) and isinstance(ex, ast.AsyncFunctionDef)):
            return None
    else:
        return None
    init = meths["__init__"]
    if isinstance(init, ast.AsyncFunctionDef) or init.args.vararg or init.args.kwarg or init.args.kwonlyargs or init.args.defaults:
        return None
    params = [a.arg for a in init.args.args]
    if not params or any(m.decorator_list for m in (init, ent, ex)):
        return None
    for m in (init, ent, ex):
        if any(isinstance(x, FUNC + (ast.Lambda, ast.Yield, ast.YieldFrom, ast.Global, ast.Nonlocal)) and x is not m for x in ast.walk(m)):
            return None

    def strip_doc(b):
        return b[1:] if b and isinstance(b[0], ast.Expr) and isinstance(b[0].value, ast.Constant) and isinstance(b[0].value.value, str) else b
    attrs = []   # (attr, value expr over init's parameters and self.<earlier attr>)
    selfn = params[0]
    for st in strip_doc(init.body):
        if isinstance(st, ast.Pass):
            continue
        if not (isinstance(st, (ast.Assign, ast.AnnAssign)) and st.value is not None):
            return None
        if isinstance(st, ast.Assign) and len(st.targets) != 1:
            return None
        t = st.targets[0] if isinstance(st, ast.Assign) else st.target
        if not (isinstance(t, ast.Attribute) and isinstance(t.value, ast.Name) and t.value.id == selfn):
            return None
        if t.attr in [a_ for a_, _ in attrs]:
            return None
        for x in ast.walk(st.value):
            if isinstance(x, ast.Name) and x.id == selfn:
                par = next((y for y in ast.walk(st.value) if isinstance(y, ast.Attribute) and y.value is x), None)
                if par is None or par.attr not in [a_ for a_, _ in attrs]:
                    return None
            if isinstance(x, (ast.Await, ast.NamedExpr)):
                return None
        attrs.append((t.attr, st.value))
    names = [a_ for a_, _ in attrs]

    def only_attr_reads(stmts, me, banned=()):
        for st in stmts:
            for x in ast.walk(st):
                if isinstance(x, ast.Name) and x.id in banned:
                    return False
                if isinstance(x, ast.Name) and x.id == me:
                    par = next((y for y in ast.walk(st) if isinstance(y, ast.Attribute) and y.value is x), None)
                    if par is None or par.attr not in names or isinstance(par.ctx, ast.Del):
                        return False  # (a store becomes an assignment of the attribute's local)
        return True
    eb = list(strip_doc(ent.body))
    if len(ent.args.args) != 1:
        return None
    eself = ent.args.args[0].arg
    eret = None
    if eb and isinstance(eb[-1], ast.Return):
        eret = eb[-1].value
        eb = eb[:-1]
    eb = [x for x in eb if not isinstance(x, ast.Pass)]
    if any(isinstance(x, ast.Return) for st in eb for x in ast.walk(st)):
        return None
    ret_self = isinstance(eret, ast.Name) and eret.id == eself
    if not only_attr_reads(eb, eself) or (eret is not None and not ret_self and not only_attr_reads([ast.Expr(eret)], eself)):
        return None
    xb = list(strip_doc(ex.body))
    if len(ex.args.args) != 4:
        return None
    xself = ex.args.args[0].arg
    excn = {a.arg for a in ex.args.args[1:]}
    if xb and isinstance(xb[-1], ast.Return):
        v = xb[-1].value
        if not (v is None or (isinstance(v, ast.Constant) and v.value in (None, False))):
            return None
        xb = xb[:-1]
    xb = [x for x in xb if not isinstance(x, ast.Pass)]
    if any(isinstance(x, ast.Return) for st in xb for x in ast.walk(st)):
        return None
    if not only_attr_reads(xb, xself, banned=excn):
        return None
    return {"params": params[1:], "init_self": selfn, "attrs": attrs, "enter": eb, "enter_self": eself, "enter_ret": eret, "ret_self": ret_self,
            "exit": xb, "exit_self": xself, "async": is_async}


def expand_scope_classes(modules, known, rep):
    """`with C(a, b) as v: BODY` (or `o = C(a, b)` ... `with o as v:`) over a NEW class C that only packages a `finally` block (see
    _scope_class) is

        <attr locals> = <C.__init__ values>        # where the object was constructed
        <C.__enter__ statements>; v = <its result>
        try: BODY
        finally: <C.__exit__ statements>

    with `self.<attr>` read as the attr local; the arguments are plain names / attributes that nothing assigns between the construction
    and the end of the `with`.  The class is dropped when nothing else mentions it."""
    for rel, mod in modules.items():
        kf = known["functions"]
        cands = {}
        for c in mod.tree.body:
            if isinstance(c, ast.ClassDef) and f"{rel}::{c.name}" not in kf:
                sc = _scope_class(c)
                if sc is not None:
                    cands[c.name] = (c, sc)
        if not cands:
            continue

        def simple(e):
            return isinstance(e, ast.Name) or (isinstance(e, ast.Attribute) and simple(e.value))
        for rel2, scn, fn in list(all_functions({rel: mod})):
            if scn in cands:
                continue
            changed = True
            while changed:
                changed = False
                for owner, fld, stmts in list(_blocks(fn)):
                    for i, st in enumerate(stmts):
                        if not isinstance(st, (ast.With, ast.AsyncWith)) or len(st.items) != 1:
                            continue
                        ce = st.items[0].context_expr
                        asv = st.items[0].optional_vars
                        if asv is not None and not isinstance(asv, ast.Name):
                            continue
                        ctor_at = None   # index in stmts of `o = C(...)`
                        if isinstance(ce, ast.Name):
                            defs = [(k, s2) for k, s2 in enumerate(stmts[:i]) if isinstance(s2, ast.Assign) and len(s2.targets) == 1 and isinstance(s2.targets[0], ast.Name)
                                    and s2.targets[0].id == ce.id]
                            uses = [n for n in ast.walk(fn) if isinstance(n, ast.Name) and n.id == ce.id]
                            if len(defs) != 1 or len(uses) != 2:
                                continue
                            ctor_at, cst = defs[0]
                            call = cst.value
                        else:
                            call = ce
                        if not (isinstance(call, ast.Call) and isinstance(call.func, ast.Name) and call.func.id in cands and not call.keywords):
                            continue
                        c, d = cands[call.func.id]
                        if d["async"] != isinstance(st, ast.AsyncWith) or len(call.args) != len(d["params"]):
                            continue
                        if not all(simple(a) for a in call.args):
                            continue
                        if asv is not None and d["enter_ret"] is None:
                            continue
                        if asv is not None and d["ret_self"]:
                            continue  # the object itself escapes into the body
                        roots = set()
                        for a in call.args:
                            r_ = a
                            while isinstance(r_, ast.Attribute):
                                r_ = r_.value
                            roots.add(r_.id)
                        span = stmts[(ctor_at if ctor_at is not None else i):i + 1]
                        span_stores = {n.id for b in span for n in ast.walk(b) if isinstance(n, ast.Name) and isinstance(n.ctx, (ast.Store, ast.Del))} - \
                            ({ce.id} if isinstance(ce, ast.Name) else set()) - ({asv.id} if asv is not None else set())
                        if roots & span_stores:
                            continue
                        argof = dict(zip(d["params"], call.args))
                        caller_names = {n.id for n in ast.walk(fn) if isinstance(n, ast.Name)} | set(_params(fn))
                        tag = c.name.strip("_")
                        # attribute locals; the attribute that __enter__ hands out lives in the `as` name
                        local = {}
                        er = d["enter_ret"]
                        handed = er.attr if (asv is not None and isinstance(er, ast.Attribute) and isinstance(er.value, ast.Name) and er.value.id == d["enter_self"]) else None
                        if handed is not None and sum(1 for n in ast.walk(fn) if isinstance(n, ast.Name) and n.id == asv.id and isinstance(n.ctx, (ast.Store, ast.Del))) != 1:
                            handed = None
                        clash = False
                        for a_, _v in d["attrs"]:
                            nm = asv.id if a_ == handed else f"{a_.strip('_')}__{tag}"
                            if a_ != handed and nm in caller_names:
                                clash = True
                            local[a_] = nm
                        if clash:
                            continue
                        body_locals = set()
                        for part in (d["enter"], d["exit"]):
                            for b in part:
                                for n in ast.walk(b):
                                    if isinstance(n, ast.Name) and isinstance(n.ctx, (ast.Store, ast.Del)):
                                        body_locals.add(n.id)
                        ren = {x: f"{x}__{tag}" for x in body_locals if x in caller_names}

                        def conv(node, me, with_params):
                            class S(ast.NodeTransformer):
                                def visit_Attribute(self, n):
                                    if isinstance(n.value, ast.Name) and n.value.id == me and n.attr in local:
                                        return ast.copy_location(ast.Name(local[n.attr], n.ctx), n)
                                    self.generic_visit(n)
                                    return n

                                def visit_Name(self, n):
                                    if with_params and n.id in argof and isinstance(n.ctx, ast.Load):
                                        return ast.copy_location(copy.deepcopy(argof[n.id]), n)
                                    if not with_params and n.id in ren:
                                        return ast.copy_location(ast.Name(ren[n.id], n.ctx), n)
                                    return n
                            return S().visit(copy.deepcopy(node))
                        pre = []
                        for a_, v in d["attrs"]:
                            x = ast.Assign([ast.Name(local[a_], ast.Store())], conv(v, d["init_self"], True), lineno=st.lineno)
                            pre.append(ast.copy_location(x, st))
                        ent = [conv(b, d["enter_self"], False) for b in d["enter"]]
                        if asv is not None and handed is None:
                            ent.append(ast.copy_location(ast.Assign([ast.Name(asv.id, ast.Store())], conv(er, d["enter_self"], False), lineno=st.lineno), st))
                        fin = [conv(b, d["exit_self"], False) for b in d["exit"]] or [ast.Pass()]
                        new = ast.copy_location(ast.Try(body=st.body, handlers=[], orelse=[], finalbody=fin), st)
                        for x in pre + ent + [new]:
                            ast.copy_location(x, st)
                            ast.fix_missing_locations(x)
                        if ctor_at is not None:
                            stmts[i:i + 1] = ent + [new]
                            stmts[ctor_at:ctor_at + 1] = pre
                        else:
                            stmts[i:i + 1] = pre + ent + [new]
                        rep.other.append(f"`with {c.name}(...)` in {scn + '.' if scn else ''}{fn.name} read as the try/finally it packages")
                        changed = True
                        break
                    if changed:
                        break
        for name, (c, _) in cands.items():
            if not any(isinstance(x, ast.Name) and x.id == name for m in modules.values() for x in ast.walk(m.tree)) and c in mod.tree.body:
                mod.tree.body.remove(c)


# ---------------------------------------------------------------------------------------------- N26 tuple assignment / N6b
def split_tuple_assign(modules, known, rep):
    """a new `a, b = (e1, e2)` over plain names, where no value reads a target assigned before it, is `a = e1; b = e2` (`x = x` dropped)"""
    for rel, sc, fn in all_functions(modules):
        kh = _known_hashes(known, rel, sc, fn)
        if kh is None:
            continue
        for owner, fld, stmts in list(_blocks(fn)):
            i = 0
            while i < len(stmts):
                st = stmts[i]
                if isinstance(st, ast.Assign) and len(st.targets) == 1 and isinstance(st.targets[0], ast.Tuple) and isinstance(st.value, ast.Tuple) \
                        and len(st.targets[0].elts) == len(st.value.elts) and all(isinstance(t, ast.Name) for t in st.targets[0].elts) and _is_fresh(st, fn, kh) \
                        and not any(isinstance(v, ast.Starred) for v in st.value.elts):
                    tl = [t.id for t in st.targets[0].elts]
                    safe = True
                    for j, v in enumerate(st.value.elts):
                        for n in ast.walk(v):
                            if isinstance(n, ast.Name) and n.id in tl[:j] and not (isinstance(st.value.elts[tl.index(n.id)], ast.Name) and st.value.elts[tl.index(n.id)].id == n.id):
                                safe = False
                    if safe and len(set(tl)) == len(tl):
                        new = []
                        for t, v in zip(tl, st.value.elts):
                            if isinstance(v, ast.Name) and v.id == t:
                                continue
                            a = ast.copy_location(ast.Assign([ast.Name(t, ast.Store())], v, lineno=st.lineno), st)
                            ast.fix_missing_locations(a)
                            new.append(a)
                        stmts[i:i + 1] = new or [ast.copy_location(ast.Pass(), st)]
                        rep.other.append(f"tuple assignment at {rel}:{st.lineno} read element-wise")
                        i += len(new) or 1
                        continue
                # the same with attribute targets of plain names (`self.a, self.b = (self.b, None)`): no value reads a target assigned before it
                if isinstance(st, ast.Assign) and len(st.targets) == 1 and isinstance(st.targets[0], ast.Tuple) and isinstance(st.value, ast.Tuple) \
                        and len(st.targets[0].elts) == len(st.value.elts) and _is_fresh(st, fn, kh) \
                        and all(isinstance(t, ast.Attribute) and isinstance(t.value, ast.Name) for t in st.targets[0].elts) \
                        and not any(isinstance(v, ast.Starred) for v in st.value.elts):
                    tt = [ast.unparse(t) for t in st.targets[0].elts]
                    safe = len(set(tt)) == len(tt)
                    for j, v in enumerate(st.value.elts):
                        vtxt = {ast.unparse(x) for x in ast.walk(v) if isinstance(x, ast.Attribute)}
                        if vtxt & set(tt[:j]) or any(isinstance(x, (ast.Call, ast.Await)) for x in ast.walk(v)):
                            safe = False
                    if safe:
                        new = []
                        for t, v in zip(st.targets[0].elts, st.value.elts):
                            a = ast.copy_location(ast.Assign([t], v, lineno=st.lineno), st)
                            ast.fix_missing_locations(a)
                            new.append(a)
                        stmts[i:i + 1] = new
                        rep.other.append(f"tuple assignment of attributes at {rel}:{st.lineno} read element-wise")
                        i += len(new)
                        continue
                i += 1


def propagate_block_constants(modules, known, rep):
    """A new local that is only ever given literal constants, each read standing in the same block behind the assignment that
    feeds it (nothing stores it in between): the reads are those constants.

        if d == OUT: sql = 'A'; run(sql)            if d == OUT: run('A')
        elif d == IN: sql = 'B'; run(sql)     =>    elif d == IN: run('B')
    """
    kl = known.get("locals") or {}
    for rel, sc, fn in all_functions(modules):
        key = f"{rel}::{sc}.{fn.name}"
        if key not in kl:
            continue
        known_locals = set(kl[key])
        params = set(_params(fn))
        if any(isinstance(x, FUNC) and x is not fn for x in ast.walk(fn)):
            continue
        in_lambda = {n.id for lam in ast.walk(fn) if isinstance(lam, ast.Lambda) for n in ast.walk(lam) if isinstance(n, ast.Name)}
        cands = {}
        for n in ast.walk(fn):
            if isinstance(n, ast.Name) and isinstance(n.ctx, (ast.Store, ast.Del)) and n.id not in known_locals and n.id not in params:
                cands.setdefault(n.id, 0)
                cands[n.id] += 1
        for t in sorted(cands):
            if t in in_lambda:
                continue
            defs = [a for a in ast.walk(fn) if isinstance(a, ast.Assign) and len(a.targets) == 1 and isinstance(a.targets[0], ast.Name) and a.targets[0].id == t]
            def _immutable_literal(v):
                from .normalize import _literal_like
                if isinstance(v, ast.Constant):
                    return isinstance(v.value, (str, int, bytes))
                if isinstance(v, ast.Tuple):
                    return all(_immutable_literal(e) or (_literal_like(e) and isinstance(e, (ast.Name, ast.Lambda, ast.Attribute))) for e in v.elts)
                return False
            if len(defs) != cands[t] or len(defs) < 2 or not all(_immutable_literal(a.value) for a in defs):
                continue
            loads = [n for n in ast.walk(fn) if isinstance(n, ast.Name) and n.id == t and isinstance(n.ctx, ast.Load)]
            covered = {}
            for owner, fld, stmts in _blocks(fn):
                cur = None
                for st in stmts:
                    if st in defs:
                        cur = st
                        continue
                    if cur is None:
                        continue
                    inner_store = any(isinstance(n, ast.Name) and n.id == t and isinstance(n.ctx, (ast.Store, ast.Del)) for n in ast.walk(st))
                    if inner_store:
                        cur = None
                        continue
                    if isinstance(st, (ast.While, ast.For, ast.AsyncFor)):
                        pass  # no store of t inside: the value is the same on every iteration
                    for n in ast.walk(st):
                        if isinstance(n, ast.Name) and n.id == t and isinstance(n.ctx, ast.Load):
                            covered[id(n)] = cur
            if not loads or any(id(n) not in covered for n in loads):
                continue

            class S(ast.NodeTransformer):
                def visit_Name(self, node):
                    if id(node) in covered:
                        return ast.copy_location(copy.deepcopy(covered[id(node)].value), node)
                    return node
            fn.body = [S().visit(st) for st in fn.body]
            for owner, fld, stmts in list(_blocks(fn)):
                for a in defs:
                    if a in stmts:
                        stmts.remove(a)
                        if not stmts:
                            stmts.append(ast.copy_location(ast.Pass(), a))
            rep.other.append(f"block-local constant `{t}` in {sc + '.' if sc else ''}{fn.name} propagated to its {len(loads)} read(s)")


# ---------------------------------------------------------------------------------------------- N27 unpacked rows
def index_unpacked_rows(modules, known, rep):
    """a new `a, b, c = <row expression>` / `for a, b, c in <rows>` over three or more plain names is the row kept in one new local
    and taken apart by position: `row__a = <row expression>; a = row__a[0]; b = row__a[1]; c = row__a[2]` (the element assignments
    are then ordinary fresh locals: N6 puts `row__a[k]` where a name that is stored nowhere else is read)."""
    for rel, sc, fn in all_functions(modules):
        kh = _known_hashes(known, rel, sc, fn)
        if kh is None:
            continue
        if any(isinstance(x, FUNC + (ast.Lambda,)) and x is not fn for x in ast.walk(fn)):
            continue
        params = set(_params(fn))
        for owner, fld, stmts in list(_blocks(fn)):
            i = 0
            while i < len(stmts):
                n = stmts[i]
                i += 1
                tgt = None
                if isinstance(n, ast.Assign) and len(n.targets) == 1 and isinstance(n.targets[0], ast.Tuple) and not isinstance(n.value, (ast.Tuple, ast.List)) \
                        and _is_fresh(n, fn, kh) and not (isinstance(n.value, ast.Call) and isinstance(n.value.func, ast.Attribute) and n.value.func.attr == "decode"):
                    tgt = n.targets[0]   # (the codec's (message, consumed, raw) triple keeps its unpacked form: the reader rules are anchored on it)
                elif isinstance(n, ast.For) and isinstance(n.target, ast.Tuple) and _is_fresh(n, fn, kh):
                    tgt = n.target
                if tgt is None or len(tgt.elts) < 3 or not all(isinstance(e, ast.Name) for e in tgt.elts):
                    continue
                names = [e.id for e in tgt.elts]
                if len(set(names)) != len(names):
                    continue
                all_names = {m.id for m in ast.walk(fn) if isinstance(m, ast.Name)} | params
                row = f"row__{next((x for x in names if x != '_'), 'x')}"
                if row in all_names:
                    continue
                new_t = ast.copy_location(ast.Name(row, ast.Store()), tgt)
                parts = []
                for k, x in enumerate(names):
                    if x == "_":
                        continue
                    a_ = ast.copy_location(ast.Assign([ast.Name(x, ast.Store())], ast.Subscript(ast.Name(row, ast.Load()), ast.Constant(k), ast.Load()), lineno=n.lineno), n)
                    ast.fix_missing_locations(a_)
                    parts.append(a_)
                if isinstance(n, ast.Assign):
                    n.targets[0] = new_t
                    stmts[i:i] = parts
                    i += len(parts)
                else:
                    n.target = new_t
                    n.body[0:0] = parts
                ast.fix_missing_locations(n)
                rep.other.append(f"row unpacked into {names} in {sc + '.' if sc else ''}{fn.name} read by position")


# ---------------------------------------------------------------------------------------------- N28 boolean accumulation
def expand_bool_accumulate(modules, known, rep):
    """a new `x = x or <comparison>` on a local that only ever holds booleans (every other assignment is True / False / such a form)
    is `if <comparison>: x = True`; `x = x and <comparison>` is `if not <comparison>: x = False` (the comparison is over plain names /
    constants: evaluating it when x already decides the result changes nothing)."""
    def quiet(e):
        return isinstance(e, ast.Compare) and all(isinstance(x, (ast.Name, ast.Constant)) or (isinstance(x, ast.Attribute) and isinstance(x.value, ast.Name))
                                                  for x in [e.left] + e.comparators) and \
            all(isinstance(o, (ast.Eq, ast.NotEq, ast.Lt, ast.LtE, ast.Gt, ast.GtE, ast.Is, ast.IsNot)) for o in e.ops)
    for rel, sc, fn in all_functions(modules):
        kh = _known_hashes(known, rel, sc, fn)
        if kh is None:
            continue
        for owner, fld, stmts in list(_blocks(fn)):
            for i, st in enumerate(stmts):
                if not (isinstance(st, ast.Assign) and len(st.targets) == 1 and isinstance(st.targets[0], ast.Name) and isinstance(st.value, ast.BoolOp)
                        and len(st.value.values) == 2 and isinstance(st.value.values[0], ast.Name) and st.value.values[0].id == st.targets[0].id
                        and quiet(st.value.values[1]) and _is_fresh(st, fn, kh)):
                    continue
                x = st.targets[0].id
                others = [a for a in ast.walk(fn) if isinstance(a, ast.Assign) and any(isinstance(t, ast.Name) and t.id == x for t in a.targets) and a is not st]
                n_stores = sum(1 for n in ast.walk(fn) if isinstance(n, ast.Name) and n.id == x and isinstance(n.ctx, (ast.Store, ast.Del)))
                if n_stores != len(others) + 1 or x in _params(fn):
                    continue

                def boolish(a):
                    v = a.value
                    return (isinstance(v, ast.Constant) and isinstance(v.value, bool)) or \
                        (isinstance(v, ast.BoolOp) and len(v.values) == 2 and isinstance(v.values[0], ast.Name) and v.values[0].id == x and quiet(v.values[1])) or quiet(v)
                if not others or not all(len(a.targets) == 1 and boolish(a) for a in others):
                    continue
                c = st.value.values[1]
                if isinstance(st.value.op, ast.Or):
                    new = ast.If(c, [ast.Assign([ast.Name(x, ast.Store())], ast.Constant(True), lineno=st.lineno)], [])
                else:
                    new = ast.If(ast.UnaryOp(ast.Not(), c), [ast.Assign([ast.Name(x, ast.Store())], ast.Constant(False), lineno=st.lineno)], [])
                ast.copy_location(new, st)
                ast.fix_missing_locations(new)
                stmts[i] = new
                rep.other.append(f"`{x} = {x} {'or' if isinstance(st.value.op, ast.Or) else 'and'} ...` in {fn.name} read as a conditional assignment")


# ---------------------------------------------------------------------------------------------- N29 tiny lists
def unroll_small_lists(modules, known, rep):
    """(a) a new local list that is created empty and then only appended to by plain statements of the same block, each appended value a
    plain name nobody assigns afterwards, and that is used for nothing but ONE following `for x in L:` of that block, is the display of the
    appended names; (b) a new `for x in [e]:` / `for x in (e,):` over one plain name, without break / continue / else, is `x = e; BODY`."""
    for rel, sc, fn in all_functions(modules):
        kh = _known_hashes(known, rel, sc, fn)
        if kh is None:
            continue
        if any(isinstance(x, FUNC + (ast.Lambda,)) and x is not fn for x in ast.walk(fn)):
            continue
        changed = True
        rounds = 0
        while changed and rounds < 6:
            changed = False
            rounds += 1
            for owner, fld, stmts in list(_blocks(fn)):
                # (a)
                for i, st in enumerate(stmts):
                    if not (isinstance(st, ast.Assign) and len(st.targets) == 1 and isinstance(st.targets[0], ast.Name) and isinstance(st.value, ast.List) and not st.value.elts
                            and _is_fresh(st, fn, kh)):
                        continue
                    L = st.targets[0].id
                    uses = [n for n in ast.walk(fn) if isinstance(n, ast.Name) and n.id == L]
                    apps, loop = [], None
                    ok = True
                    for k in range(i + 1, len(stmts)):
                        s2 = stmts[k]
                        mentions = any(isinstance(n, ast.Name) and n.id == L for n in ast.walk(s2))
                        if not mentions:
                            continue
                        if isinstance(s2, ast.Expr) and isinstance(s2.value, ast.Call) and isinstance(s2.value.func, ast.Attribute) and s2.value.func.attr == "append" \
                                and isinstance(s2.value.func.value, ast.Name) and s2.value.func.value.id == L and len(s2.value.args) == 1 and isinstance(s2.value.args[0], ast.Name) \
                                and loop is None:
                            apps.append((k, s2.value.args[0]))
                        elif isinstance(s2, ast.For) and isinstance(s2.iter, ast.Name) and s2.iter.id == L and loop is None \
                                and not any(isinstance(n, ast.Name) and n.id == L for b in s2.body + s2.orelse for n in ast.walk(b)):
                            loop = (k, s2)
                        else:
                            ok = False
                            break
                    if not ok or loop is None or not apps or len(uses) != 1 + len(apps) + 1:
                        continue
                    # the appended names keep their value up to the loop
                    lk = loop[0]
                    stable = True
                    for k, nm in apps:
                        for s3 in stmts[k + 1:lk]:
                            if any(isinstance(n, ast.Name) and n.id == nm.id and isinstance(n.ctx, (ast.Store, ast.Del)) for n in ast.walk(s3)):
                                stable = False
                    if not stable:
                        continue
                    loop[1].iter = ast.copy_location(ast.List([ast.Name(nm.id, ast.Load()) for _, nm in apps], ast.Load()), loop[1].iter)
                    ast.fix_missing_locations(loop[1])
                    for k, _ in reversed(apps):
                        del stmts[k]
                    del stmts[i]
                    rep.other.append(f"list `{L}` built by {len(apps)} append(s) in {fn.name} read as a display at its loop")
                    changed = True
                    break
                if changed:
                    break
                # (b)
                for i, st in enumerate(stmts):
                    if isinstance(st, ast.For) and not st.orelse and isinstance(st.target, ast.Name) and isinstance(st.iter, (ast.List, ast.Tuple)) and len(st.iter.elts) == 1 \
                            and isinstance(st.iter.elts[0], ast.Name) and _is_fresh(st, fn, kh) \
                            and not any(isinstance(n, (ast.Break, ast.Continue)) for b in st.body for n in ast.walk(b)):
                        e = st.iter.elts[0]
                        first = ast.copy_location(ast.Assign([ast.Name(st.target.id, ast.Store())], e, lineno=st.lineno), st)
                        ast.fix_missing_locations(first)
                        stmts[i:i + 1] = ([first] if e.id != st.target.id else []) + st.body
                        rep.other.append(f"loop over the one-element display at {rel}:{st.lineno} read as its body")
                        changed = True
                        break
                if changed:
                    break


def drop_ascii_fast_path(modules, known, rep):
    """a new `if s.isascii(): t = s.encode('ascii') else: <... t = s.encode('latin-1') ...>` is its else arm: for an ASCII string the
    latin-1 encoding is the same bytes and cannot fail"""
    for rel, sc, fn in all_functions(modules):
        kh = _known_hashes(known, rel, sc, fn)
        if kh is None:
            continue
        for owner, fld, stmts in list(_blocks(fn)):
            for i, st in enumerate(stmts):
                if not (isinstance(st, ast.If) and _is_fresh(st, fn, kh) and isinstance(st.test, ast.Call) and isinstance(st.test.func, ast.Attribute)
                        and st.test.func.attr == "isascii" and isinstance(st.test.func.value, ast.Name) and not st.test.args and len(st.body) == 1 and st.orelse):
                    continue
                sname = st.test.func.value.id
                a = st.body[0]
                if not (isinstance(a, ast.Assign) and len(a.targets) == 1 and isinstance(a.targets[0], ast.Name) and isinstance(a.value, ast.Call)
                        and isinstance(a.value.func, ast.Attribute) and a.value.func.attr == "encode" and ast.unparse(a.value.func.value) == sname
                        and len(a.value.args) == 1 and isinstance(a.value.args[0], ast.Constant) and str(a.value.args[0].value).lower() in ("ascii", "us-ascii")
                        and not a.value.keywords):
                    continue
                t = a.targets[0].id
                wide = [x for b in st.orelse for x in ast.walk(b) if isinstance(x, ast.Assign) and len(x.targets) == 1 and isinstance(x.targets[0], ast.Name)
                        and x.targets[0].id == t and isinstance(x.value, ast.Call) and isinstance(x.value.func, ast.Attribute) and x.value.func.attr == "encode"
                        and ast.unparse(x.value.func.value) == sname and len(x.value.args) == 1 and isinstance(x.value.args[0], ast.Constant)
                        and str(x.value.args[0].value).lower() in ("latin-1", "latin1", "iso-8859-1", "iso8859-1", "l1", "utf-8", "utf8") and not x.value.keywords]
                stores = [x for b in st.orelse for x in ast.walk(b) if isinstance(x, ast.Name) and x.id == t and isinstance(x.ctx, ast.Store)]
                if len(wide) != 1 or len(stores) != 1:
                    continue
                stmts[i:i + 1] = st.orelse
                rep.other.append(f"ASCII fast path of `{t}` in {fn.name} read as the general encoding")
                break


def fold_constant_tests(modules, known, rep):
    """`if` statements whose test the earlier passes have turned into a constant (`None is not None and ...` after a default argument
    was put in) are the branch that is taken; a lone `pass` left among other statements goes."""
    for rel, sc, fn in all_functions(modules):
        if _known_hashes(known, rel, sc, fn) is None:
            continue
        for owner, fld, stmts in list(_blocks(fn)):
            new = _simplify(list(stmts))
            new = [x for x in new if not isinstance(x, ast.Pass)] or new[:1]
            if len(new) != len(stmts) or any(a is not b for a, b in zip(new, stmts)):
                stmts[:] = new or [ast.Pass()]
        if getattr(fn, "_inl_names", None):
            fn.body = [_fold_arith().visit(st) for st in fn.body]
        ast.fix_missing_locations(fn)


def expand_flag_from_test(modules, known, rep):
    """a new `flag = <comparison>` on a local whose other assignments are all True / False is `if <comparison>: flag = True else: flag = False`
    (the comparison is evaluated once either way; comparisons of numbers / strings yield a bool)."""
    for rel, sc, fn in all_functions(modules):
        kh = _known_hashes(known, rel, sc, fn)
        if kh is None:
            continue
        for owner, fld, stmts in list(_blocks(fn)):
            for i, st in enumerate(stmts):
                if not (isinstance(st, ast.Assign) and len(st.targets) == 1 and isinstance(st.targets[0], ast.Name) and isinstance(st.value, ast.Compare)
                        and len(st.value.ops) == 1 and isinstance(st.value.ops[0], (ast.Eq, ast.NotEq, ast.Lt, ast.LtE, ast.Gt, ast.GtE)) and _is_fresh(st, fn, kh)):
                    continue
                x = st.targets[0].id
                others = [a for a in ast.walk(fn) if isinstance(a, ast.Assign) and any(isinstance(t, ast.Name) and t.id == x for t in a.targets) and a is not st]
                n_stores = sum(1 for n in ast.walk(fn) if isinstance(n, ast.Name) and n.id == x and isinstance(n.ctx, (ast.Store, ast.Del)))
                if not others or n_stores != len(others) + 1 or x in _params(fn):
                    continue
                if not all(len(a.targets) == 1 and isinstance(a.value, ast.Constant) and isinstance(a.value.value, bool) for a in others):
                    continue
                if any(isinstance(n, (ast.Await, ast.NamedExpr, ast.Yield)) for n in ast.walk(st.value)):
                    continue
                new = ast.If(st.value, [ast.Assign([ast.Name(x, ast.Store())], ast.Constant(True), lineno=st.lineno)],
                             [ast.Assign([ast.Name(x, ast.Store())], ast.Constant(False), lineno=st.lineno)])
                ast.copy_location(new, st)
                ast.fix_missing_locations(new)
                stmts[i] = new
                rep.other.append(f"`{x} = <comparison>` in {fn.name} read as the if/else that sets the flag")


# ---------------------------------------------------------------------------------------------- N24 augmented assignment
def expand_augassign(modules, known, rep):
    """a new `x -= c` / `x += c` on a plain local with a numeric constant is `x = x - c` (no in-place form exists for numbers)"""
    for rel, sc, fn in all_functions(modules):
        kh = _known_hashes(known, rel, sc, fn)
        if kh is None:
            continue
        for owner, fld, stmts in list(_blocks(fn)):
            for i, st in enumerate(stmts):
                if isinstance(st, ast.AugAssign) and isinstance(st.target, ast.Name) and isinstance(st.op, (ast.Add, ast.Sub)) and isinstance(st.value, ast.Constant) \
                        and isinstance(st.value.value, (int, float)) and not isinstance(st.value.value, bool) and _is_fresh(st, fn, kh):
                    new = ast.copy_location(ast.Assign([ast.Name(st.target.id, ast.Store())], ast.BinOp(ast.Name(st.target.id, ast.Load()), st.op, st.value), None), st)
                    ast.fix_missing_locations(new)
                    stmts[i] = new
                    rep.other.append(f"`{st.target.id} {'+' if isinstance(st.op, ast.Add) else '-'}= {st.value.value}` in {fn.name} read as a plain assignment")


# ---------------------------------------------------------------------------------------------- N23 None sentinels
_CLASS_NAMES: set = set()
_NEVER_NONE_CALLS = {"int", "str", "float", "len", "bool", "bytes", "list", "dict", "set", "tuple", "repr", "abs", "sum", "frozenset", "sorted"}


_EXC_NAMES: set = set()   # `except E as name` names of the function being processed: an exception object, never None


def _never_none(e) -> bool:
    if isinstance(e, ast.Constant):
        return e.value is not None
    if isinstance(e, ast.Name) and e.id in _EXC_NAMES:
        return True
    if isinstance(e, (ast.BinOp, ast.UnaryOp, ast.Compare, ast.JoinedStr, ast.List, ast.Tuple, ast.Dict, ast.Set, ast.ListComp, ast.DictComp,
                      ast.SetComp, ast.Lambda)):
        return True
    if isinstance(e, ast.Call) and isinstance(e.func, ast.Name) and (e.func.id in _NEVER_NONE_CALLS or e.func.id in _CLASS_NAMES):
        return True  # a builtin conversion, or the construction of an instance of one of the package's classes
    return False


def _in_try_body(fn, node) -> bool:
    """node stands (at any depth) in the body of a try statement that has handlers: an exception it raises may be caught in this function"""
    parents = {}
    for p in ast.walk(fn):
        for c in ast.iter_child_nodes(p):
            parents[id(c)] = p
    n = node
    while id(n) in parents:
        p = parents[id(n)]
        if isinstance(p, ast.Try) and p.handlers and any(n is x for x in p.body):
            return True
        n = p
    return False


def _derefs(st, t: str) -> bool:
    """the simple statement evaluates `t[...]` or `t.<attr>` unconditionally (not under and/or, a conditional expression, a comprehension
    or a lambda) and does not assign t"""
    if any(isinstance(n, ast.Name) and n.id == t and isinstance(n.ctx, (ast.Store, ast.Del)) for n in ast.walk(st)):
        return False

    def rec(n, cond):
        if isinstance(n, (ast.Lambda, ast.ListComp, ast.SetComp, ast.DictComp, ast.GeneratorExp)):
            return False
        if isinstance(n, (ast.Subscript, ast.Attribute)) and isinstance(n.value, ast.Name) and n.value.id == t and isinstance(n.ctx, ast.Load) and not cond:
            return True
        if isinstance(n, ast.BoolOp):
            return rec(n.values[0], cond) or any(rec(v, True) for v in n.values[1:])
        if isinstance(n, ast.IfExp):
            return rec(n.test, cond) or rec(n.body, True) or rec(n.orelse, True)
        return any(rec(c, cond) for c in ast.iter_child_nodes(n))
    return rec(st, False)


def _visibly_positive(e, at_stmt, fn) -> bool:
    """a sum whose terms are lengths, non-negative integer literals and int(x) of a local x that the enclosing branches have tested with
    x.isdigit(), with at least one positive literal (or the length of a non-empty literal): greater than 0"""
    terms = []

    def flat(x):
        if isinstance(x, ast.BinOp) and isinstance(x.op, ast.Add):
            flat(x.left)
            flat(x.right)
        else:
            terms.append(x)
    flat(e)
    if len(terms) < 2:
        return False
    parents = {}
    for p_ in ast.walk(fn):
        for c_ in ast.iter_child_nodes(p_):
            parents[id(c_)] = p_
    if id(at_stmt) not in parents:
        # the statement is a working copy: the guards are read at the one statement of the function with the same text
        txt0 = ast.unparse(at_stmt)
        same = [x for x in ast.walk(fn) if isinstance(x, ast.stmt) and type(x) is type(at_stmt) and ast.unparse(x) == txt0]
        if len(same) != 1:
            return False
        at_stmt = same[0]

    def digits_known(name):
        n = at_stmt
        while id(n) in parents:
            p_ = parents[id(n)]
            if isinstance(p_, ast.If):
                txt = ast.unparse(p_.test)
                in_body = any(n is y for y in p_.body)
                in_else = any(n is y for y in p_.orelse)
                if f"{name}.isdigit()" in txt:
                    neg = isinstance(p_.test, ast.UnaryOp) and isinstance(p_.test.op, ast.Not)
                    inner = p_.test.operand if neg else p_.test
                    conj = inner.values if isinstance(inner, ast.BoolOp) and isinstance(inner.op, ast.And) else [inner]
                    if any(ast.unparse(v_) == f"{name}.isdigit()" for v_ in conj) and ((neg and in_else) or (not neg and in_body)):
                        return True
            n = p_
        return False
    positive = False
    for t_ in terms:
        if isinstance(t_, ast.Constant) and isinstance(t_.value, int) and not isinstance(t_.value, bool) and t_.value >= 0:
            positive = positive or t_.value > 0
        elif isinstance(t_, ast.Call) and isinstance(t_.func, ast.Name) and t_.func.id == "len" and len(t_.args) == 1:
            if isinstance(t_.args[0], ast.Constant) and isinstance(t_.args[0].value, (str, bytes)) and len(t_.args[0].value) > 0:
                positive = True
        elif isinstance(t_, ast.Call) and isinstance(t_.func, ast.Name) and t_.func.id == "int" and len(t_.args) == 1 and isinstance(t_.args[0], ast.Name) \
                and digits_known(t_.args[0].id):
            pass
        else:
            return False
    return positive


def thread_none_sentinels(modules, known, rep):
    """A new `if t is None: A else: B` directly behind an `if` tree whose every fall-through leaf has just assigned `t` either
    `None` or a value that cannot be None (int(..), arithmetic, a display ...) only re-reads the branch that was taken: A / B
    is appended to those leaves.

        if k not in m: t = None                 if k not in m: t = None; return 0
        else: t = int(m[k])            =>       else: t = int(m[k])
        if t is None: return 0
    """
    _CLASS_NAMES.clear()
    for mod in modules.values():
        for c in mod.tree.body:
            if isinstance(c, ast.ClassDef) and not any(isinstance(m, FUNC) and m.name == "__new__" for m in c.body):
                _CLASS_NAMES.add(c.name)
    for rel, sc, fn in all_functions(modules):
        kh = _known_hashes(known, rel, sc, fn)
        if kh is None:
            continue
        _EXC_NAMES.clear()
        hnames = [h.name for h in ast.walk(fn) if isinstance(h, ast.ExceptHandler) and h.name]
        stored_ = {n.id for n in ast.walk(fn) if isinstance(n, ast.Name) and isinstance(n.ctx, (ast.Store, ast.Del))}
        _EXC_NAMES.update(h for h in hnames if h not in stored_)
        changed = True
        rounds = 0
        while changed and rounds < 8:
            changed = False
            rounds += 1
            for owner, fld, stmts in list(_blocks(fn)):
                for i in range(1, len(stmts)):
                    s1, s2 = stmts[i - 1], stmts[i]
                    if not (isinstance(s1, (ast.If, ast.Try)) and isinstance(s2, ast.If) and _is_fresh(s2, fn, kh)):
                        continue
                    c = s2.test
                    zero = False
                    if isinstance(c, ast.Compare) and len(c.ops) == 1 and isinstance(c.ops[0], (ast.Is, ast.IsNot)) and isinstance(c.left, ast.Name) \
                            and isinstance(c.comparators[0], ast.Constant) and c.comparators[0].value is None:
                        pass
                    elif isinstance(c, ast.Compare) and len(c.ops) == 1 and isinstance(c.ops[0], (ast.Eq, ast.NotEq)) and isinstance(c.left, ast.Name) \
                            and isinstance(c.comparators[0], ast.Constant) and c.comparators[0].value == 0 and not isinstance(c.comparators[0].value, bool) \
                            and isinstance(c.comparators[0].value, int):
                        zero = True  # the sentinel is the number 0 (`if n == 0:`): decided where n was just given 0 or a sum that is visibly positive
                    else:
                        continue
                    t = c.left.id
                    null_arm, other_arm = (s2.body, s2.orelse) if isinstance(c.ops[0], (ast.Is, ast.Eq)) else (s2.orelse, s2.body)

                    def is_sent(v):
                        return isinstance(v, ast.Constant) and ((v.value is None) if not zero else (v.value == 0 and isinstance(v.value, int) and not isinstance(v.value, bool)))

                    def never_sent(v, at_stmt):
                        return _never_none(v) if not zero else _visibly_positive(v, at_stmt, fn)
                    if not any(isinstance(n, ast.Name) and n.id == t and isinstance(n.ctx, ast.Store) for n in ast.walk(s1)):
                        continue
                    state0 = None
                    k = i - 2
                    while k >= 0 and isinstance(stmts[k], (ast.Assign, ast.Expr, ast.AugAssign, ast.AnnAssign)):
                        sk = stmts[k]
                        if isinstance(sk, ast.Assign) and len(sk.targets) == 1 and isinstance(sk.targets[0], ast.Name) and sk.targets[0].id == t:
                            v = sk.value
                            state0 = "null" if is_sent(v) else ("nonnull" if never_sent(v, sk) else None)
                            break
                        if not zero and _derefs(sk, t):
                            state0 = "nonnull"  # `t[...]` / `t.attr` was evaluated there: t is not None since
                            break
                        if any(isinstance(n, ast.Name) and n.id == t and isinstance(n.ctx, (ast.Store, ast.Del)) for n in ast.walk(sk)):
                            break
                        k -= 1
                    failed = False
                    leaves = 0

                    def stores_t(node):
                        return any(isinstance(n, ast.Name) and n.id == t and isinstance(n.ctx, (ast.Store, ast.Del)) for n in ast.walk(node))

                    def refine(state, test, truth):
                        # what leaving the test this way says about t: an instance of something / truthy / `is not None` -> not None
                        from .guards import facts as _facts
                        if zero:
                            return state
                        for a_, tv_ in _facts(test, truth):
                            if tv_ and (re.fullmatch(rf"isinstance\({re.escape(t)}, .+\)", a_) or a_ == t or a_ == f"{t} is not None"):
                                return "nonnull"
                            if tv_ and a_ == f"{t} is None":
                                return "null"
                        return state

                    def thread(block, state):
                        nonlocal failed, leaves
                        out = []
                        for st in block:
                            if isinstance(st, ast.Assign) and len(st.targets) == 1 and isinstance(st.targets[0], ast.Name) and st.targets[0].id == t:
                                v = st.value
                                state = "null" if is_sent(v) else ("nonnull" if never_sent(v, st) else None)
                                out.append(st)
                                continue
                            if stores_t(st):
                                if isinstance(st, ast.If) and st is block[-1] and not stores_t(st.test):
                                    st.body = thread(st.body, refine(state, st.test, True))
                                    st.orelse = thread(st.orelse, refine(state, st.test, False))
                                    out.append(st)
                                    return out
                                if isinstance(st, ast.Try) and st is block[-1] and not st.finalbody and not any(stores_t(b) for b in st.body):
                                    # what follows the try runs after its `else:` (no exception) or after a handler; it is not covered by the handlers
                                    st.orelse = thread(st.orelse, state)
                                    for hd in st.handlers:
                                        hd.body = thread(hd.body, state)
                                    out.append(st)
                                    return out
                                failed = True
                            out.append(st)
                        if not _exits(out):
                            if state is None:
                                failed = True
                            else:
                                leaves += 1
                                out.extend(copy.deepcopy(null_arm if state == "null" else other_arm))
                        return out
                    s1c = copy.deepcopy(s1)
                    new_s1 = thread([s1c], state0)
                    if failed or leaves > 8:
                        continue
                    new_s1 = [x for x in new_s1 if not isinstance(x, ast.Pass)] or new_s1
                    for x in new_s1:
                        for blk in ast.walk(x):
                            if isinstance(blk, ast.If) and not blk.body:
                                blk.body = [ast.copy_location(ast.Pass(), blk)]
                        ast.fix_missing_locations(x)
                    stmts[i - 1:i + 1] = new_s1

                    def drop_dead(block):
                        # `t = None` directly followed by another plain assignment of t that does not read t: the sentinel was only there to be tested
                        k2 = 0
                        while k2 + 1 < len(block):
                            a_, b_ = block[k2], block[k2 + 1]
                            if isinstance(a_, ast.Assign) and len(a_.targets) == 1 and isinstance(a_.targets[0], ast.Name) and a_.targets[0].id == t \
                                    and is_sent(a_.value) \
                                    and isinstance(b_, ast.Assign) and len(b_.targets) == 1 and isinstance(b_.targets[0], ast.Name) and b_.targets[0].id == t \
                                    and not any(isinstance(n, ast.Name) and n.id == t for n in ast.walk(b_.value)):
                                del block[k2]
                                continue
                            # ... or by statements that leave the function (return / raise) without mentioning t: nothing reads the sentinel on that way out
                            if isinstance(a_, ast.Assign) and len(a_.targets) == 1 and isinstance(a_.targets[0], ast.Name) and a_.targets[0].id == t \
                                    and is_sent(a_.value) and _exits(block) \
                                    and not any(isinstance(n, ast.Name) and n.id == t for r_ in block[k2 + 1:] for n in ast.walk(r_)) \
                                    and not _in_try_body(fn, b_) and not any(isinstance(n, (ast.Break, ast.Continue)) for r_ in block[k2 + 1:] for n in ast.walk(r_)):
                                del block[k2]
                                continue
                            k2 += 1
                        for b_ in block:
                            for fld2 in ("body", "orelse", "finalbody"):
                                sub = getattr(b_, fld2, None)
                                if isinstance(sub, list) and sub and isinstance(sub[0], ast.stmt):
                                    drop_dead(sub)
                            for hd_ in getattr(b_, "handlers", []) or []:
                                drop_dead(hd_.body)
                    drop_dead(stmts)
                    rep.other.append(f"None sentinel `{t}` in {sc + '.' if sc else ''}{fn.name} threaded into the {leaves} branch(es) that set it")
                    changed = True
                    break
                if changed:
                    break


# ---------------------------------------------------------------------------------------------- N18 keyed table arms
def expand_keyed_arms(modules, known, rep):
    """fresh `if x in {K1: v1, K2: v2}: BODY using {…}[x]` (constant str keys, x a local that is a real str: `.upper()` /
    `str()` result) is the chain `if x == K1: BODY[v1] elif x == K2: BODY[v2]`; a call `f(a, **{'k': c})` is `f(a, k=c)`."""
    for rel, sc, fn in all_functions(modules):
        kh = _known_hashes(known, rel, sc, fn)
        if kh is None:
            continue
        strs = set()
        for n in ast.walk(fn):
            if isinstance(n, ast.Assign) and len(n.targets) == 1 and isinstance(n.targets[0], ast.Name) and isinstance(n.value, ast.Call) and \
                    ((isinstance(n.value.func, ast.Attribute) and n.value.func.attr in ("upper", "lower", "strip")) or
                     (isinstance(n.value.func, ast.Name) and n.value.func.id == "str")):
                strs.add(n.targets[0].id)
        changed = True
        while changed:
            changed = False
            for owner, fld, stmts in list(_blocks(fn)):
                for i, st in enumerate(stmts):
                    if not (isinstance(st, ast.If) and isinstance(st.test, ast.Compare) and len(st.test.ops) == 1 and isinstance(st.test.ops[0], ast.In)
                            and isinstance(st.test.left, ast.Name) and st.test.left.id in strs and isinstance(st.test.comparators[0], ast.Dict)):
                        continue
                    table = st.test.comparators[0]
                    x = st.test.left.id
                    if not table.keys or not all(isinstance(k, ast.Constant) and isinstance(k.value, str) for k in table.keys):
                        continue
                    tdump = ast.dump(table)
                    if any(isinstance(n, ast.Name) and n.id == x and isinstance(n.ctx, ast.Store) for b in st.body for n in ast.walk(b)):
                        continue
                    node = st.orelse
                    for k, v in reversed(list(zip(table.keys, table.values))):
                        class S(ast.NodeTransformer):
                            def visit_Subscript(self, nd):
                                self.generic_visit(nd)
                                if isinstance(nd.ctx, ast.Load) and isinstance(nd.value, ast.Dict) and ast.dump(nd.value) == tdump \
                                        and isinstance(nd.slice, ast.Name) and nd.slice.id == x:
                                    return ast.copy_location(copy.deepcopy(v), nd)
                                return nd

                            def visit_Call(self, nd):
                                self.generic_visit(nd)
                                kws = []
                                for kw in nd.keywords:
                                    if kw.arg is None and isinstance(kw.value, ast.Dict) and all(isinstance(kk, ast.Constant) and isinstance(kk.value, str) for kk in kw.value.keys):
                                        kws += [ast.keyword(kk.value, vv) for kk, vv in zip(kw.value.keys, kw.value.values)]
                                    else:
                                        kws.append(kw)
                                nd.keywords = kws
                                return nd
                        body = [S().visit(copy.deepcopy(b)) for b in st.body]
                        test = ast.Compare(ast.Name(x, ast.Load()), [ast.Eq()], [copy.deepcopy(k)])
                        new = ast.copy_location(ast.If(test, body, node), st)
                        node = [new]
                    for n in node:
                        ast.fix_missing_locations(n)
                    stmts[i:i + 1] = node
                    rep.other.append(f"keyed table arm `{x} in {{...}}` at {rel}:{st.lineno} read as an if/elif chain over its {len(table.keys)} keys")
                    changed = True
                    break
                if changed:
                    break


# ---------------------------------------------------------------------------------------------- N22 conditional joins
def resolve_conditional_joins(modules, known, rep):
    """A new local defined only as `if c: x = a else: x = b` (c a plain local or its negation, a / b plain locals or constants)
    is, at each statement that uses it, that statement under the same test: `S(x)` -> `if c: S(a) else: S(b)` - provided c, a and b
    are not assigned between the definition and the use."""
    kl = known.get("locals") or {}
    for rel, sc, fn in all_functions(modules):
        key = f"{rel}::{sc}.{fn.name}"
        if key not in kl:
            continue
        known_locals = set(kl[key])
        params = set(_params(fn))
        order = _preorder(fn)
        done = True
        rounds = 0
        while done and rounds < 6:
            done = False
            rounds += 1
            for owner, fld, stmts in list(_blocks(fn)):
                for i, st in enumerate(stmts):
                    if not (isinstance(st, ast.If) and len(st.body) == 1 and len(st.orelse) == 1):
                        continue
                    a_, b_ = st.body[0], st.orelse[0]
                    if not all(isinstance(z, ast.Assign) and len(z.targets) == 1 and isinstance(z.targets[0], ast.Name) for z in (a_, b_)):
                        continue
                    x = a_.targets[0].id
                    if b_.targets[0].id != x or x in known_locals or x in params:
                        continue
                    if not all(isinstance(z.value, (ast.Name, ast.Constant)) for z in (a_, b_)):
                        continue
                    c = st.test
                    cn = c.operand if isinstance(c, ast.UnaryOp) and isinstance(c.op, ast.Not) else c
                    if not isinstance(cn, ast.Name):
                        continue
                    stores_x = [n for n in ast.walk(fn) if isinstance(n, ast.Name) and n.id == x and isinstance(n.ctx, (ast.Store, ast.Del))]
                    if len(stores_x) != 2:
                        continue
                    watch = {cn.id} | {z.value.id for z in (a_, b_) if isinstance(z.value, ast.Name)}
                    dpos = order[id(st)]
                    uses = [n for n in ast.walk(fn) if isinstance(n, ast.Name) and n.id == x and isinstance(n.ctx, ast.Load)]
                    if not uses:
                        continue
                    last_use = max(order[id(u)] for u in uses)
                    if any(isinstance(n, ast.Name) and n.id in watch and isinstance(n.ctx, (ast.Store, ast.Del)) and dpos < order.get(id(n), -1) < last_use
                           and not any(n is y for y in ast.walk(st)) for n in ast.walk(fn)):
                        continue
                    # every use sits in a simple statement (return / assign / expression) of some block
                    targets = []
                    ok = True
                    for owner2, fld2, stmts2 in list(_blocks(fn)):
                        for k2, s2 in enumerate(stmts2):
                            if s2 is st:
                                continue
                            direct = isinstance(s2, (ast.Return, ast.Assign, ast.Expr, ast.AugAssign))
                            if direct and any(u is y for u in uses for y in ast.walk(s2)):
                                targets.append((stmts2, s2))
                    covered = {id(u) for stmts2, s2 in targets for u in uses if any(u is y for y in ast.walk(s2))}
                    if covered != {id(u) for u in uses}:
                        continue
                    for stmts2, s2 in targets:
                        def spec(v):
                            class S(ast.NodeTransformer):
                                def visit_Name(self, node):
                                    if node.id == x and isinstance(node.ctx, ast.Load):
                                        return ast.copy_location(copy.deepcopy(v), node)
                                    return node
                            return S().visit(copy.deepcopy(s2))
                        new = ast.copy_location(ast.If(copy.deepcopy(c), [spec(a_.value)], [spec(b_.value)]), s2)
                        ast.fix_missing_locations(new)
                        stmts2[stmts2.index(s2)] = new
                    stmts.remove(st)
                    if not stmts:
                        stmts.append(ast.Pass())
                    rep.other.append(f"conditional join `{x}` in {sc + '.' if sc else ''}{fn.name} resolved at its {len(targets)} use(s)")
                    done = True
                    order = _preorder(fn)
                    break
                if done:
                    break


# ---------------------------------------------------------------------------------------------- N20 tuple locals
def split_tuple_locals(modules, known, rep):
    """A new local that is only ever assigned tuple displays of one arity and only read as `t[<constant index>]` is that many
    scalar locals (`t = (a, b)` -> `t__0 = a; t__1 = b`, `t[1]` -> `t__1`)."""
    kl = known.get("locals") or {}
    for rel, sc, fn in all_functions(modules):
        key = f"{rel}::{sc}.{fn.name}"
        if key not in kl:
            continue
        known_locals = set(kl[key])
        params = set(_params(fn))
        kh = _known_hashes(known, rel, sc, fn)
        if kh is None:
            continue
        cands = {}
        for n in ast.walk(fn):
            if isinstance(n, ast.Assign) and len(n.targets) == 1 and isinstance(n.targets[0], ast.Name):
                t = n.targets[0].id
                if t in params or (t in known_locals and not _is_fresh(n, fn, kh)):
                    cands[t] = None
                    continue
                if t in cands and cands[t] is None:
                    continue
                if isinstance(n.value, ast.Tuple) and not any(isinstance(e, ast.Starred) for e in n.value.elts):
                    cands.setdefault(t, []).append(n)
                else:
                    cands[t] = None
        for t, defs in list(cands.items()):
            if not defs:
                continue
            k = len(defs[0].value.elts)
            if any(len(d.value.elts) != k for d in defs):
                continue
            uses_ok = True
            all_stores = [n for n in ast.walk(fn) if isinstance(n, ast.Name) and n.id == t and isinstance(n.ctx, (ast.Store, ast.Del))]
            if len(all_stores) != len(defs):
                continue
            parents = {}
            for p_ in ast.walk(fn):
                for c_ in ast.iter_child_nodes(p_):
                    parents[id(c_)] = p_
            for n in ast.walk(fn):
                if isinstance(n, ast.Name) and n.id == t and isinstance(n.ctx, ast.Load):
                    p_ = parents.get(id(n))
                    if not (isinstance(p_, ast.Subscript) and p_.value is n and isinstance(p_.ctx, ast.Load) and isinstance(p_.slice, ast.Constant)
                            and isinstance(p_.slice.value, int) and 0 <= p_.slice.value < k):
                        uses_ok = False
            if not uses_ok:
                continue
            names = [f"{t}__{i}" for i in range(k)]
            # element values must not read the scalars being assigned in the same statement (they do not exist before)
            for owner, fld, stmts in list(_blocks(fn)):
                for i, st in enumerate(list(stmts)):
                    if st in defs:
                        idx = stmts.index(st)
                        new = [ast.copy_location(ast.Assign([ast.Name(nm, ast.Store())], v, lineno=st.lineno), st) for nm, v in zip(names, st.value.elts)]
                        for x in new:
                            ast.fix_missing_locations(x)
                        stmts[idx:idx + 1] = new

            class S(ast.NodeTransformer):
                def visit_Subscript(self, node):
                    self.generic_visit(node)
                    if isinstance(node.value, ast.Name) and node.value.id == t and isinstance(node.slice, ast.Constant):
                        return ast.copy_location(ast.Name(names[node.slice.value], ast.Load()), node)
                    return node
            fn.body = [S().visit(st) for st in fn.body]
            rep.other.append(f"tuple local `{t}` in {sc + '.' if sc else ''}{fn.name} read as {k} scalar locals")


# ---------------------------------------------------------------------------------------------- N5 / N6 fresh locals
def _class_attr_stores(modules):
    """class -> method -> set of self-attributes stored; class -> method -> set of self-methods called."""
    stores, calls, bases = {}, {}, {}
    for mod in modules.values():
        for c in mod.tree.body:
            if not isinstance(c, ast.ClassDef):
                continue
            bases[c.name] = [b.id if isinstance(b, ast.Name) else getattr(b, "attr", None) for b in c.bases]
            for m in c.body:
                if not isinstance(m, FUNC):
                    continue
                s, k = set(), set()
                for n in ast.walk(m):
                    if isinstance(n, ast.Attribute) and isinstance(n.value, ast.Name) and n.value.id == "self":
                        if isinstance(n.ctx, (ast.Store, ast.Del)):
                            s.add(n.attr)
                    if isinstance(n, ast.Call) and isinstance(n.func, ast.Attribute) and isinstance(n.func.value, ast.Name) and n.func.value.id == "self":
                        k.add(n.func.attr)
                stores.setdefault(c.name, {})[m.name] = s
                calls.setdefault(c.name, {})[m.name] = k
    return stores, calls, bases


def _family(cls, bases):
    """The class, its package-defined ancestors and descendants (an attribute of self may be written by any of them)."""
    fam = {cls}
    changed = True
    while changed:
        changed = False
        for c, bs in bases.items():
            if c in fam:
                for b in bs:
                    if b in bases and b not in fam:
                        fam.add(b)
                        changed = True
            elif any(b in fam for b in bs):
                fam.add(c)
                changed = True
    return fam


def _pure(e, stable) -> bool:
    if isinstance(e, ast.Constant):
        return True
    if isinstance(e, ast.Lambda) and not (e.args.args or e.args.vararg or e.args.kwarg or e.args.kwonlyargs) and isinstance(e.body, ast.Constant):
        return True
    if isinstance(e, ast.Name):
        return e.id in stable
    if isinstance(e, (ast.Tuple, ast.List, ast.Set)):
        return all(_pure(x, stable) for x in e.elts)
    if isinstance(e, ast.Attribute):  # Enum member; or a read of the object's own attribute (state: see _reads_state / _no_effect_between)
        return isinstance(e.value, ast.Name) and (e.value.id[:1].isupper() or e.value.id == "self")
    if isinstance(e, ast.Subscript) and isinstance(e.value, ast.Name) and (e.value.id.startswith("row__") or e.value.id in _PRIVATE_ROWS) and isinstance(e.slice, ast.Constant):
        return e.value.id in stable  # a position of a row local (introduced by N27, or a row just fetched from a cursor): only ever read by position
    if isinstance(e, ast.Compare):
        return _pure(e.left, stable) and all(_pure(c, stable) for c in e.comparators)
    if isinstance(e, ast.BoolOp):
        return all(_pure(v, stable) for v in e.values)
    if isinstance(e, ast.BinOp):
        return _pure(e.left, stable) and _pure(e.right, stable)
    if isinstance(e, ast.UnaryOp):
        return _pure(e.operand, stable)
    if isinstance(e, ast.Call) and isinstance(e.func, ast.Name) and e.func.id in PURE_CALLS and not e.keywords:
        return all(_pure(a, stable) for a in e.args)
    if isinstance(e, ast.Call) and isinstance(e.func, ast.Attribute) and e.func.attr == "get" and len(e.args) == 2 and not e.keywords \
            and isinstance(e.func.value, ast.Name) and e.func.value.id in stable:
        # X.get(key, default): a read that cannot fail
        return all(_pure(a, stable) for a in e.args)
    return False


_PRIVATE_ROWS: set = set()


def _private_rows(fn) -> set:
    """locals that hold a row just fetched from a DB cursor (loop variable over a cursor / fetchall(), `next(cursor)`, fetchone()) and are
    only ever read by constant position: a fresh tuple nothing else refers to"""
    cand = set()
    for n in ast.walk(fn):
        if isinstance(n, ast.For) and isinstance(n.target, ast.Name) and re.search(r"cursor|fetchall\(|fetchmany\(", ast.unparse(n.iter)):
            cand.add(n.target.id)
        if isinstance(n, ast.Assign) and len(n.targets) == 1 and isinstance(n.targets[0], ast.Name) and isinstance(n.value, ast.Call) \
                and re.fullmatch(r"next\(.*cursor.*\)|.*\.fetchone\(\)", ast.unparse(n.value)):
            cand.add(n.targets[0].id)
    out = set()
    for c in cand:
        uses = [x for x in ast.walk(fn) if isinstance(x, ast.Name) and x.id == c and isinstance(x.ctx, ast.Load)]
        subs = [x for x in ast.walk(fn) if isinstance(x, ast.Subscript) and isinstance(x.value, ast.Name) and x.value.id == c and isinstance(x.slice, ast.Constant)
                and isinstance(x.ctx, ast.Load)]
        if uses and len(uses) == len(subs):
            out.add(c)
    return out


def propagate_fresh_locals(modules, known, rep):
    kl = known.get("locals") or {}
    stores, calls, bases = _class_attr_stores(modules)
    for rel, sc, fn in all_functions(modules):
        key = f"{rel}::{sc}.{fn.name}"
        if key not in kl:
            continue
        _PRIVATE_ROWS.clear()
        _PRIVATE_ROWS.update(_private_rows(fn))
        known_locals = set(kl[key])  # dict name -> [stores, loads]
        if any(isinstance(x, FUNC) and x is not fn for x in ast.walk(fn)):
            continue
        if any(isinstance(x, ast.Lambda) and not isinstance(x.body, ast.Constant) for x in ast.walk(fn)):
            continue
        params = set(_params(fn))
        count, val, node_of = {}, {}, {}
        for n in ast.walk(fn):
            if isinstance(n, ast.Name) and isinstance(n.ctx, (ast.Store, ast.Del)):
                count[n.id] = count.get(n.id, 0) + 1
            elif isinstance(n, ast.ExceptHandler) and n.name:
                count[n.name] = count.get(n.name, 0) + 1
            if isinstance(n, ast.Assign) and len(n.targets) == 1 and isinstance(n.targets[0], ast.Name):
                val[n.targets[0].id] = n.value
                node_of[n.targets[0].id] = n
        stored_params = {p for p in params if count.get(p)}
        for name in sorted(val):
            if name in known_locals or name in params or count.get(name) != 1:
                continue
            defn = node_of[name]
            v = defn.value  # (read now: an earlier substitution of this pass may have rewritten it)
            ok = False
            why = ""
            if isinstance(v, ast.Attribute) and isinstance(v.value, ast.Name) and v.value.id == "self" and sc and "self" not in stored_params:
                # N5: construction-time binding - nobody of the class family rebinds it outside __init__ / parsing set-up,
                #     and nothing reachable from this function does
                attr = v.attr
                fam = _family(sc, bases)
                writers = {(c, m) for c in fam for m, s in stores.get(c, {}).items() if attr in s}
                reach, todo = set(), [fn.name]
                while todo:
                    m = todo.pop()
                    if m in reach:
                        continue
                    reach.add(m)
                    for c in fam:
                        todo.extend(calls.get(c, {}).get(m, ()))
                suspends = isinstance(fn, ast.AsyncFunctionDef)
                if not any(m in reach for _, m in writers) and (not suspends or all(m == "__init__" for _, m in writers)):
                    ok, why = True, f"alias of the binding self.{attr}"
            if not ok:
                # N6: side-effect-free value over operands that are not assigned after the definition
                order0 = _preorder(fn)
                stable = set()
                for nm in {x.id for x in ast.walk(v) if isinstance(x, ast.Name)}:
                    later = [x for x in ast.walk(fn) if isinstance(x, ast.Name) and x.id == nm and isinstance(x.ctx, (ast.Store, ast.Del))
                             and order0.get(id(x), 1 << 30) > order0[id(defn)]]
                    in_loop_before = False
                    if not later:
                        stable.add(nm)
                # the definition must not sit in a loop whose body re-assigns an operand (covered by `later` for stores after it;
                # stores earlier in the same loop body execute again before the next evaluation - exclude loops altogether
                # unless every operand is never stored in that loop)
                p_ok = _pure(v, stable)
                if p_ok:
                    loop = _enclosing_loop(fn, defn)
                    if loop is not None:
                        inner_stores = {x.id for x in ast.walk(loop) if isinstance(x, ast.Name) and isinstance(x.ctx, (ast.Store, ast.Del))}
                        if {x.id for x in ast.walk(v) if isinstance(x, ast.Name)} & (inner_stores - {name}):
                            # operands change per iteration: fine only if every use is in the same iteration after the def,
                            # i.e. inside the loop body and textually after the definition
                            uses = [x for x in ast.walk(fn) if isinstance(x, ast.Name) and x.id == name and isinstance(x.ctx, ast.Load)]
                            order = _preorder(fn)
                            p_ok = all(_inside(loop, u) and order[id(u)] > order[id(defn)] for u in uses)
                if p_ok and _reads_state(v) and not _no_effect_between(fn, defn, name):
                    # the value reads object state (attributes, items, membership, len): it may only be re-evaluated at a use if nothing
                    # with an effect can run between the definition and that use
                    p_ok = False
                if p_ok and isinstance(v, (ast.List, ast.Set, ast.Dict, ast.ListComp, ast.SetComp, ast.DictComp)):
                    # a mutable object has an identity: only a read-only one (membership tests, iteration, indexing, len) is its display
                    p_ok = _readonly_in(fn, name)
                ok, why = p_ok, "single side-effect-free definition"
            if not ok:
                continue
            uses = 0
            for owner, fld, stmts in list(_blocks(fn)):
                if defn in stmts:
                    stmts.remove(defn)
                    if not stmts:
                        stmts.append(ast.copy_location(ast.Pass(), defn))

            class S(ast.NodeTransformer):
                def visit_Subscript(self, node):
                    nonlocal uses
                    # `t[k]` of a tuple display of plain names / constants is its k-th element
                    if isinstance(node.value, ast.Name) and node.value.id == name and isinstance(node.ctx, ast.Load) and isinstance(v, ast.Tuple) \
                            and isinstance(node.slice, ast.Constant) and isinstance(node.slice.value, int) and -len(v.elts) <= node.slice.value < len(v.elts) \
                            and all(isinstance(e_, (ast.Name, ast.Constant)) for e_ in v.elts):
                        uses += 1
                        return ast.copy_location(copy.deepcopy(v.elts[node.slice.value]), node)
                    self.generic_visit(node)
                    return node

                def visit_Name(self, node):
                    nonlocal uses
                    if node.id == name and isinstance(node.ctx, ast.Load):
                        uses += 1
                        return ast.copy_location(copy.deepcopy(v), node)
                    return node
            fn.body = [S().visit(s) for s in fn.body]
            rep.other.append(f"new local `{name}` in {sc + '.' if sc else ''}{fn.name} replaced by its value in {uses} use(s) ({why})")


def _reads_state(e) -> bool:
    for x in ast.walk(e):
        if isinstance(x, ast.Subscript) and isinstance(x.value, ast.Name) and (x.value.id.startswith("row__") or x.value.id in _PRIVATE_ROWS) and isinstance(x.slice, ast.Constant):
            continue  # a position of a private row local (N27 / fetched row): nothing else refers to that object
        if isinstance(x, (ast.Attribute, ast.Subscript)) and not (isinstance(x, ast.Attribute) and isinstance(x.value, ast.Name) and x.value.id[:1].isupper()):
            return True
        if isinstance(x, ast.Compare) and any(isinstance(o, (ast.In, ast.NotIn)) for o in x.ops) and not all(
                isinstance(c, (ast.Tuple, ast.List, ast.Set, ast.Constant)) for c in x.comparators):
            return True
        if isinstance(x, ast.Call) and not (isinstance(x.func, ast.Name) and x.func.id in ("str", "int", "bool", "isinstance", "frozenset", "tuple", "set", "min", "max", "abs")):
            return True
    return False


def _no_effect_between(fn, defn, name: str) -> bool:
    """No statement with an effect (a call that is not a pure builtin, an await, a store to an attribute / item, a delete) can run
    after the definition and before a use: such a node lies between them in source order and is not confined to the other arm
    of an `if` that the use is in."""
    order = _preorder(fn)
    parents = {}
    for p in ast.walk(fn):
        for c in ast.iter_child_nodes(p):
            parents[id(c)] = p

    def chain(n):
        out = []
        while id(n) in parents:
            p = parents[id(n)]
            out.append((p, n))
            n = p
        return out
    effects = []
    for n in ast.walk(fn):
        if isinstance(n, ast.Await) or isinstance(n, ast.Delete) \
                or (isinstance(n, ast.Call) and not (isinstance(n.func, ast.Name) and n.func.id in PURE_CALLS)) \
                or (isinstance(n, (ast.Attribute, ast.Subscript)) and isinstance(n.ctx, (ast.Store, ast.Del))):
            effects.append(n)
    dpos = max(order[id(x)] for x in ast.walk(defn) if isinstance(x, (ast.expr, ast.stmt)))
    uses = [x for x in ast.walk(fn) if isinstance(x, ast.Name) and x.id == name and isinstance(x.ctx, ast.Load)]
    for u in uses:
        upos = order[id(u)]
        uchain = chain(u)
        for e in effects:
            epos = order[id(e)]
            if not (dpos < epos < upos):
                continue
            # confined to the other arm of an if the use is in?
            echain = chain(e)
            # evaluated while building the exception of a `raise` that no handler of this function can catch: control does not come back
            if any(isinstance(pe, ast.Raise) for pe, _ in echain) and not any(isinstance(pe, ast.Try) and pe.handlers and any(ce is x for x in pe.body) for pe, ce in echain):
                continue
            other_arm = False
            for (pe, ce) in echain:
                if isinstance(pe, ast.If):
                    for (pu, cu) in uchain:
                        if pu is pe:
                            e_in_body = any(ce is x for x in pe.body)
                            e_in_else = any(ce is x for x in pe.orelse)
                            u_in_body = any(cu is x for x in pe.body)
                            u_in_else = any(cu is x for x in pe.orelse)
                            if (e_in_body and u_in_else) or (e_in_else and u_in_body):
                                other_arm = True
            if not other_arm:
                return False
    return True


def _readonly_in(fn, name: str) -> bool:
    parents = {}
    for p in ast.walk(fn):
        for c in ast.iter_child_nodes(p):
            parents[id(c)] = p
    for n in ast.walk(fn):
        if not (isinstance(n, ast.Name) and n.id == name and isinstance(n.ctx, ast.Load)):
            continue
        p = parents.get(id(n))
        if isinstance(p, ast.Compare) and n in p.comparators and all(isinstance(o, (ast.In, ast.NotIn)) for o in p.ops):
            continue
        if isinstance(p, (ast.For, ast.comprehension)) and p.iter is n:
            continue
        if isinstance(p, ast.Subscript) and p.value is n and isinstance(p.ctx, ast.Load):
            continue
        if isinstance(p, ast.Call) and isinstance(p.func, ast.Name) and p.func.id in ("len", "sorted", "frozenset", "tuple", "min", "max", "sum", "any", "all") and n in p.args:
            continue
        return False
    return True


def _preorder(fn) -> dict:
    """id(node) -> position in a depth-first, source-order walk."""
    out = {}

    def rec(n):
        out[id(n)] = len(out)
        for c in ast.iter_child_nodes(n):
            rec(c)
    rec(fn)
    return out


def _enclosing_loop(fn, target):
    found = None

    def walk(node, loop):
        nonlocal found
        for ch in ast.iter_child_nodes(node):
            if ch is target:
                found = loop
                return
            walk(ch, ch if isinstance(ch, (ast.For, ast.While, ast.AsyncFor)) else loop)
    walk(fn, None)
    return found


def _inside(container, node) -> bool:
    return any(x is node for x in ast.walk(container))


# ---------------------------------------------------------------------------------------------- snapshot additions
def snapshot_extra(modules) -> dict:
    params, locs = {}, {}
    for rel, sc, fn in all_functions(modules):
        key = f"{rel}::{sc}.{fn.name}"
        if key in params:
            continue  # property setter shares the name: the getter is the known one
        params[key] = _params(fn)
        locs[key] = _local_use(fn)
    return {"params": params, "locals": locs}


def _local_use(fn) -> dict:
    """local name -> [stores, loads] (parameters excluded)."""
    params = set(_params(fn))
    use = {}
    for n in ast.walk(fn):
        if isinstance(n, ast.Name) and n.id not in params:
            u = use.setdefault(n.id, [0, 0])
            u[0 if isinstance(n.ctx, (ast.Store, ast.Del)) else 1] += 1
        elif isinstance(n, ast.ExceptHandler) and n.name:
            use.setdefault(n.name, [0, 0])[0] += 1
    return {k: v for k, v in use.items() if v[0] > 0}


def undo_local_renames(modules, known, rep):
    """A known local vanished from a function and exactly one new local with the same number of stores and loads
    appeared: the same local under a new name."""
    kl = known.get("locals") or {}
    for rel, sc, fn in all_functions(modules):
        want = kl.get(f"{rel}::{sc}.{fn.name}")
        if not isinstance(want, dict):
            continue
        have = _local_use(fn)
        vanished = {k: tuple(v) for k, v in want.items() if k not in have}
        fresh = {k: tuple(v) for k, v in have.items() if k not in want}
        if not vanished or not fresh:
            continue
        allnames = {n.id for n in ast.walk(fn) if isinstance(n, ast.Name)}
        for old, sig in sorted(vanished.items()):
            cands = [f for f, s2 in fresh.items() if s2 == sig]
            if len(cands) != 1 or [o for o, s2 in vanished.items() if s2 == sig] != [old] or old in allnames:
                continue
            new = cands[0]
            for n in ast.walk(fn):
                if isinstance(n, ast.Name) and n.id == new:
                    n.id = old
                elif isinstance(n, ast.ExceptHandler) and n.name == new:
                    n.name = old
            del fresh[new]
            rep.renamed.append((f"{sc + '.' if sc else ''}{fn.name} local", new, old))
