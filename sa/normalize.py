"""Load-time normalisation of behaviour-preserving refactorings (runs before any rule sees the trees).

The rules are anchored on the functions and module constants that exist on the tree on which they were confirmed
(`sa/known_names.json`, written by tools/known_names.py).  A maintainer's clean-up introduces *new* names; three
kinds are undone here so that the rules analyse the same program in the shape they know:

  N3  a known function vanished and exactly one new function of the same class has (nearly) its body: it is the
      old function under a new name -> every definition / reference is renamed back;
  N2  a new module-level or class-level constant (assigned once, literal-like value) is folded into its uses;
      `x in frozenset({...})` is a plain membership test on the literal;
  N1  a new helper function is inlined at its call sites (statement, assignment and return positions; single
      trailing `return`, or tail position), and dropped when every call site was inlined.

Nothing here decides a property; a helper that cannot be inlined simply stays a call.  What was normalised is kept
in `Report` and printed with the evidence.
"""
from __future__ import annotations

import ast
import copy
import hashlib
import json
import os

KNOWN = os.path.join(os.path.dirname(__file__), "known_names.json")
FUNC = (ast.FunctionDef, ast.AsyncFunctionDef)
ENUMS: set = set()  # names of the package's Enum classes (filled per load)


class Report:
    def __init__(self):
        self.renamed = []   # (class, new, old)
        self.folded = []    # (module, name, uses)
        self.inlined = []   # (helper, caller, line)
        self.kept = []      # (helper, reason)
        self.other = []     # free-text lines of the statement-level passes

    def lines(self):
        out = [f"renamed back {c}.{n} -> {o}" for c, n, o in self.renamed]
        out += [f"folded constant {m}:{n} into {u} use(s)" for m, n, u in self.folded]
        out += [f"inlined {h} into {c} (line {ln})" for h, c, ln in self.inlined]
        out += [f"helper {h} left as a call: {r}" for h, r in self.kept]
        out += list(self.other)
        return out


# ---------------------------------------------------------------------------------------------- fingerprints
def stmt_hashes(fn) -> list[str]:
    """Hash of every statement of a function with its own name abstracted away."""
    out = []
    for st in ast.walk(fn):
        if isinstance(st, ast.stmt) and st is not fn:
            d = ast.dump(st, annotate_fields=False).replace(repr(fn.name), "'%SELF%'")
            out.append(hashlib.sha1(d.encode()).hexdigest()[:10])
    return out


def similarity(a: list[str], b: list[str]) -> float:
    if not a or not b:
        return 0.0
    from collections import Counter
    ca, cb = Counter(a), Counter(b)
    inter = sum((ca & cb).values())
    return inter / max(len(a), len(b))


def scopes(tree):
    """(scope name or '', body list, owner node) for the module and each top-level class."""
    yield "", tree.body, tree
    for n in tree.body:
        if isinstance(n, ast.ClassDef):
            yield n.name, n.body, n


def snapshot(modules: dict) -> dict:
    """The table written by tools/known_names.py."""
    funcs, consts = {}, {}
    for rel, mod in sorted(modules.items()):
        for sc, body, _ in scopes(mod.tree):
            for n in body:
                if isinstance(n, FUNC):
                    funcs.setdefault(f"{rel}::{sc}", {}).setdefault(n.name, stmt_hashes(n))
                elif isinstance(n, (ast.Assign, ast.AnnAssign)):
                    for t in (n.targets if isinstance(n, ast.Assign) else [n.target]):
                        if isinstance(t, ast.Name):
                            consts.setdefault(f"{rel}::{sc}", []).append(t.id)
    from . import normalize2
    out = {"functions": funcs, "constants": {k: sorted(set(v)) for k, v in consts.items()}, "attributes": attr_usage(modules)}
    out.update(normalize2.snapshot_extra(modules))
    return out


def attr_usage(modules: dict) -> dict:
    """private attribute name -> sorted list of 'module::Class.method:L|S' use sites (package-wide)."""
    use = {}
    for rel, mod in sorted(modules.items()):
        for sc, body, _ in scopes(mod.tree):
            for fn in body:
                if not isinstance(fn, FUNC):
                    continue
                for n in ast.walk(fn):
                    if isinstance(n, ast.Attribute) and n.attr.startswith("_") and not n.attr.startswith("__"):
                        kind = "S" if isinstance(n.ctx, (ast.Store, ast.Del)) else "L"
                        use.setdefault(n.attr, []).append(f"{rel}::{sc}.{fn.name}:{kind}")
    return {k: sorted(v) for k, v in use.items()}


def load_known():
    if not os.path.exists(KNOWN):
        return None
    with open(KNOWN) as fh:
        return json.load(fh)


# ---------------------------------------------------------------------------------------------- N3 renames
def _rename_everywhere(modules, cls: str, new: str, old: str):
    for mod in modules.values():
        for n in ast.walk(mod.tree):
            if isinstance(n, ast.Attribute) and n.attr == new:
                n.attr = old
            elif isinstance(n, ast.Name) and n.id == new and not cls:
                n.id = old
            elif isinstance(n, FUNC) and n.name == new:
                n.name = old


def undo_renames(modules, known, rep: Report):
    for rel, mod in modules.items():
        for sc, body, _ in scopes(mod.tree):
            kf = known["functions"].get(f"{rel}::{sc}")
            if kf is None:
                continue
            present = {n.name: n for n in body if isinstance(n, FUNC)}
            vanished = [f for f in kf if f not in present]
            fresh = [f for f in present if f not in kf]
            if not vanished or not fresh:
                continue
            # a fresh name must not be in use anywhere else as an attribute of something unrelated: names are
            # private-ish in practice; ambiguity (two candidates) leaves the anchor vanished (ANALYSIS-ERROR)
            for old in vanished:
                scored = sorted(((similarity(kf[old], stmt_hashes(present[g])), g) for g in fresh), reverse=True)
                if not scored or scored[0][0] < 0.6:
                    continue
                if len(scored) > 1 and scored[1][0] >= 0.6:
                    continue
                new = scored[0][1]
                _rename_everywhere(modules, sc, new, old)
                fresh.remove(new)
                rep.renamed.append((sc or rel, new, old))


def undo_moves(modules, known, rep: Report):
    """A known module-level function that became a @staticmethod of a class of the same module (or the reverse):
    the definition is moved back and the call sites are rewritten."""
    for rel, mod in modules.items():
        scs = list(scopes(mod.tree))
        present = {sc: {n.name: n for n in body if isinstance(n, FUNC)} for sc, body, _ in scs}
        bodies = {sc: body for sc, body, _ in scs}
        for sc, body, _ in scs:
            kf = known["functions"].get(f"{rel}::{sc}") or {}
            for old, fp in kf.items():
                if old in present.get(sc, {}):
                    continue
                for sc2, funcs in present.items():
                    if sc2 == sc or old not in funcs or old in (known["functions"].get(f"{rel}::{sc2}") or {}):
                        continue
                    g = funcs[old]
                    if similarity(fp, stmt_hashes(g)) < 0.8:
                        continue
                    decos = [ast.unparse(d) for d in g.decorator_list]
                    if sc == "" and decos == ["staticmethod"]:
                        # staticmethod -> back to a module-level function
                        bodies[sc2].remove(g)
                        g.decorator_list = []
                        idx = next((i for i, n in enumerate(mod.tree.body) if isinstance(n, ast.ClassDef) and n.name == sc2), len(mod.tree.body))
                        mod.tree.body.insert(idx, g)
                        for m2 in modules.values():
                            for n in ast.walk(m2.tree):
                                if isinstance(n, ast.Call) and isinstance(n.func, ast.Attribute) and n.func.attr == old and isinstance(n.func.value, ast.Name) \
                                        and n.func.value.id in (sc2, "self", "cls"):
                                    n.func = ast.copy_location(ast.Name(old, ast.Load()), n.func)
                        rep.renamed.append((rel, f"{sc2}.{old} (staticmethod)", f"{old} (module level)"))
                    elif sc2 == "" and sc and not g.decorator_list:
                        known_static = True
                        # module-level function -> back to a staticmethod of the class
                        mod.tree.body.remove(g)
                        g.decorator_list = [ast.Name("staticmethod", ast.Load())]
                        bodies[sc].append(g)
                        for m2 in modules.values():
                            for n in ast.walk(m2.tree):
                                if isinstance(n, ast.Call) and isinstance(n.func, ast.Name) and n.func.id == old:
                                    n.func = ast.copy_location(ast.Attribute(ast.Name(sc, ast.Load()), old, ast.Load()), n.func)
                        rep.renamed.append((rel, f"{old} (module level)", f"{sc}.{old} (staticmethod)"))
                    present = {s_: {n.name: n for n in b if isinstance(n, FUNC)} for s_, b, _ in scopes(mod.tree)}
                    break


def undo_attr_renames(modules, known, rep: Report):
    ka = known.get("attributes")
    if not ka:
        return
    funcs = {f for v in known["functions"].values() for f in v}
    now = attr_usage(modules)
    # method names are handled by undo_renames; here: data attributes only
    defs_now = {n.name for m in modules.values() for n in ast.walk(m.tree) if isinstance(n, FUNC)}
    vanished = [a for a in ka if a not in now and a not in funcs]
    fresh = [a for a in now if a not in ka and a not in defs_now]
    for old in vanished:
        scored = sorted(((similarity(ka[old], now[g]), g) for g in fresh), reverse=True)
        if not scored or scored[0][0] < 0.7 or (len(scored) > 1 and scored[1][0] >= 0.7):
            continue
        if not any(u.endswith(":S") for u in now[scored[0][1]]) and any(u.endswith(":S") for u in ka[old]):
            continue
        new = scored[0][1]
        for mod in modules.values():
            for n in ast.walk(mod.tree):
                if isinstance(n, ast.Attribute) and n.attr == new:
                    n.attr = old
        fresh.remove(new)
        rep.renamed.append(("attribute", new, old))


# ---------------------------------------------------------------------------------------------- N2 constants
def _literal_like(v) -> bool:
    if isinstance(v, ast.Constant):
        return True
    if isinstance(v, (ast.Tuple, ast.List, ast.Set)):
        return all(_literal_like(e) for e in v.elts)
    if isinstance(v, ast.Dict):
        return all(k is not None and _literal_like(k) and _literal_like(x) for k, x in zip(v.keys, v.values))
    if isinstance(v, ast.Attribute):  # Enum.MEMBER
        return isinstance(v.value, ast.Name) and (v.value.id in ENUMS or (v.value.id[:1].isupper() and v.attr.isupper()))
    if isinstance(v, ast.Call) and isinstance(v.func, ast.Name) and v.func.id in ("frozenset", "tuple", "set") and len(v.args) == 1 and not v.keywords:
        return _literal_like(v.args[0])
    if isinstance(v, ast.Call) and ast.unparse(v.func) == "re.compile" and v.args and all(_literal_like(a) for a in v.args) and not v.keywords:
        return False  # a precompiled pattern is an object with identity: rules resolve those themselves
    if isinstance(v, ast.UnaryOp) and isinstance(v.op, ast.USub):
        return _literal_like(v.operand)
    if isinstance(v, ast.BinOp) and isinstance(v.op, (ast.Add, ast.Mult, ast.Sub)):
        return _literal_like(v.left) and _literal_like(v.right)
    if isinstance(v, ast.JoinedStr):
        return False
    if isinstance(v, ast.Name) and v.id in ("dict", "list", "int", "set", "str", "float", "tuple", "bool", "bytes", "frozenset"):
        return True  # a builtin type used as a value (a factory in a table row)
    if isinstance(v, ast.Lambda) and not (v.args.args or v.args.vararg or v.args.kwarg or v.args.kwonlyargs or v.args.posonlyargs) and _literal_like(v.body) \
            and not isinstance(v.body, (ast.List, ast.Dict, ast.Set)):
        return True  # `lambda: <immutable literal>`
    return False


def _mutable(v) -> bool:
    if isinstance(v, (ast.Dict, ast.List, ast.Set)):
        return True
    if isinstance(v, ast.Call) and isinstance(v.func, ast.Name) and v.func.id == "set":
        return True
    return False


def _readonly_everywhere(modules, name: str) -> bool:
    """Every use of `name` (plain or as attribute) is a membership test, an iteration, a subscript load, `.get(...)`,
    `len(...)`, or the defining assignment."""
    for mod in modules.values():
        parents = {}
        for p in ast.walk(mod.tree):
            for c in ast.iter_child_nodes(p):
                parents[id(c)] = p
        for n in ast.walk(mod.tree):
            hit = (isinstance(n, ast.Name) and n.id == name) or (isinstance(n, ast.Attribute) and n.attr == name)
            if not hit:
                continue
            if isinstance(n.ctx, ast.Store):
                continue
            p = parents.get(id(n))
            if isinstance(p, ast.Compare) and n in p.comparators and all(isinstance(o, (ast.In, ast.NotIn)) for o in p.ops):
                continue
            if isinstance(p, (ast.For, ast.comprehension)) and p.iter is n:
                continue
            if isinstance(p, ast.Subscript) and p.value is n and isinstance(p.ctx, ast.Load):
                continue
            if isinstance(p, ast.Attribute) and p.value is n and p.attr in ("get", "keys", "values", "items") and isinstance(parents.get(id(p)), ast.Call):
                continue
            if isinstance(p, ast.Call) and isinstance(p.func, ast.Name) and p.func.id in ("len", "sorted", "frozenset", "tuple", "list") and n in p.args:
                continue
            if isinstance(p, ast.alias) or isinstance(p, ast.ImportFrom):
                continue
            return False
    return True


def _local_names(fn) -> set:
    names = {a.arg for a in fn.args.args + fn.args.kwonlyargs + fn.args.posonlyargs}
    if fn.args.vararg:
        names.add(fn.args.vararg.arg)
    if fn.args.kwarg:
        names.add(fn.args.kwarg.arg)
    for n in ast.walk(fn):
        if isinstance(n, ast.Name) and isinstance(n.ctx, (ast.Store, ast.Del)):
            names.add(n.id)
        elif isinstance(n, ast.ExceptHandler) and n.name:
            names.add(n.name)
        elif isinstance(n, ast.arg):
            names.add(n.arg)
    return names


class _Subst(ast.NodeTransformer):
    """Replace loads of given plain names / `<owner>.NAME` attributes by a copy of an expression."""

    def __init__(self, names: dict, attrs: dict):
        self.names, self.attrs, self.count = names, attrs, 0

    def visit_Name(self, node):
        if isinstance(node.ctx, ast.Load) and node.id in self.names:
            self.count += 1
            return ast.copy_location(copy.deepcopy(self.names[node.id]), node)
        return node

    def visit_Attribute(self, node):
        self.generic_visit(node)
        if isinstance(node.ctx, ast.Load) and isinstance(node.value, ast.Name):
            key = (node.value.id, node.attr)
            if key in self.attrs:
                self.count += 1
                return ast.copy_location(copy.deepcopy(self.attrs[key]), node)
        return node


def fold_constants(modules, known, rep: Report):
    for rel, mod in modules.items():
        for sc, body, owner in scopes(mod.tree):
            kc = set(known["constants"].get(f"{rel}::{sc}", ()))
            if f"{rel}::{sc}" not in known["constants"] and f"{rel}::{sc}" not in known["functions"] and sc:
                continue  # a whole new class: nothing of it is known, leave it alone
            cand = {}
            stores = {}
            for n in ast.walk(mod.tree):
                if isinstance(n, ast.Name) and isinstance(n.ctx, (ast.Store, ast.Del)):
                    stores[n.id] = stores.get(n.id, 0) + 1
                elif isinstance(n, ast.Attribute) and isinstance(n.ctx, (ast.Store, ast.Del)):
                    stores[n.attr] = stores.get(n.attr, 0) + 1
                elif isinstance(n, (ast.Global, ast.Nonlocal)):
                    for x in n.names:
                        stores[x] = stores.get(x, 0) + 2
            for n in list(body):
                tgt = val = None
                if isinstance(n, ast.Assign) and len(n.targets) == 1 and isinstance(n.targets[0], ast.Name):
                    tgt, val = n.targets[0].id, n.value
                elif isinstance(n, ast.AnnAssign) and isinstance(n.target, ast.Name) and n.value is not None:
                    tgt, val = n.target.id, n.value
                if tgt is None or tgt in kc or tgt.startswith("__") or stores.get(tgt, 0) != 1 or not _literal_like(val):
                    continue
                if _mutable(val) and not _readonly_everywhere(modules, tgt):
                    continue  # a module-level container that is written to is state (a cache, a registry), not a constant
                cand[tgt] = (n, val)
            if not cand:
                continue
            # other modules importing the name: fold there too (from x import NAME)
            for name, (node, val) in cand.items():
                uses = 0
                for rel2, mod2 in modules.items():
                    imported = rel2 == rel or (not sc and any(
                        isinstance(i, ast.ImportFrom) and any(a.name == name and a.asname is None for a in i.names) for i in mod2.tree.body))
                    if not imported:
                        continue
                    for fn in [x for x in ast.walk(mod2.tree) if isinstance(x, FUNC)]:
                        if sc:
                            # class constant: self.NAME / cls.NAME / Class.NAME
                            s = _Subst({}, {("self", name): val, ("cls", name): val, (sc, name): val})
                        else:
                            if name in _local_names(fn):
                                continue
                            s = _Subst({name: val}, {})
                        new_body = [s.visit(st) for st in fn.body]
                        fn.body = new_body
                        uses += s.count
                if uses:
                    rep.folded.append((rel, f"{sc + '.' if sc else ''}{name}", uses))
    # x in frozenset({...}) / tuple([...]) -> x in {...}
    for mod in modules.values():
        for n in ast.walk(mod.tree):
            if isinstance(n, ast.Compare) and len(n.ops) == 1 and isinstance(n.ops[0], (ast.In, ast.NotIn)):
                c = n.comparators[0]
                if (isinstance(c, ast.Call) and isinstance(c.func, ast.Name) and c.func.id in ("frozenset", "set", "tuple")
                        and len(c.args) == 1 and not c.keywords and isinstance(c.args[0], (ast.Set, ast.List, ast.Tuple))):
                    n.comparators[0] = c.args[0]


# ---------------------------------------------------------------------------------------------- N1 inlining
def _simple_expr(e) -> bool:
    if isinstance(e, (ast.Name, ast.Constant)):
        return True
    if isinstance(e, ast.Attribute):
        return _simple_expr(e.value)
    if isinstance(e, ast.Subscript):
        return _simple_expr(e.value) and isinstance(e.slice, ast.Constant)
    return False


class _Rename(ast.NodeTransformer):
    def __init__(self, mapping: dict, subst: dict):
        self.mapping, self.subst = mapping, subst

    def visit_Name(self, node):
        if node.id in self.subst and isinstance(node.ctx, ast.Load):
            return ast.copy_location(copy.deepcopy(self.subst[node.id]), node)
        if node.id in self.mapping:
            node.id = self.mapping[node.id]
        return node

    def visit_ExceptHandler(self, node):
        if node.name in self.mapping:
            node.name = self.mapping[node.name]
        self.generic_visit(node)
        return node


def _returns(fn):
    out = []

    def walk(stmts, depth):
        for s in stmts:
            if isinstance(s, ast.Return):
                out.append((s, depth))
            for fld in ("body", "orelse", "finalbody", "handlers"):
                sub = getattr(s, fld, None)
                if isinstance(sub, list) and not isinstance(s, FUNC + (ast.ClassDef,)):
                    walk([x for x in sub if isinstance(x, ast.stmt)], depth + 1)
                    for h in sub:
                        if isinstance(h, ast.ExceptHandler):
                            walk(h.body, depth + 1)
            if isinstance(s, ast.Match):
                for c in s.cases:
                    walk(c.body, depth + 1)
    walk(fn.body, 0)
    return out


def _bind(helper, call, is_method: bool, static: bool):
    """param -> argument expression, or None when the call cannot be bound statically."""
    a = helper.args
    if a.vararg or a.kwarg or a.posonlyargs:
        return None
    params = [p.arg for p in a.args]
    if is_method and not static:
        params = params[1:]
    if any(isinstance(x, ast.Starred) for x in call.args) or any(k.arg is None for k in call.keywords):
        return None
    if len(call.args) > len(params):
        return None
    bound = dict(zip(params, call.args))
    kwonly = [p.arg for p in a.kwonlyargs]
    for k in call.keywords:
        if k.arg in bound or (k.arg not in params and k.arg not in kwonly):
            return None
        bound[k.arg] = k.value
    defaults = dict(zip([p.arg for p in a.args][len(a.args) - len(a.defaults):], a.defaults))
    for p, d in zip(kwonly, a.kw_defaults):
        if d is not None:
            defaults[p] = d
    for p in params + kwonly:
        if p not in bound:
            if p not in defaults:
                return None
            bound[p] = defaults[p]
    return bound


def _callee_name(call, cls: str):
    f = call.func
    if isinstance(f, ast.Attribute) and isinstance(f.value, ast.Name) and f.value.id in ("self", "cls", cls) and cls:
        return f.attr, f.value.id
    if isinstance(f, ast.Name):
        # a module-level function: called by its bare name from module scope and from the methods of the module's classes
        return ("mod:" + f.id if cls else f.id), None
    return None, None


def _always_exits(stmts) -> bool:
    if not stmts:
        return False
    last = stmts[-1]
    if isinstance(last, (ast.Return, ast.Raise)):
        return True
    if isinstance(last, ast.If):
        return _always_exits(last.body) and _always_exits(last.orelse)
    return False


def _nest_guards(stmts):
    """Guard clauses read as nesting: `if c: ...; return x` followed by REST is `if c: ...; return x  else: REST`
    (the body always leaves the function, so REST runs exactly when c is false)."""
    out = []
    for i, st in enumerate(stmts):
        if isinstance(st, ast.If):
            st.body = _nest_guards(st.body)
            st.orelse = _nest_guards(st.orelse)
            rest = stmts[i + 1:]
            has_ret = any(isinstance(x, ast.Return) for x in ast.walk(st))
            if rest and has_ret:
                # every arm that can fall through continues with (its own copy of) the rest
                if not _always_exits(st.body):
                    st.body = st.body + copy.deepcopy(rest)
                if not _always_exits(st.orelse):
                    st.orelse = st.orelse + copy.deepcopy(rest)
                st.body = _nest_guards(st.body)
                st.orelse = _nest_guards(st.orelse)
                out.append(st)
                return out
        out.append(st)
    return out


def _search_loop(stmts, retname: str):
    """`for x in it: ... if c: return E ...` followed by `return D` (D a constant / plain name) is the search idiom
    `ret = D; for x in it: ... if c: ret = E; break`  followed by `return ret` (returns only under ifs of that loop)."""
    if len(stmts) < 2 or not isinstance(stmts[-1], ast.Return) or not isinstance(stmts[-2], ast.For) or stmts[-2].orelse:
        return stmts
    loop, last = stmts[-2], stmts[-1]
    if last.value is None or not _simple_expr(last.value):
        return stmts
    if any(isinstance(x, ast.Return) for st in stmts[:-2] for x in ast.walk(st)):
        return stmts
    ok = True

    def rewrite(block):
        nonlocal ok
        out = []
        for st in block:
            if isinstance(st, ast.Return):
                if st.value is None:
                    ok = False
                    return block
                out.append(ast.copy_location(ast.Assign([ast.Name(retname, ast.Store())], st.value, lineno=st.lineno), st))
                out.append(ast.copy_location(ast.Break(), st))
                continue
            if isinstance(st, ast.If):
                st.body = rewrite(st.body)
                st.orelse = rewrite(st.orelse)
            elif any(isinstance(x, ast.Return) for x in ast.walk(st)):
                ok = False
            out.append(st)
        return out
    saved = copy.deepcopy(loop.body)
    loop.body = rewrite(loop.body)
    if not ok:
        loop.body = saved
        return stmts
    init = ast.copy_location(ast.Assign([ast.Name(retname, ast.Store())], last.value, lineno=loop.lineno), loop)
    return stmts[:-2] + [init, loop, ast.copy_location(ast.Return(ast.Name(retname, ast.Load())), last)]


def _void_returns(helper):
    """A copy of a procedure (no return values) without `return` statements: a `return` in tail position is dropped, guard
    clauses are read as nesting, and - when the procedure ends in a loop - a `return` inside that loop (not inside a loop nested in
    it) is the `break` of that loop.  None when some `return` is anywhere else."""
    h = copy.deepcopy(helper)
    body = h.body
    start = 1 if body and isinstance(body[0], ast.Expr) and isinstance(body[0].value, ast.Constant) and isinstance(body[0].value.value, str) else 0
    rest = body[start:]
    ok = True

    def in_final_loop(block):
        """returns under ifs (not under further loops / try) of a loop body -> break"""
        nonlocal ok
        out = []
        for st in block:
            if isinstance(st, ast.Return):
                out.append(ast.copy_location(ast.Break(), st))
                continue
            if isinstance(st, ast.If):
                st.body = in_final_loop(st.body)
                st.orelse = in_final_loop(st.orelse)
            elif any(isinstance(x, ast.Return) for x in ast.walk(st)):
                ok = False
            out.append(st)
        return out
    if rest and isinstance(rest[-1], (ast.While, ast.For)) and not rest[-1].orelse and any(isinstance(x, ast.Return) for x in ast.walk(rest[-1])):
        rest[-1].body = in_final_loop(rest[-1].body)
        if not ok:
            return None
    rest = _nest_guards_void(rest)

    def tail(stmts):
        nonlocal ok
        for st in stmts[:-1]:
            if any(isinstance(x, ast.Return) for x in ast.walk(st)):
                ok = False
        if not stmts:
            return
        last = stmts[-1]
        if isinstance(last, ast.Return):
            stmts[-1] = ast.copy_location(ast.Pass(), last)
        elif isinstance(last, ast.If):
            tail(last.body)
            tail(last.orelse)
        elif isinstance(last, ast.Try) and not last.finalbody and not last.orelse:
            tail(last.body)
            for hd in last.handlers:
                tail(hd.body)
        elif isinstance(last, ast.Try) and not last.finalbody and last.orelse:
            if any(isinstance(x, ast.Return) for b in last.body for x in ast.walk(b)):
                ok = False
            tail(last.orelse)
            for hd in last.handlers:
                tail(hd.body)
        elif isinstance(last, ast.With):
            tail(last.body)
        elif any(isinstance(x, ast.Return) for x in ast.walk(last)):
            ok = False
    tail(rest)
    if not ok:
        return None
    h.body = body[:start] + (rest or [ast.Pass()])
    ast.fix_missing_locations(h)
    return h


def _nest_guards_void(stmts):
    """as _nest_guards, for procedures: `if c: ...; return` followed by REST is `if c: ... else: REST`"""
    out = []
    for i, st in enumerate(stmts):
        if isinstance(st, ast.If):
            st.body = _nest_guards_void(st.body)
            st.orelse = _nest_guards_void(st.orelse)
            rest = stmts[i + 1:]
            if rest and any(isinstance(x, ast.Return) for x in ast.walk(st)):
                if not _always_exits(st.body):
                    st.body = st.body + copy.deepcopy(rest)
                if not _always_exits(st.orelse):
                    st.orelse = st.orelse + copy.deepcopy(rest)
                st.body = _nest_guards_void(st.body)
                st.orelse = _nest_guards_void(st.orelse)
                out.append(st)
                return out
        out.append(st)
    return out


def _nest_try(stmts):
    """`try: B except E: <always returns / raises>` followed by more statements: those statements run exactly when B raised nothing, which
    is the `else:` of the try (an exception of theirs is not caught by its handlers, as before)."""
    for k, st in enumerate(stmts):
        if isinstance(st, ast.Try) and not st.finalbody and not st.orelse and st.handlers and all(_always_exits(hd.body) for hd in st.handlers) \
                and not _always_exits(st.body) and stmts[k + 1:] and not any(isinstance(x, ast.Return) for b in st.body for x in ast.walk(b)):
            st.orelse = _nest_try(stmts[k + 1:])
            return stmts[:k + 1]
    return stmts


def _tailify(helper, retname: str):
    """A copy of the helper whose `return e` statements - all in structural tail position (last statement of the body, of an
    if/else arm, of a try body without else/finally, of an except handler, of a with body; never in a loop) and with every
    tail position ending in a return or a raise - are `retname = e`, followed by one trailing `return retname`.  None when
    the helper does not have that shape."""
    h = copy.deepcopy(helper)
    h.body = _search_loop(h.body, retname)
    h.body = _nest_guards(h.body)
    h.body = _nest_try(h.body)
    ok = True

    def tail(stmts):
        nonlocal ok
        if not stmts:
            ok = False
            return
        for st in stmts[:-1]:
            if any(isinstance(x, ast.Return) for x in ast.walk(st)):
                ok = False
        last = stmts[-1]
        if isinstance(last, ast.Return):
            if last.value is None:
                ok = False
                return
            if isinstance(last.value, ast.Name) and last.value.id == retname:
                stmts[-1] = ast.copy_location(ast.Pass(), last)  # `ret = ret`
            else:
                stmts[-1] = ast.copy_location(ast.Assign([ast.Name(retname, ast.Store())], last.value, lineno=last.lineno), last)
        elif isinstance(last, ast.Raise):
            return
        elif isinstance(last, ast.If):
            tail(last.body)
            tail(last.orelse)
        elif isinstance(last, ast.Try) and not last.finalbody and not last.orelse:
            tail(last.body)
            for hd in last.handlers:
                tail(hd.body)
        elif isinstance(last, ast.Try) and not last.finalbody and last.orelse:
            if any(isinstance(x, ast.Return) for b in last.body for x in ast.walk(b)):
                ok = False
            tail(last.orelse)
            for hd in last.handlers:
                tail(hd.body)
        elif isinstance(last, ast.With):
            tail(last.body)
        else:
            ok = False
    body = h.body
    start = 1 if body and isinstance(body[0], ast.Expr) and isinstance(body[0].value, ast.Constant) and isinstance(body[0].value.value, str) else 0
    rest = body[start:]
    tail(rest)
    if not ok:
        return None
    h.body = body[:start] + rest + [ast.Return(ast.Name(retname, ast.Load()))]
    ast.fix_missing_locations(h)
    return h


def _expand(helper, call, caller, cls, target_names: set, mode: str, tuple_targets=None):
    """Statements replacing the call; mode in {'expr', 'value', 'tail'}.  Returns (stmts, result expr) or None."""
    static = any(ast.unparse(d) in ("staticmethod",) for d in helper.decorator_list) or getattr(helper, "_module_level", False)
    bound = _bind(helper, call, bool(cls), static)
    if bound is None:
        return None
    rets = _returns(helper)
    if mode == "expr" and rets and any(r.value is not None for r, _ in rets) and all(r.value is None or _simple_expr(r.value) for r, _ in rets):
        # the call is a statement: a result that is a plain name / attribute / constant is evaluated for nothing
        helper = copy.deepcopy(helper)
        for x in ast.walk(helper):
            if isinstance(x, ast.Return):
                x.value = None
        rets = _returns(helper)
    if mode == "expr" and rets and not (len(rets) == 1 and rets[0][1] == 0 and rets[0][0] is helper.body[-1]) \
            and all(r.value is None or (isinstance(r.value, ast.Constant) and r.value.value is None) for r, _ in rets):
        # a procedure with early `return`s: guard clauses read as nesting, `return` inside its final loop read as `break`
        h2 = _void_returns(helper)
        if h2 is None:
            return None
        helper = h2
        rets = _returns(helper)
    if mode == "value" and not (len(rets) == 1 and rets[0][1] == 0 and rets[0][0] is helper.body[-1]):
        # several returns, all in tail position: read as assignments of the result
        retname = next(iter(target_names)) if len(target_names) == 1 and next(iter(target_names)) not in _local_names(helper) else f"ret__{helper.name.strip('_')}"
        h2 = _tailify(helper, retname)
        if h2 is None:
            return None
        if tuple_targets:
            # `a, b = h()` with every result a tuple display: the elements are assigned where they are produced
            k = len(tuple_targets)
            assigns = [x for x in ast.walk(h2) if isinstance(x, ast.Assign) and len(x.targets) == 1 and isinstance(x.targets[0], ast.Name) and x.targets[0].id == retname]
            def order_safe(x):
                # t1 = v1; t2 = v2; ...: no later value may read an earlier target (all values are evaluated first in `t1, t2 = v1, v2`)
                for j, v in enumerate(x.value.elts):
                    # (an earlier target that is assigned its own name keeps its value: reading it later is harmless)
                    changed_before = [t for t, v0 in zip(tuple_targets[:j], x.value.elts[:j]) if not (isinstance(v0, ast.Name) and v0.id == t)]
                    if any(isinstance(n, ast.Name) and n.id in changed_before for n in ast.walk(v)):
                        return False
                return True
            if assigns and all(isinstance(x.value, ast.Tuple) and len(x.value.elts) == k and order_safe(x) for x in assigns):
                def split(block):
                    out = []
                    for st in block:
                        if st in assigns:
                            for t, v in zip(tuple_targets, st.value.elts):
                                out.append(ast.copy_location(ast.Assign([ast.Name(t, ast.Store())], v, lineno=st.lineno), st))
                            continue
                        for fld in ("body", "orelse", "finalbody"):
                            sub = getattr(st, fld, None)
                            if isinstance(sub, list) and sub and isinstance(sub[0], ast.stmt):
                                setattr(st, fld, split(sub))
                        for hd in getattr(st, "handlers", []) or []:
                            hd.body = split(hd.body)
                        out.append(st)
                    return out
                h2.body = split(h2.body)
                # the trailing `return ret` now stands for `return (a, b)`: the caller's unpacking is a no-op
                h2.body[-1] = ast.copy_location(ast.Return(ast.Tuple([ast.Name(t, ast.Load()) for t in tuple_targets], ast.Load())), h2.body[-1])
                ast.fix_missing_locations(h2)
        helper = h2
        rets = _returns(helper)
        target_names = set(target_names) | {retname}
    body = helper.body
    if body and isinstance(body[0], ast.Expr) and isinstance(body[0].value, ast.Constant) and isinstance(body[0].value.value, str):
        body = body[1:]
    result = None
    if mode == "tail":
        pass
    elif mode == "expr":
        if any(r.value is not None and not (isinstance(r.value, ast.Constant) and r.value.value is None) for r, _ in rets):
            return None
        if any(d > 0 for _, d in rets) or (rets and rets[0][0] is not body[-1]):
            return None
        if rets:
            body = body[:-1]
    else:
        if len(rets) != 1 or rets[0][1] != 0 or rets[0][0] is not body[-1] or rets[0][0].value is None:
            return None
        result = rets[0][0].value
        body = body[:-1]
    stored = {n.id for n in ast.walk(helper) if isinstance(n, ast.Name) and isinstance(n.ctx, (ast.Store, ast.Del))}
    used_before = getattr(caller, "_inl_names", set())   # names given to locals of helpers inlined into this caller earlier (each copy gets its own)
    caller_names = _local_names(caller) | used_before

    def fresh_(base):
        nm_, k_ = base, 2
        while nm_ in caller_names or nm_ in used_before:
            nm_ = f"{base}_{k_}"
            k_ += 1
        return nm_
    subst, pre, mapping = {}, [], {}
    selfname = helper.args.args[0].arg if (cls and not static and helper.args.args) else None
    recv = call.func.value.id if isinstance(call.func, ast.Attribute) else None
    if selfname and recv and recv != selfname:
        if recv == cls:
            return None
        subst[selfname] = ast.Name(recv, ast.Load())
    for p, arg in bound.items():
        if p not in stored and _simple_expr(arg):
            subst[p] = arg
            continue
        if p in stored and isinstance(arg, ast.Name) and arg.id in target_names and len(target_names) == 1:
            # `a = h(.., a)`: the caller's `a` is dead once the call is made, the parameter can live in it
            mapping[p] = arg.id
            continue
        if p in stored and mode == "tail" and isinstance(arg, ast.Name) and arg.id in caller_names \
                and sum(1 for a2 in bound.values() if isinstance(a2, ast.Name) and a2.id == arg.id) == 1 \
                and arg.id not in (_local_names(helper) - {p}):
            # `return h(.., a)`: nothing of the caller runs after the call, its `a` is dead as well
            mapping[p] = arg.id
            continue
        name = p if (p not in caller_names or (isinstance(arg, ast.Name) and arg.id == p)) else fresh_(f"{p}__{helper.name.strip('_')}")
        if not (isinstance(arg, ast.Name) and arg.id == name):
            pre.append(ast.copy_location(ast.Assign([ast.Name(name, ast.Store())], copy.deepcopy(arg), lineno=call.lineno), call))
        if name != p:
            mapping[p] = name
    params = set(bound) | ({selfname} if selfname else set())
    for loc_ in sorted(_local_names(helper) - params):
        if loc_ in caller_names and loc_ not in target_names:
            mapping[loc_] = fresh_(f"{loc_}__{helper.name.strip('_')}")
    try:
        caller._inl_names = set(used_before) | set(mapping.values()) | {p_ for p_ in bound if p_ not in subst and p_ not in mapping} | (_local_names(helper) - set(mapping))
    except AttributeError:
        pass
    rn = _Rename(mapping, subst)
    new = [rn.visit(copy.deepcopy(s)) for s in body]
    if result is not None:
        result = rn.visit(copy.deepcopy(result))
    def _drop_self_assign(block):
        out = []
        for st_ in block:
            if isinstance(st_, ast.Assign) and len(st_.targets) == 1 and isinstance(st_.targets[0], ast.Name) and isinstance(st_.value, ast.Name) \
                    and st_.targets[0].id == st_.value.id:
                continue  # `x = x`
            for fld_ in ("body", "orelse", "finalbody"):
                sub_ = getattr(st_, fld_, None)
                if isinstance(sub_, list) and sub_ and isinstance(sub_[0], ast.stmt):
                    kept = _drop_self_assign(sub_)
                    setattr(st_, fld_, kept if kept or fld_ != "body" else [ast.copy_location(ast.Pass(), st_)])
            for hd_ in getattr(st_, "handlers", []) or []:
                hd_.body = _drop_self_assign(hd_.body) or [ast.copy_location(ast.Pass(), hd_)]
            out.append(st_)
        return out
    new = _drop_self_assign(new)
    for s in pre + new:
        for n in ast.walk(s):
            n._inlined_from = helper.name  # type: ignore[attr-defined]
        ast.fix_missing_locations(s)
    return pre + new, result


def _first_call_in_test(test, helpers, cls, caller):
    """(holder node, field, call expr) of a helper call that a test evaluates first and unconditionally (only plain
    names / attributes / constants are evaluated before it), else None."""
    def is_helper(e):
        c = e.value if isinstance(e, ast.Await) else e
        if not isinstance(c, ast.Call):
            return False
        nm = _callee_name(c, cls)[0]
        # (its arguments are evaluated at the same point when the call is hoisted: it is the first thing the test evaluates)
        return nm in helpers and helpers[nm] is not caller and isinstance(helpers[nm], ast.AsyncFunctionDef) == isinstance(e, ast.Await) and not c.keywords

    def walk(holder, field, e):
        if is_helper(e):
            return (holder, field, e)
        if isinstance(e, ast.UnaryOp):
            return walk(e, "operand", e.operand)
        if isinstance(e, ast.BoolOp):
            return walk(e, ("values", 0), e.values[0])
        if isinstance(e, ast.Compare):
            r = walk(e, "left", e.left)
            if r is not None or not _simple_expr(e.left):
                return r
            for i, c in enumerate(e.comparators[:1]):
                return walk(e, ("comparators", i), c)
        return None
    holder = ast.Module(body=[], type_ignores=[])
    holder.test = test
    return walk(holder, "test", test)


def _stores_before(stmts, x: str, res: str) -> bool:
    """every assignment of x in the statements runs before the first assignment of res (source order, and none of them in a loop)"""
    order = {}

    def rec(n):
        order[id(n)] = len(order)
        for c in ast.iter_child_nodes(n):
            rec(c)
    for s_ in stmts:
        rec(s_)
    xs = [n for s_ in stmts for n in ast.walk(s_) if isinstance(n, ast.Name) and n.id == x and isinstance(n.ctx, (ast.Store, ast.Del))]
    rs = [n for s_ in stmts for n in ast.walk(s_) if isinstance(n, ast.Name) and n.id == res and isinstance(n.ctx, (ast.Store, ast.Del))]
    if not xs:
        return True
    if not rs:
        return False
    in_loop = set()
    for s_ in stmts:
        for lp in ast.walk(s_):
            if isinstance(lp, (ast.For, ast.While, ast.AsyncFor)):
                in_loop |= {id(n) for n in ast.walk(lp)}
    if any(id(n) in in_loop for n in xs):
        return False
    if max(order[id(n)] for n in xs) < min(order[id(n)] for n in rs):
        return True
    # path-wise: no assignment of x can run after an assignment of res (they may well stand in different arms of an `if`)
    try:
        from .cfg import CFG
        fake = ast.FunctionDef(name="_f", args=ast.arguments(posonlyargs=[], args=[], kwonlyargs=[], kw_defaults=[], defaults=[]), body=list(stmts),
                               decorator_list=[], returns=None, type_comment=None)
        fake.type_params = []
        ast.fix_missing_locations(fake)
        g = CFG(fake)
    except Exception:
        return False

    def nodes_storing(name):
        return [n.id for n in g.nodes if n.ast is not None and n.kind in ("stmt", "for") and any(
            isinstance(y, ast.Name) and y.id == name and isinstance(y.ctx, (ast.Store, ast.Del)) for y in (ast.walk(n.ast) if n.kind == "stmt" else ast.walk(n.ast.target)))]
    xn, rn = nodes_storing(x), nodes_storing(res)
    return not any(g.reaches(r_, x_, exc=True) for r_ in rn for x_ in xn)


def _first_call_in_value(val, helpers, cls, caller):
    """(holder, field, call expr) of the first helper call a statement's value evaluates, unconditionally, with nothing but
    quiet expressions (names, attributes, constants, len() of those, arithmetic on those) evaluated before it; else None."""
    def is_helper(e):
        c = e.value if isinstance(e, ast.Await) else e
        if not isinstance(c, ast.Call):
            return False
        nm = _callee_name(c, cls)[0]
        return nm in helpers and helpers[nm] is not caller and isinstance(helpers[nm], ast.AsyncFunctionDef) == isinstance(e, ast.Await) and not c.keywords

    def quiet(e):
        if _simple_expr(e):
            return True
        if isinstance(e, ast.Call) and isinstance(e.func, ast.Name) and e.func.id == "len" and len(e.args) == 1 and _simple_expr(e.args[0]) and not e.keywords:
            return True
        if isinstance(e, ast.BinOp):
            return quiet(e.left) and quiet(e.right)
        if isinstance(e, ast.UnaryOp):
            return quiet(e.operand)
        if isinstance(e, ast.Compare):
            return quiet(e.left) and all(quiet(c) for c in e.comparators)
        if isinstance(e, (ast.Tuple, ast.List)):
            return all(quiet(x) for x in e.elts)
        return False
    BLOCK = object()

    def walk(holder, field, e):
        if is_helper(e):
            return (holder, field, e)
        kids = []
        if isinstance(e, (ast.Tuple, ast.List)):
            kids = [(e, ("elts", i), x) for i, x in enumerate(e.elts)]
        elif isinstance(e, ast.BinOp):
            kids = [(e, "left", e.left), (e, "right", e.right)]
        elif isinstance(e, ast.UnaryOp):
            kids = [(e, "operand", e.operand)]
        elif isinstance(e, ast.Compare):
            kids = [(e, "left", e.left), (e, ("comparators", 0), e.comparators[0])]
        elif isinstance(e, ast.Call) and _simple_expr(e.func) and not e.keywords and not any(isinstance(a, ast.Starred) for a in e.args):
            kids = [(e, ("args", i), x) for i, x in enumerate(e.args)]
        elif isinstance(e, ast.Subscript):
            if is_helper(e.value) and isinstance(e.slice, ast.Constant) and e is val:
                return None  # `return h(x)[k]` / `t = h(x)[k]`: the projection of the helper is taken instead (see _inline_in_block)
            kids = [(e, "value", e.value), (e, "slice", e.slice)]
        else:
            return None
        for h_, f_, x in kids:
            r = walk(h_, f_, x)
            if r is not None:
                return r
            if not quiet(x):
                return BLOCK
        return None
    holder = ast.Module(body=[], type_ignores=[])
    holder.value = val
    if is_helper(val):
        return None
    r = walk(holder, "value", val)
    return None if r is BLOCK else r


_GENS: dict = {}   # new generator helpers of the scope being inlined (set by inline_helpers)
_CMS: dict = {}    # new @contextmanager generator helpers of the scope being inlined


def _expand_generator_cm(st, helpers, caller, cls):
    """`with h(args) as v: BODY` over a new `@contextmanager` generator `PRE; yield X; POST` or `PRE; try: yield X finally: F; POST`:
    `PRE; v = X; BODY; POST` resp. `PRE; v = X; try: BODY finally: F; POST` (an exception of BODY is raised at the `yield`: a bare
    yield lets it pass and skips POST, a `finally` around the yield runs)."""
    if len(st.items) != 1 or isinstance(st, ast.AsyncWith):
        return None
    call = st.items[0].context_expr
    asv = st.items[0].optional_vars
    if not isinstance(call, ast.Call) or call.keywords or (asv is not None and not isinstance(asv, ast.Name)):
        return None
    h = _CMS.get(_callee_name(call, cls)[0])
    if h is None or h is caller:
        return None
    body = h.body
    if body and isinstance(body[0], ast.Expr) and isinstance(body[0].value, ast.Constant) and isinstance(body[0].value.value, str):
        body = body[1:]
    yields = [x for x in ast.walk(h) if isinstance(x, ast.Yield)]
    if len(yields) != 1 or any(isinstance(x, (ast.Return, ast.Await)) for x in ast.walk(h)):
        return None
    y = yields[0]
    k = None
    shape = None
    for i, b in enumerate(body):
        if isinstance(b, ast.Expr) and b.value is y:
            k, shape = i, "bare"
        elif isinstance(b, ast.Try) and not b.handlers and not b.orelse and any(isinstance(t, ast.Expr) and t.value is y for t in b.body):
            k, shape = i, "finally"
    if k is None:
        return None
    if any(isinstance(x, ast.Yield) for b in body[:k] + body[k + 1:] for x in ast.walk(b)):
        return None
    marker = ast.Expr(ast.Constant("__with_body__"))
    give = []
    if asv is not None:
        give = [ast.Assign([ast.Name(asv.id, ast.Store())], copy.deepcopy(y.value) if y.value is not None else ast.Constant(None), lineno=st.lineno)]
    if shape == "bare":
        mid = give + [marker]
    else:
        j = next(i for i, t in enumerate(body[k].body) if isinstance(t, ast.Expr) and t.value is y)
        mid = [ast.Try(body=copy.deepcopy(body[k].body[:j]) + give + [marker] + copy.deepcopy(body[k].body[j + 1:]), handlers=[], orelse=[],
                       finalbody=copy.deepcopy(body[k].finalbody))]
    pseudo = copy.deepcopy(h)
    pseudo.decorator_list = [d for d in pseudo.decorator_list if ast.unparse(d) == "staticmethod"]
    doc = pseudo.body[:len(pseudo.body) - len(body)]
    pseudo.body = doc + copy.deepcopy(body[:k]) + mid + copy.deepcopy(body[k + 1:])
    for x in ast.walk(pseudo):
        if isinstance(x, (ast.stmt, ast.expr)) and not hasattr(x, "lineno"):
            x.lineno = st.lineno
            x.col_offset = 0
    ast.fix_missing_locations(pseudo)
    exp = _expand(pseudo, call, caller, cls, {asv.id} if asv is not None else set(), "expr")
    if exp is None:
        return None
    new, _ = exp
    placed = False

    def place(block):
        nonlocal placed
        for i, s_ in enumerate(block):
            if isinstance(s_, ast.Expr) and isinstance(s_.value, ast.Constant) and s_.value.value == "__with_body__":
                block[i:i + 1] = st.body
                placed = True
                return
            for fld in ("body", "orelse", "finalbody"):
                sub = getattr(s_, fld, None)
                if isinstance(sub, list) and sub and isinstance(sub[0], ast.stmt) and not placed:
                    place(sub)
    place(new)
    return new if placed else None


def _fuse_generator_loop(st, helpers, caller, cls):
    """`for T in h(args): BODY` where h is a plain generator of the shape `PRELUDE; for x in IT: S...` in which every way through the
    loop body ends in exactly one `yield E` (the last statement of the body, or of every arm of its final `if` chain), nothing stands
    behind the loop and there is no return / try / with: the generator runs in lock step with the consuming loop, so the statements are
    `PRELUDE; for x in IT: S... with T = E at each yield; BODY` (a `break` / `continue` of BODY acts on the fused loop as it did on the
    consumer; nothing of the generator runs after its loop).  `async for` over an `async def` generator likewise (its awaits now stand in
    the consuming coroutine, which awaited them through the iteration anyway)."""
    name = _callee_name(st.iter, cls)[0]
    h = _GENS.get(name)
    if h is None or h is caller or st.iter.keywords:
        return None
    if isinstance(h, ast.AsyncFunctionDef) != isinstance(st, ast.AsyncFor):
        return None
    body = h.body
    if body and isinstance(body[0], ast.Expr) and isinstance(body[0].value, ast.Constant) and isinstance(body[0].value.value, str):
        body = body[1:]
    if not body or not isinstance(body[-1], ast.For) or body[-1].orelse:
        return None
    loop = body[-1]
    yields = [x for x in ast.walk(h) if isinstance(x, (ast.Yield, ast.YieldFrom))]
    if not yields or any(isinstance(y, ast.YieldFrom) or y.value is None for y in yields):
        return None
    tails = []

    def tail_yields(block) -> bool:
        if not block:
            return False
        last = block[-1]
        if isinstance(last, ast.Expr) and isinstance(last.value, ast.Yield):
            tails.append(last)
            return True
        if isinstance(last, ast.If) and last.orelse:
            return tail_yields(last.body) and tail_yields(last.orelse)
        return False
    if not tail_yields(loop.body) or len(tails) != len(yields):
        return None
    if any(isinstance(x, (ast.Return, ast.Try, ast.With, ast.AsyncWith)) for x in ast.walk(h)):
        return None
    if not isinstance(h, ast.AsyncFunctionDef) and any(isinstance(x, ast.Await) for x in ast.walk(h)):
        return None
    if any(isinstance(x, (ast.Break, ast.Continue)) for s_ in loop.body for x in ast.walk(s_)):
        return None
    tnames = {n.id for n in ast.walk(st.target) if isinstance(n, ast.Name)}
    if not all(isinstance(n, (ast.Name, ast.Tuple, ast.Store)) for n in ast.walk(st.target)):
        return None
    marker = ast.Expr(ast.Constant("__fused_body__"))

    def give_for(E):
        give = []
        if isinstance(st.target, ast.Tuple) and isinstance(E, ast.Tuple) and len(E.elts) == len(st.target.elts) and all(isinstance(t, ast.Name) for t in st.target.elts):
            tl = [t.id for t in st.target.elts]
            safe = all(not any(isinstance(n, ast.Name) and n.id in tl[:j] and not (isinstance(E.elts[tl.index(n.id)], ast.Name) and E.elts[tl.index(n.id)].id == n.id)
                               for n in ast.walk(v)) for j, v in enumerate(E.elts))
            if safe:
                for t, v in zip(tl, E.elts):
                    give.append(ast.Assign([ast.Name(t, ast.Store())], copy.deepcopy(v), lineno=st.lineno))
        if not give:
            give = [ast.Assign([copy.deepcopy(st.target)], copy.deepcopy(E), lineno=st.lineno)]
        return give
    pseudo = copy.deepcopy(h)
    if isinstance(pseudo, ast.AsyncFunctionDef):
        # expanded like a plain helper (its awaits are kept as they are); the caller is a coroutine
        p2 = ast.FunctionDef(name=pseudo.name, args=pseudo.args, body=pseudo.body, decorator_list=pseudo.decorator_list, returns=None, type_comment=None)
        if hasattr(ast.FunctionDef, "type_params") or True:
            p2.type_params = []
        ast.copy_location(p2, pseudo)
        pseudo = p2
    ploop = pseudo.body[-1]

    def swap(block):
        last = block[-1]
        if isinstance(last, ast.Expr) and isinstance(last.value, ast.Yield):
            block[-1:] = give_for(last.value.value)
            return
        swap(last.body)
        swap(last.orelse)
    swap(ploop.body)
    ploop.body.append(marker)
    for x in ast.walk(pseudo):
        if isinstance(x, ast.stmt) and not hasattr(x, "lineno"):
            x.lineno = st.lineno
    ast.fix_missing_locations(pseudo)
    exp = _expand(pseudo, st.iter, caller, cls, tnames, "expr")
    if exp is None:
        return None
    new, _ = exp
    placed = False
    for s_ in new:
        for x in ast.walk(s_):
            if isinstance(x, ast.For) and x.body and x.body[-1] is not None and isinstance(x.body[-1], ast.Expr) and isinstance(x.body[-1].value, ast.Constant) \
                    and x.body[-1].value.value == "__fused_body__":
                x.body = x.body[:-1] + st.body
                x.orelse = st.orelse
                placed = True
    return new if placed else None


def _fuse_generator_single_yield(st, helpers, caller, cls):
    """`for T in h(args): BODY` where the generator h is `PRELUDE; <loop>` with exactly one `yield E`, a direct statement of that
    (last, outermost) loop's body, and `return`s only at the loop's own level: `PRELUDE; <loop with `T = E; BODY` in place of the yield
    and `break` in place of each return>`.  A `continue` of BODY would skip what the generator does after the yield, so it is only
    accepted when nothing follows the yield; a `break` of BODY ends the generator (nothing stands behind its loop)."""
    name = _callee_name(st.iter, cls)[0]
    h = _GENS.get(name)
    if h is None or h is caller or st.iter.keywords or st.orelse:
        return None
    if isinstance(h, ast.AsyncFunctionDef) != isinstance(st, ast.AsyncFor):
        return None
    body = h.body
    if body and isinstance(body[0], ast.Expr) and isinstance(body[0].value, ast.Constant) and isinstance(body[0].value.value, str):
        body = body[1:]
    if not body or not isinstance(body[-1], (ast.For, ast.While)) or body[-1].orelse:
        return None
    loop = body[-1]
    yields = [x for x in ast.walk(h) if isinstance(x, (ast.Yield, ast.YieldFrom))]
    if len(yields) != 1 or not isinstance(yields[0], ast.Yield) or yields[0].value is None:
        return None
    # the yield statement: directly in the loop body, or inside `if` arms of it (not in a nested loop / try / with)
    def find(block, path):
        for i, b in enumerate(block):
            if isinstance(b, ast.Expr) and b.value is yields[0]:
                return path + [(block, i)]
            if isinstance(b, ast.If):
                r = find(b.body, path + [(block, i)]) or find(b.orelse, path + [(block, i)])
                if r:
                    return r
        return None
    ypath = find(loop.body, [])
    if ypath is None:
        return None
    yblock, k = ypath[-1]
    nested_tail = any(blk[i + 1:] for blk, i in ypath[:-1])  # statements of enclosing blocks that run after the `if` holding the yield
    if any(isinstance(x, (ast.Try, ast.With, ast.AsyncWith)) for x in ast.walk(h)):
        return None
    if not isinstance(h, ast.AsyncFunctionDef) and any(isinstance(x, ast.Await) for x in ast.walk(h)):
        return None
    # returns: only inside the loop, not inside a nested loop; no value
    def returns_ok(block, depth):
        for b in block:
            if isinstance(b, ast.Return):
                if b.value is not None or depth != 1:
                    return False
            elif isinstance(b, (ast.For, ast.While, ast.AsyncFor)):
                if any(isinstance(x, ast.Return) for x in ast.walk(b)) and depth >= 1:
                    return False
                if depth == 0 and not returns_ok(b.body, 1):
                    return False
            elif isinstance(b, ast.If):
                if not returns_ok(b.body, depth) or not returns_ok(b.orelse, depth):
                    return False
        return True
    if any(isinstance(x, ast.Return) for b in body[:-1] for x in ast.walk(b)) or not returns_ok([loop], 0):
        return None
    if any(isinstance(x, (ast.Break, ast.Continue)) for b in loop.body for x in ast.walk(b) if not isinstance(b, (ast.For, ast.While))):
        pass  # the generator's own break / continue keep their meaning: they stay inside the same loop
    s2 = yblock[k + 1:] or ([1] if nested_tail else [])
    def own_level(block, kinds):
        for b in block:
            if isinstance(b, kinds):
                return True
            if isinstance(b, (ast.If,)) and (own_level(b.body, kinds) or own_level(b.orelse, kinds)):
                return True
            if isinstance(b, ast.Try) and (own_level(b.body, kinds) or own_level(b.finalbody, kinds) or any(own_level(hd.body, kinds) for hd in b.handlers)):
                return True
            if isinstance(b, (ast.With, ast.AsyncWith)) and own_level(b.body, kinds):
                return True
        return False
    if s2 and own_level(st.body, (ast.Continue,)):
        return None
    tnames = {n.id for n in ast.walk(st.target) if isinstance(n, ast.Name)}
    if not all(isinstance(n, (ast.Name, ast.Tuple, ast.Store)) for n in ast.walk(st.target)):
        return None
    marker = ast.Expr(ast.Constant("__fused_body__"))
    give = [ast.Assign([copy.deepcopy(st.target)], copy.deepcopy(yields[0].value), lineno=st.lineno)]
    pseudo = copy.deepcopy(h)
    if isinstance(pseudo, ast.AsyncFunctionDef):
        p2 = ast.FunctionDef(name=pseudo.name, args=pseudo.args, body=pseudo.body, decorator_list=pseudo.decorator_list, returns=None, type_comment=None)
        p2.type_params = []
        ast.copy_location(p2, pseudo)
        pseudo = p2
    ploop = pseudo.body[-1]

    def find2(block):
        for i, b in enumerate(block):
            if isinstance(b, ast.Expr) and isinstance(b.value, ast.Yield):
                block[i:i + 1] = give + [marker]
                return True
            if isinstance(b, ast.If) and (find2(b.body) or find2(b.orelse)):
                return True
        return False
    if not find2(ploop.body):
        return None

    class R(ast.NodeTransformer):
        def visit_Return(self, node):
            return ast.copy_location(ast.Break(), node)

        def visit_For(self, node):
            return node if node is not ploop else self.generic_visit(node)

        def visit_While(self, node):
            return node if node is not ploop else self.generic_visit(node)
    R().visit(ploop)
    for x in ast.walk(pseudo):
        if isinstance(x, ast.stmt) and not hasattr(x, "lineno"):
            x.lineno = st.lineno
    ast.fix_missing_locations(pseudo)
    exp = _expand(pseudo, st.iter, caller, cls, tnames, "expr")
    if exp is None:
        return None
    new, _ = exp
    placed = False

    def place(block):
        nonlocal placed
        for i, s_ in enumerate(block):
            if isinstance(s_, ast.Expr) and isinstance(s_.value, ast.Constant) and s_.value.value == "__fused_body__":
                block[i:i + 1] = st.body
                placed = True
                return
            for fld in ("body", "orelse", "finalbody"):
                sub = getattr(s_, fld, None)
                if isinstance(sub, list) and sub and isinstance(sub[0], ast.stmt) and not placed:
                    place(sub)
    place(new)
    return new if placed else None


def _inline_in_block(stmts, helpers, caller, cls, rep: Report, failed: set):
    out = []
    changed = False
    for st in stmts:
        # recurse into compound statements first
        for fld in ("body", "orelse", "finalbody"):
            sub = getattr(st, fld, None)
            if isinstance(sub, list) and sub and isinstance(sub[0], ast.stmt) and not isinstance(st, FUNC + (ast.ClassDef,)):
                nb, ch = _inline_in_block(sub, helpers, caller, cls, rep, failed)
                setattr(st, fld, nb)
                changed |= ch
        for h in getattr(st, "handlers", []) or []:
            nb, ch = _inline_in_block(h.body, helpers, caller, cls, rep, failed)
            h.body = nb
            changed |= ch
        if isinstance(st, ast.With) and _CMS:
            exp_ = _expand_generator_cm(st, helpers, caller, cls)
            if exp_ is not None:
                for s_ in exp_:
                    ast.fix_missing_locations(s_)
                out.extend(exp_)
                rep.inlined.append((f"{cls + '.' if cls else ''}{_callee_name(st.items[0].context_expr, cls)[0]} (context manager)",
                                    f"{cls + '.' if cls else ''}{caller.name}", getattr(st, "lineno", 0)))
                changed = True
                continue
        # `x = list(gen(args))` / `return list(gen(args))` over a new generator helper: the accumulating loop it abbreviates
        if isinstance(st, (ast.Return, ast.Assign)) and isinstance(st.value, ast.Call) and isinstance(st.value.func, ast.Name) and st.value.func.id == "list" \
                and len(st.value.args) == 1 and not st.value.keywords and isinstance(st.value.args[0], ast.Call) and _callee_name(st.value.args[0], cls)[0] in _GENS \
                and (isinstance(st, ast.Return) or (len(st.targets) == 1 and isinstance(st.targets[0], ast.Name))):
            gname = _callee_name(st.value.args[0], cls)[0].strip("_")
            taken = _local_names(caller)
            acc = st.targets[0].id if isinstance(st, ast.Assign) else f"ret__{gname}"
            item = f"item__{gname}"
            if item not in taken and (isinstance(st, ast.Assign) or acc not in taken) and \
                    not any(isinstance(x, ast.Name) and x.id == acc for x in ast.walk(st.value)):
                init = ast.copy_location(ast.Assign([ast.Name(acc, ast.Store())], ast.List([], ast.Load()), lineno=st.lineno), st)
                loop = ast.copy_location(ast.For(ast.Name(item, ast.Store()), st.value.args[0],
                                                 [ast.Expr(ast.Call(ast.Attribute(ast.Name(acc, ast.Load()), "append", ast.Load()), [ast.Name(item, ast.Load())], []))], [], lineno=st.lineno), st)
                ast.fix_missing_locations(init)
                ast.fix_missing_locations(loop)
                fused = _fuse_generator_loop(loop, helpers, caller, cls)
                if fused is not None:
                    new_ = [init] + fused + ([ast.copy_location(ast.Return(ast.Name(acc, ast.Load())), st)] if isinstance(st, ast.Return) else [])
                    for s_ in new_:
                        ast.fix_missing_locations(s_)
                    out.extend(new_)
                    rep.inlined.append((f"{cls + '.' if cls else ''}{gname} (generator, list())", f"{cls + '.' if cls else ''}{caller.name}", getattr(st, "lineno", 0)))
                    changed = True
                    continue
        # `for T in gen(args): BODY` over a new generator helper `PRELUDE; for x in IT: S; yield E`: the two loops fused
        if isinstance(st, (ast.For, ast.AsyncFor)) and isinstance(st.iter, ast.Call):
            fused = _fuse_generator_loop(st, helpers, caller, cls)
            if fused is None:
                fused = _fuse_generator_single_yield(st, helpers, caller, cls)
            if fused is not None:
                for s_ in fused:
                    ast.fix_missing_locations(s_)
                out.extend(fused)
                rep.inlined.append((f"{cls + '.' if cls else ''}{_callee_name(st.iter, cls)[0]} (generator)", f"{cls + '.' if cls else ''}{caller.name}", getattr(st, "lineno", 0)))
                changed = True
                continue
        # `if A and h(x): BODY` (no else) with a new statement helper h: `if A: if h(x): BODY` - the call is then the first thing its test evaluates
        if isinstance(st, ast.If) and not st.orelse and isinstance(st.test, ast.BoolOp) and isinstance(st.test.op, ast.And) and len(st.test.values) >= 2:
            def _is_stmt_helper(e):
                e2 = e.operand if isinstance(e, ast.UnaryOp) and isinstance(e.op, ast.Not) else e
                c = e2.value if isinstance(e2, ast.Await) else e2
                if not isinstance(c, ast.Call):
                    return False
                nm = _callee_name(c, cls)[0]
                return nm in helpers and helpers[nm] is not caller and _expr_helper(helpers[nm]) is None
            ks = [k for k, v in enumerate(st.test.values) if k > 0 and _is_stmt_helper(v)]
            if ks:
                k = ks[0]
                left = st.test.values[:k]
                right = st.test.values[k:]
                inner = ast.copy_location(ast.If(right[0] if len(right) == 1 else ast.BoolOp(ast.And(), right), st.body, []), st)
                st.test = left[0] if len(left) == 1 else ast.BoolOp(ast.And(), left)
                st.body = [inner]
                ast.fix_missing_locations(st)
                nb, _ch = _inline_in_block(st.body, helpers, caller, cls, rep, failed)
                st.body = nb
                changed = True
        # a helper call that is the first non-trivial thing an `if` test evaluates: hoisted into a local in front of the `if`
        if isinstance(st, ast.If):
            found = _first_call_in_test(st.test, helpers, cls, caller)
            if found is not None:
                holder, field, inner = found
                core_call = inner.value if isinstance(inner, ast.Await) else inner
                tmp = f"arg__{_callee_name(core_call, cls)[0].replace('mod:', '').strip('_')}"
                k_ = 2
                while tmp in _local_names(caller):
                    tmp = f"{tmp.rstrip('0123456789_')}_{k_}"
                    k_ += 1
                if True:
                    pre_st = ast.copy_location(ast.Assign([ast.Name(tmp, ast.Store())], inner, lineno=st.lineno), st)
                    name = ast.copy_location(ast.Name(tmp, ast.Load()), inner)
                    if isinstance(holder, ast.Module):
                        st.test = name  # the whole test was the call
                    elif isinstance(field, tuple):
                        getattr(holder, field[0])[field[1]] = name
                    else:
                        setattr(holder, field, name)
                    ast.fix_missing_locations(pre_st)
                    nb, _ch = _inline_in_block([pre_st], helpers, caller, cls, rep, failed)
                    out.extend(nb)
                    changed = True
        # a helper call nested in the value of a simple statement (`return a, len(b) - h(b)`): hoisted into a local in front of it
        if isinstance(st, (ast.Return, ast.Assign, ast.Expr, ast.AugAssign)) and getattr(st, "value", None) is not None:
            found = _first_call_in_value(st.value, helpers, cls, caller)
            if found is not None:
                holder, field, inner = found
                core_call = inner.value if isinstance(inner, ast.Await) else inner
                tmp = f"arg__{_callee_name(core_call, cls)[0].replace('mod:', '').strip('_')}"
                k_ = 2
                while tmp in _local_names(caller):
                    tmp = f"{tmp.rstrip('0123456789_')}_{k_}"
                    k_ += 1
                pre_st = ast.copy_location(ast.Assign([ast.Name(tmp, ast.Store())], inner, lineno=st.lineno), st)
                name = ast.copy_location(ast.Name(tmp, ast.Load()), inner)
                if isinstance(holder, ast.Module):
                    st.value = name
                elif isinstance(field, tuple):
                    getattr(holder, field[0])[field[1]] = name
                else:
                    setattr(holder, field, name)
                ast.fix_missing_locations(pre_st)
                nb, _ch = _inline_in_block([pre_st], helpers, caller, cls, rep, failed)
                out.extend(nb)
                changed = True
        call = mode = None
        targets = set()
        val = getattr(st, "value", None) if isinstance(st, (ast.Expr, ast.Assign, ast.AnnAssign, ast.Return)) else None
        # a helper call that is an argument of the statement's call, with nothing but plain names evaluated before it:
        # hoisted into a local first (`f(h(x))` -> `t = h(x); f(t)`), then inlined as an assignment
        outer = val.value if isinstance(val, ast.Await) else val
        if isinstance(outer, ast.Call) and _simple_expr(outer.func):
            for ai, a in enumerate(outer.args):
                inner = a.value if isinstance(a, ast.Await) else a
                if isinstance(inner, ast.Call) and _callee_name(inner, cls)[0] in helpers and helpers[_callee_name(inner, cls)[0]] is not caller \
                        and all(_simple_expr(b) for b in outer.args[:ai]) and isinstance(helpers[_callee_name(inner, cls)[0]], ast.AsyncFunctionDef) == isinstance(a, ast.Await):
                    tmp = f"arg__{_callee_name(inner, cls)[0].strip('_')}"
                    if tmp in _local_names(caller):
                        break
                    pre_st = ast.copy_location(ast.Assign([ast.Name(tmp, ast.Store())], a, lineno=st.lineno), st)
                    outer.args[ai] = ast.copy_location(ast.Name(tmp, ast.Load()), a)
                    ast.fix_missing_locations(pre_st)
                    nb, _ch = _inline_in_block([pre_st], helpers, caller, cls, rep, failed)
                    out.extend(nb)
                    changed = True
                    break
                if not _simple_expr(a):
                    break
        awaited = isinstance(val, ast.Await)
        core = val.value if awaited else val
        if isinstance(core, ast.Call):
            name, _ = _callee_name(core, cls)
            if name in helpers and helpers[name] is not caller:
                h = helpers[name]
                if isinstance(h, ast.AsyncFunctionDef) == awaited:
                    call = core
                    mode = "expr" if isinstance(st, ast.Expr) else ("tail" if isinstance(st, ast.Return) else "value")
                    if isinstance(st, ast.Assign):
                        targets = {t.id for t in st.targets if isinstance(t, ast.Name)}
                        for t in st.targets:
                            if isinstance(t, ast.Tuple):
                                targets |= {e.id for e in t.elts if isinstance(e, ast.Name)}
                    elif isinstance(st, ast.AnnAssign) and isinstance(st.target, ast.Name):
                        targets = {st.target.id}
        proj_helper = None
        if call is None and isinstance(st, (ast.Return, ast.Assign)) and isinstance(core, ast.Subscript) and isinstance(core.slice, ast.Constant) \
                and isinstance(core.slice.value, int) and isinstance(core.value, ast.Call) and not awaited:
            # `return h(x)[k]` / `t = h(x)[k]` where every result of h is a tuple display: h projected on its k-th component
            nm_ = _callee_name(core.value, cls)[0]
            if nm_ in helpers and helpers[nm_] is not caller and not isinstance(helpers[nm_], ast.AsyncFunctionDef):
                k_ = core.slice.value
                hp = copy.deepcopy(helpers[nm_])
                rr = [x for x in ast.walk(hp) if isinstance(x, ast.Return)]
                if rr and all(isinstance(x.value, ast.Tuple) and -len(x.value.elts) <= k_ < len(x.value.elts)
                              and all(_simple_expr(e) or isinstance(e, (ast.Subscript, ast.Constant)) for e in x.value.elts) for x in rr):
                    for x in rr:
                        x.value = x.value.elts[k_]
                    proj_helper = hp
                    call = core.value
                    mode = "tail" if isinstance(st, ast.Return) else "value"
                    if isinstance(st, ast.Assign):
                        targets = {t.id for t in st.targets if isinstance(t, ast.Name)}
        if call is None:
            out.append(st)
            continue
        h = proj_helper if proj_helper is not None else helpers[_callee_name(call, cls)[0]]
        exp = None
        if mode == "tail":
            rets = _returns(h)
            if len(rets) == 1 and rets[0][1] == 0 and rets[0][0] is h.body[-1] and rets[0][0].value is not None:
                exp = _expand(h, call, caller, cls, targets, "value")
                if exp:
                    exp = (exp[0] + [ast.copy_location(ast.Return(exp[1]), st)], None)
            else:
                exp = _expand(h, call, caller, cls, targets, "tail")
                if exp and not _always_exits(h.body):
                    exp = (exp[0] + [ast.copy_location(ast.Return(ast.Constant(None)), st)], None)
        else:
            tt = None
            if isinstance(st, ast.Assign) and len(st.targets) == 1 and isinstance(st.targets[0], ast.Tuple) and all(isinstance(e, ast.Name) for e in st.targets[0].elts):
                tt = [e.id for e in st.targets[0].elts]
            exp = _expand(h, call, caller, cls, targets, mode, tuple_targets=tt)
        if exp is None:
            failed.add(h.name)
            out.append(st)
            continue
        new, result = exp
        if mode == "value":
            asg = copy.copy(st)
            asg.value = result
            tgt = st.targets[0] if isinstance(st, ast.Assign) else st.target
            same = isinstance(st, ast.Assign) and ast.dump(result, annotate_fields=False).replace("Load()", "X").replace("Store()", "X") == \
                ast.dump(tgt, annotate_fields=False).replace("Load()", "X").replace("Store()", "X")
            if not same and isinstance(result, ast.Name) and result.id.startswith("ret__") and isinstance(st, ast.Assign) and len(st.targets) == 1 \
                    and isinstance(tgt, ast.Name) and not any(isinstance(x, ast.Name) and x.id == result.id for x in ast.walk(caller) if not any(x is y for s_ in new for y in ast.walk(s_))) \
                    and _stores_before(new, tgt.id, result.id):
                # the result local is only assigned in tail positions of the inlined statements (nothing of them runs after such an
                # assignment) and those statements do not assign the caller's target themselves (a loop variable of the same name
                # would clobber the result): it can be the caller's target itself
                rn_ = _Rename({result.id: tgt.id}, {})
                new = [rn_.visit(s_) for s_ in new]

                def _drop_xx(block):
                    out_ = []
                    for s_ in block:
                        if isinstance(s_, ast.Assign) and len(s_.targets) == 1 and isinstance(s_.targets[0], ast.Name) and isinstance(s_.value, ast.Name) \
                                and s_.targets[0].id == s_.value.id:
                            continue
                        for fld_ in ("body", "orelse", "finalbody"):
                            sub_ = getattr(s_, fld_, None)
                            if isinstance(sub_, list) and sub_ and isinstance(sub_[0], ast.stmt):
                                kept = _drop_xx(sub_)
                                setattr(s_, fld_, kept if kept or fld_ != "body" else [ast.copy_location(ast.Pass(), s_)])
                        for hd_ in getattr(s_, "handlers", []) or []:
                            hd_.body = _drop_xx(hd_.body) or [ast.copy_location(ast.Pass(), hd_)]
                        out_.append(s_)
                    return out_
                new = _drop_xx(new)
                same = True
            if not same:
                new = new + [asg]
        for s in new:
            ast.fix_missing_locations(s)
        out.extend(new)
        rep.inlined.append((f"{cls + '.' if cls else ''}{h.name}", f"{cls + '.' if cls else ''}{caller.name}", getattr(st, "lineno", 0)))
        changed = True
    return out, changed


def _calls_to(tree, name: str, cls: str) -> int:
    k = 0
    for n in ast.walk(tree):
        if isinstance(n, ast.Attribute) and n.attr == name and cls:
            k += 1
        elif isinstance(n, ast.Name) and n.id == name and isinstance(n.ctx, ast.Load):
            k += 1  # also a bare reference from the class body itself (a dispatch table built there)
    return k


def _expr_helper(fn):
    """The expression of a helper that is nothing but `return <expr>`, else None."""
    if isinstance(fn, ast.AsyncFunctionDef):
        return None
    body = fn.body
    if body and isinstance(body[0], ast.Expr) and isinstance(body[0].value, ast.Constant) and isinstance(body[0].value.value, str):
        body = body[1:]
    if len(body) == 1 and isinstance(body[0], ast.Return) and body[0].value is not None:
        e = body[0].value
        if any(isinstance(x, (ast.Await, ast.Yield, ast.YieldFrom, ast.Lambda, ast.NamedExpr)) for x in ast.walk(e)):
            return None
        return e
    # a generator that is nothing but `for x in IT: yield E` is the generator expression `(E for x in IT)`
    if len(body) == 1 and isinstance(body[0], ast.For) and not body[0].orelse and len(body[0].body) == 1 and isinstance(body[0].body[0], ast.Expr) \
            and isinstance(body[0].body[0].value, ast.Yield) and body[0].body[0].value.value is not None:
        lp = body[0]
        E = lp.body[0].value.value
        if not any(isinstance(x, (ast.Await, ast.Yield, ast.YieldFrom, ast.Lambda, ast.NamedExpr)) for x in list(ast.walk(E)) + list(ast.walk(lp.iter))):
            return ast.copy_location(ast.GeneratorExp(E, [ast.comprehension(lp.target, lp.iter, [], 0)]), lp)
    # `if C: return True` / `return False` (or the mirror image) over a boolean-valued C is `return C` / `return not C`
    def _boolean(c):
        if isinstance(c, ast.Compare):
            return True
        if isinstance(c, ast.UnaryOp) and isinstance(c.op, ast.Not):
            return True
        if isinstance(c, ast.BoolOp):
            return all(_boolean(v) for v in c.values)
        return False
    if len(body) == 2 and isinstance(body[0], ast.If) and not body[0].orelse and len(body[0].body) == 1 and isinstance(body[0].body[0], ast.Return) \
            and isinstance(body[1], ast.Return) and all(isinstance(r.value, ast.Constant) and isinstance(r.value.value, bool) for r in (body[0].body[0], body[1])) \
            and body[0].body[0].value.value != body[1].value.value and _boolean(body[0].test):
        c = body[0].test
        if any(isinstance(x, (ast.Await, ast.Yield, ast.YieldFrom, ast.Lambda, ast.NamedExpr)) for x in ast.walk(c)):
            return None
        return c if body[0].body[0].value.value else ast.copy_location(ast.UnaryOp(ast.Not(), c), c)
    return None


def inline_expression_helpers(helpers, fn, cls, rep: Report) -> bool:
    """Calls of new helpers that are a single `return <expr>` are replaced by that expression wherever they stand
    (each parameter is used at most once in it, or its argument is a plain name / attribute / constant)."""
    changed = False

    class T(ast.NodeTransformer):
        def visit_Call(self, node):
            nonlocal changed
            self.generic_visit(node)
            name, _ = _callee_name(node, cls)
            h = helpers.get(name) or _GENS.get(name)
            if h is None or h is fn:
                return node
            e = _expr_helper(h)
            if e is None:
                return node
            if name in _GENS and not isinstance(e, ast.GeneratorExp):
                return node
            static = any(ast.unparse(d) == "staticmethod" for d in h.decorator_list) or getattr(h, "_module_level", False)
            bound = _bind(h, node, bool(cls), static)
            if bound is None:
                return node
            uses = {}
            for x in ast.walk(e):
                if isinstance(x, ast.Name):
                    uses[x.id] = uses.get(x.id, 0) + 1
            if any(not _simple_expr(a) and uses.get(p, 0) > 1 for p, a in bound.items()):
                return node
            if any(isinstance(x, ast.comprehension) for x in ast.walk(e)) and any(
                    isinstance(x, ast.Name) and x.id in bound and not _simple_expr(bound[x.id]) and not _is_outer_iter(e, x) for x in ast.walk(e)):
                return node  # a non-trivial argument would be re-evaluated per iteration inside a comprehension
            selfname = h.args.args[0].arg if (cls and not static and h.args.args) else None
            subst = dict(bound)
            if selfname and isinstance(node.func, ast.Attribute) and isinstance(node.func.value, ast.Name):
                subst[selfname] = ast.Name(node.func.value.id, ast.Load())
            new = _Rename({}, subst).visit(copy.deepcopy(e))
            if isinstance(new, ast.GeneratorExp):
                new._from_helper = True  # type: ignore[attr-defined]
            ast.copy_location(new, node)
            ast.fix_missing_locations(new)
            rep.inlined.append((f"{cls + '.' if cls else ''}{h.name} (expression)", f"{cls + '.' if cls else ''}{fn.name}", getattr(node, "lineno", 0)))
            changed = True
            return new

        def visit_Return(self, node):
            self.generic_visit(node)
            return _list_of_genexp(node)

        def visit_Assign(self, node):
            self.generic_visit(node)
            return _list_of_genexp(node)

    def _list_of_genexp(st):
        # `list(<generator expression>)` is the list comprehension
        v = st.value
        if isinstance(v, ast.Call) and isinstance(v.func, ast.Name) and v.func.id == "list" and len(v.args) == 1 and not v.keywords and isinstance(v.args[0], ast.GeneratorExp) \
                and getattr(v.args[0], "_from_helper", False):
            st.value = ast.copy_location(ast.ListComp(v.args[0].elt, v.args[0].generators), v)
            ast.fix_missing_locations(st)
        return st
    fn.body = [T().visit(st) for st in fn.body]
    return changed


def _is_outer_iter(e, name_node) -> bool:
    """name_node is (inside) the iterable of the first generator of a comprehension in e: evaluated once."""
    for x in ast.walk(e):
        if isinstance(x, (ast.ListComp, ast.SetComp, ast.GeneratorExp, ast.DictComp)) and x.generators:
            if any(y is name_node for y in ast.walk(x.generators[0].iter)):
                return True
    return False


def inline_helpers(modules, known, rep: Report):
    for rel, mod in modules.items():
        for sc, body, owner in scopes(mod.tree):
            kf = known["functions"].get(f"{rel}::{sc}")
            if kf is None:
                continue
            # new read-only properties that are a single `return <expr over self>`: `self.<name>` is that expression
            if sc:
                props = {}
                for n in list(body):
                    if isinstance(n, ast.FunctionDef) and n.name not in kf and [ast.unparse(d) for d in n.decorator_list] == ["property"] \
                            and len(n.args.args) == 1 and not any(isinstance(m, FUNC) and m.name == n.name and m is not n for m in body):
                        e = _expr_helper(n)
                        if e is not None and all(not isinstance(x, ast.Name) or x.id == n.args.args[0].arg or x.id[:1].isupper() or x.id in ("str", "int", "len", "bool")
                                                 for x in ast.walk(e)):
                            props[n.name] = (n, e)
                if props:
                    class P(ast.NodeTransformer):
                        def visit_Attribute(self, node):
                            self.generic_visit(node)
                            if isinstance(node.ctx, ast.Load) and isinstance(node.value, ast.Name) and node.value.id == "self" and node.attr in props:
                                pn, pe = props[node.attr]
                                new = _Rename({}, {pn.args.args[0].arg: ast.Name("self", ast.Load())}).visit(copy.deepcopy(pe))
                                rep.inlined.append((f"{sc}.{node.attr} (property)", sc, getattr(node, "lineno", 0)))
                                return ast.copy_location(new, node)
                            return node
                    for m in body:
                        if isinstance(m, FUNC) and m.name not in props:
                            m.body = [P().visit(st) for st in m.body]
                            ast.fix_missing_locations(m)
                    for name, (pn, pe) in props.items():
                        if not any(isinstance(x, ast.Attribute) and x.attr == name for mm in modules.values() for x in ast.walk(mm.tree)):
                            body.remove(pn)
            for _round in range(3):
                present = {n.name: n for n in body if isinstance(n, FUNC)}
                helpers = {}
                for name, fn in present.items():
                    if name in kf or name.startswith("__"):
                        continue
                    decos = [ast.unparse(d) for d in fn.decorator_list]
                    if any(d not in ("staticmethod",) for d in decos):
                        continue
                    if any(isinstance(x, FUNC + (ast.Lambda, ast.Yield, ast.YieldFrom, ast.Global, ast.Nonlocal, ast.ClassDef)) and x is not fn for x in ast.walk(fn)):
                        continue
                    if _calls_to(fn, name, sc):
                        continue  # recursive
                    helpers[name] = fn
                if sc:
                    # new module-level functions are helpers of the module's class methods too
                    mkf = known["functions"].get(f"{rel}::") or {}
                    for n in mod.tree.body:
                        if isinstance(n, FUNC) and n.name not in mkf and not n.decorator_list and not _calls_to(n, n.name, "") \
                                and not any(isinstance(x, FUNC + (ast.Lambda, ast.Yield, ast.YieldFrom, ast.Global, ast.Nonlocal, ast.ClassDef)) and x is not n for x in ast.walk(n)):
                            n._module_level = True  # type: ignore[attr-defined]
                            helpers["mod:" + n.name] = n
                _GENS.clear()
                for name, fn in present.items():
                    if name in kf or name.startswith("__") or name in helpers:
                        continue
                    if any(ast.unparse(d) not in ("staticmethod",) for d in fn.decorator_list):
                        continue
                    if any(isinstance(x, (ast.Yield, ast.YieldFrom)) for x in ast.walk(fn)) and not _calls_to(fn, name, sc) \
                            and not any(isinstance(x, FUNC + (ast.Lambda, ast.Global, ast.Nonlocal, ast.ClassDef)) and x is not fn for x in ast.walk(fn)):
                        _GENS[name] = fn
                _CMS.clear()
                for name, fn in present.items():
                    if name in kf or name.startswith("__") or not isinstance(fn, ast.FunctionDef):
                        continue
                    decos = [ast.unparse(d) for d in fn.decorator_list]
                    if not decos or any(d not in ("staticmethod", "contextlib.contextmanager", "contextmanager") for d in decos) or \
                            not any(d.endswith("contextmanager") for d in decos):
                        continue
                    if _calls_to(fn, name, sc) or any(isinstance(x, FUNC + (ast.Lambda, ast.Global, ast.Nonlocal, ast.ClassDef, ast.YieldFrom)) and x is not fn
                                                     for x in ast.walk(fn)):
                        continue
                    _CMS[name] = fn
                if not helpers and not _GENS and not _CMS:
                    break
                failed = set()
                any_change = False
                for fn in list(present.values()):
                    any_change |= inline_expression_helpers(helpers, fn, sc, rep)
                    nb, ch = _inline_in_block(fn.body, helpers, fn, sc, rep, failed)
                    fn.body = nb
                    any_change |= ch
                for name, fn in list(_GENS.items()) + list(_CMS.items()):
                    if sum(_calls_to(m.tree, name, sc) for m in modules.values()) == 0 and fn in body:
                        body.remove(fn)
                _GENS.clear()
                _CMS.clear()
                for name, fn in helpers.items():
                    if name.startswith("mod:"):
                        left = sum(_calls_to(m.tree, name[4:], "") for m in modules.values())
                        if left == 0 and fn in mod.tree.body:
                            mod.tree.body.remove(fn)
                        continue
                    left = sum(_calls_to(m.tree, name, sc) for m in modules.values())
                    if left == 0 and fn in body:
                        body.remove(fn)
                    elif name not in failed and left:
                        failed.add(name)
                    if name in failed:
                        rep.kept.append((f"{sc + '.' if sc else ''}{name}", "a call site is not in statement / assignment / return position or has a non-trailing return"))
                if not any_change:
                    break


def normalize(modules) -> Report:
    rep = Report()
    known = load_known()
    if known is None:
        return rep
    ENUMS.clear()
    for mod in modules.values():
        for n in mod.tree.body:
            if isinstance(n, ast.ClassDef) and any("Enum" in ast.unparse(b) for b in n.bases):
                ENUMS.add(n.name)
    from . import normalize2 as n2
    n2.desugar_match(modules, rep)
    n2.extract_walrus(modules, rep)
    undo_moves(modules, known, rep)
    undo_renames(modules, known, rep)
    undo_attr_renames(modules, known, rep)
    n2.undo_param_renames(modules, known, rep)
    n2.undo_local_renames(modules, known, rep)
    fold_constants(modules, known, rep)
    n2.expand_scope_classes(modules, known, rep)
    inline_helpers(modules, known, rep)
    n2.constant_attr_access(modules, rep)
    n2.expand_ifexp(modules, known, rep)
    n2.while_to_for(modules, known, rep)
    n2.unroll_constant_loops(modules, known, rep)
    n2.unroll_small_lists(modules, known, rep)
    n2.constant_attr_access(modules, rep)
    n2.expand_table_dispatch(modules, known, rep)
    n2.expand_keyed_arms(modules, known, rep)
    n2.split_tuple_locals(modules, known, rep)
    n2.split_tuple_assign(modules, known, rep)
    n2.index_unpacked_rows(modules, known, rep)
    n2.propagate_block_constants(modules, known, rep)
    n2.propagate_fresh_locals(modules, known, rep)
    n2.expand_augassign(modules, known, rep)
    n2.expand_bool_accumulate(modules, known, rep)
    n2.expand_flag_from_test(modules, known, rep)
    n2.thread_constant_flags(modules, known, rep)
    n2.thread_none_sentinels(modules, known, rep)
    n2.resolve_conditional_joins(modules, known, rep)
    n2.split_tuple_assign(modules, known, rep)
    n2.propagate_fresh_locals(modules, known, rep)
    n2.unroll_constant_loops(modules, known, rep)
    n2.constant_attr_access(modules, rep)
    n2.unroll_small_lists(modules, known, rep)
    n2.drop_ascii_fast_path(modules, known, rep)
    n2.fold_constant_tests(modules, known, rep)
    seen = set()
    rep.kept = [k for k in rep.kept if not (k in seen or seen.add(k))]
    return rep


def inlined_copy(fn, helpers: dict, cls: str):
    """A detached copy of `fn` in which calls to the given same-class helpers ({name: def}) are inlined where the
    call is in statement / assignment / return position (used by rules that do not want to depend on where a small
    helper's statements live)."""
    def detach(node):
        if isinstance(node, list):
            return [detach(x) for x in node]
        if not isinstance(node, ast.AST):
            return node
        new = type(node)()
        for f in node._fields:
            if hasattr(node, f):
                setattr(new, f, detach(getattr(node, f)))
        for a in ("lineno", "col_offset", "end_lineno", "end_col_offset"):
            if hasattr(node, a):
                setattr(new, a, getattr(node, a))
        return new
    cp = detach(fn)
    hs = {k: detach(v) for k, v in helpers.items() if v is not None}
    rep = Report()
    for _ in range(3):
        body, ch = _inline_in_block(cp.body, hs, cp, cls, rep, set())
        cp.body = body
        if not ch:
            break
    mod = getattr(fn, "_module", None)
    for parent in ast.walk(cp):
        for child in ast.iter_child_nodes(parent):
            child._parent = parent
    cp._parent = getattr(fn, "_parent", None)
    if mod is not None:
        for n in ast.walk(cp):
            n._module = mod
    return cp, rep
